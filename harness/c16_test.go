//go:build verif

package main

import (
	"crypto/tls"
	"encoding/json"
	"fmt"
	"net/http"
	"net/url"
	"os"
	"regexp"
	"strings"

	"github.com/oauth2-proxy/oauth2-proxy/v7/verifx/world"
)

// C16 — forwarding headers are ignored unless reverse-proxy mode is on (PROD, paired runs).
//
// Reverse-proxy OFF: a request is executed without forwarding headers (baseline) and with an
// assignment of forwarding headers (variant), each on an identically seeded world (same random
// stream, clock at Epoch, fresh jar). Everything the statement names must be identical: status,
// Location (incl. the redirect_uri and state inside the login URL), Set-Cookie names and
// attributes (incl. Domain), the redirect_uri presented to the token endpoint, upstream hits,
// links and form targets of rendered pages.
//
// Reverse-proxy ON with --real-client-ip-header=H: for a fixed value of H and a fixed remote
// address, no assignment of the *other* headers changes the trusted-IP outcome.
//
// The oracle is relational (needs no model of the implementation). Two small reference pieces
// are written from the documentation only: the expected outcome *class* of every baseline
// (fixture / non-vacuity check, never a violation) and "trusted <=> the configured header holds an
// address inside --trusted-ip" for reverse-proxy mode (docs/configuration/overview.md).
//
// Further parts on the same environment, run function and oracle: c16_methods_test.go (methods
// other than GET, Redis store, twelve further forwarding-style headers, reverse-proxy ON per
// method) and c16_redirects_test.go (redirect targets and forwarding headers naming the same hosts).

// ---------------------------------------------------------------------------------------------
// alphabet

const (
	c16Host          = "app.example.com"
	c16TrustedAddr   = "10.9.8.7"
	c16UntrustedAddr = "203.0.113.9"
	c16TrustedRemote = "10.1.1.1:5555"
	c16Protected     = "/private/page?x=1"
	c16Public        = "/public/info"
)

type c16Header struct {
	Name string
	Vals [2]string // value 1, value 2 (digit 0 = absent)
	IP   bool      // one of the supported real-client-IP headers
}

// The first c16QuickWidth headers form the quick tier's full product.
var c16Headers = []c16Header{
	{"X-Forwarded-Host", [2]string{"other.example.com", "evil.test"}, false}, // on / off the whitelist, other cookie domain
	{"X-Forwarded-Proto", [2]string{"https", "http"}, false},
	{"X-Forwarded-Uri", [2]string{c16Public, "/oauth2/sign_in?rd=/x"}, false}, // skip-auth URI / proxy-prefixed URI
	{"X-Forwarded-For", [2]string{c16TrustedAddr, c16UntrustedAddr}, true},
	{"X-Real-IP", [2]string{c16TrustedAddr, c16UntrustedAddr}, true},
	{"Forwarded", [2]string{"for=" + c16TrustedAddr + ";host=other.example.com;proto=https", "for=" + c16UntrustedAddr + ";host=evil.test;proto=http"}, false},
	{"X-ProxyUser-IP", [2]string{c16TrustedAddr, c16UntrustedAddr}, true},
	{"X-Envoy-External-Address", [2]string{c16TrustedAddr, c16UntrustedAddr}, true},
	{"CF-Connecting-IP", [2]string{c16TrustedAddr, c16UntrustedAddr}, true},
}

const c16QuickWidth = 6

// further single assignments (other spellings, ports, lists, duplicates, look-alike headers)
var c16Extras = [][][2]string{
	{{"X-Forwarded-Host", "other.example.com:8443"}},
	{{"X-Forwarded-Host", "OTHER.example.com"}},
	{{"x-forwarded-host", "evil.test"}},
	{{"X-Forwarded-Host", "evil.test"}, {"X-Forwarded-Host", "other.example.com"}},
	{{"X-Forwarded-Host", "evil.test, other.example.com"}},
	{{"X-Forwarded-Proto", "HTTPS"}},
	{{"X-Forwarded-Proto", "wss"}},
	{{"X-Forwarded-Uri", "/public/../private/page"}},
	{{"X-Forwarded-Uri", "//evil.test/x"}},
	{{"X-Forwarded-Uri", "/public/info?y=2"}},
	{{"X-Forwarded-Uri", "/oauth2/callback"}},
	{{"X-Forwarded-For", c16TrustedAddr + ", " + c16UntrustedAddr}},
	{{"X-Forwarded-For", c16UntrustedAddr + ", " + c16TrustedAddr}},
	{{"X-Forwarded-For", c16TrustedAddr + ":1234"}},
	{{"X-Forwarded-For", "[fd00::1]:443"}},
	{{"X-Forwarded-For", "not-an-address"}},
	{{"x-forwarded-for", c16TrustedAddr}},
	{{"X-Real-IP", c16TrustedAddr + ":1234"}},
	{{"X-Real-IP", "fd00::1"}},
	{{"X-Real-IP", "not-an-address"}},
	{{"x-real-ip", c16TrustedAddr}},
	{{"X-Real-IP", c16UntrustedAddr}, {"X-Real-IP", c16TrustedAddr}},
	{{"True-Client-IP", c16TrustedAddr}},
	{{"X-Client-IP", c16TrustedAddr}},
	{{"X-Original-Forwarded-For", c16TrustedAddr}},
	{{"X-Forwarded-Port", "8443"}},
	{{"X-Forwarded-Scheme", "https"}},
	{{"X-Forwarded-Prefix", "/public"}},
	{{"X-Original-URL", c16Public}},
	{{"X-Forwarded-Server", "evil.test"}},
}

// c16Assign is one assignment of forwarding headers.
type c16Assign struct {
	Lines [][2]string
	Parts []string // single-header constituents ("Name#digit" or "extra#i")
	Key   string
}

func c16Part(i, digit int) string { return fmt.Sprintf("%s#%d", c16Headers[i].Name, digit) }

func c16Single(i, digit int) *c16Assign {
	p := c16Part(i, digit)
	return &c16Assign{Lines: [][2]string{{c16Headers[i].Name, c16Headers[i].Vals[digit-1]}}, Parts: []string{p}, Key: p}
}

func c16Extra(i int) *c16Assign {
	p := fmt.Sprintf("extra#%d", i)
	return &c16Assign{Lines: c16Extras[i], Parts: []string{p}, Key: p}
}

// c16FromDigits builds the assignment for digits[k] over header c16Headers[idx[k]].
func c16FromDigits(idx, digits []int) *c16Assign {
	a := &c16Assign{}
	for k, d := range digits {
		if d == 0 {
			continue
		}
		h := c16Headers[idx[k]]
		a.Lines = append(a.Lines, [2]string{h.Name, h.Vals[d-1]})
		a.Parts = append(a.Parts, c16Part(idx[k], d))
	}
	a.Key = strings.Join(a.Parts, ",")
	return a
}

// c16AllSingles: every header at value 1 and 2, then the extras.
func c16AllSingles(idx []int, extras bool) []*c16Assign {
	var out []*c16Assign
	for _, i := range idx {
		out = append(out, c16Single(i, 1), c16Single(i, 2))
	}
	if extras {
		for i := range c16Extras {
			out = append(out, c16Extra(i))
		}
	}
	return out
}

func c16AllPairs(idx []int) []*c16Assign {
	var out []*c16Assign
	for a := 0; a < len(idx); a++ {
		for b := a + 1; b < len(idx); b++ {
			for da := 1; da <= 2; da++ {
				for db := 1; db <= 2; db++ {
					d := make([]int, len(idx))
					d[a], d[b] = da, db
					out = append(out, c16FromDigits(idx, d))
				}
			}
		}
	}
	return out
}

// c16Product enumerates all digit vectors over idx whose first len(fixed) digits equal fixed and
// which have more than two non-absent headers (singles and pairs are enumerated separately).
func c16Product(idx, fixed []int, f func(a *c16Assign) bool) {
	d := make([]int, len(idx))
	copy(d, fixed)
	for {
		nz := 0
		for _, x := range d {
			if x != 0 {
				nz++
			}
		}
		if nz > 2 {
			if !f(c16FromDigits(idx, d)) {
				return
			}
		}
		k := len(d) - 1
		for ; k >= len(fixed); k-- {
			d[k]++
			if d[k] < 3 {
				break
			}
			d[k] = 0
		}
		if k < len(fixed) {
			return
		}
	}
}

func c16Range(n int) []int {
	out := make([]int, n)
	for i := range out {
		out[i] = i
	}
	return out
}

// ---------------------------------------------------------------------------------------------
// configurations

type c16Config struct {
	Name       string
	Flags      []string
	Trusted    bool   // --trusted-ip configured
	Skip       bool   // --skip-auth-route=^/public
	API        bool   // --api-route=^/public
	SPB        bool   // --skip-provider-button
	Secure     bool   // cookie-secure left at its default (true)
	ForceHTTPS bool   // force-https middleware installed (see c16ForceHTTPS)
	Whitelist  bool   // .example.com whitelisted
	DomainPart string // forwarded-host part that selects another cookie domain when believed
	Htpasswd   bool   // --htpasswd-file with user hugo/pw1 (form login on /oauth2/sign_in)
	Redis      bool   // sessions in the Redis store (ticket cookie); see c16_methods_test.go
	Preflight  bool   // --skip-auth-preflight=true
}

var (
	c16TrustedFlags   = []string{"--trusted-ip=10.0.0.0/8", "--trusted-ip=fd00::/64"}
	c16WhitelistFlags = []string{"--whitelist-domain=.example.com", "--whitelist-domain=other.test:*"}
)

func c16Cat(parts ...[]string) []string {
	var out []string
	for _, p := range parts {
		out = append(out, p...)
	}
	return out
}

func c16Configs() []*c16Config {
	domA := []string{"--cookie-domain=app.example.com", "--cookie-domain=other.example.com"}
	domB := []string{"--cookie-domain=.example.com", "--cookie-domain=evil.test"}
	domC := []string{"--cookie-domain=example.com", "--cookie-domain=app.example.com", "--cookie-domain=evil.test"}
	spb := []string{"--skip-provider-button=true", "--code-challenge-method=S256"}
	return []*c16Config{
		{Name: "trusted-ip", Flags: c16TrustedFlags, Trusted: true},
		{Name: "skip-route", Flags: []string{"--skip-auth-route=^/public"}, Skip: true},
		{Name: "api-route", Flags: []string{"--api-route=^/public"}, API: true},
		{Name: "whitelist", Flags: c16WhitelistFlags, Whitelist: true},
		{Name: "cookie-domains-a", Flags: c16Cat(domA, c16WhitelistFlags), Whitelist: true, DomainPart: "X-Forwarded-Host#1"},
		{Name: "cookie-domains-b", Flags: domB, DomainPart: "X-Forwarded-Host#2"},
		{Name: "cookie-domains-c", Flags: domC, DomainPart: "X-Forwarded-Host#2"},
		{Name: "force-https", Flags: nil, ForceHTTPS: true},
		{Name: "idp-redirect", Flags: spb, SPB: true},
		{Name: "combo-idp", Flags: c16Cat(c16TrustedFlags, []string{"--skip-auth-route=^/public"}, c16WhitelistFlags, domA, spb), Trusted: true, Skip: true, Whitelist: true, SPB: true, DomainPart: "X-Forwarded-Host#1"},
		{Name: "combo-signin", Flags: c16Cat(c16TrustedFlags, []string{"--skip-auth-route=GET=^/public"}, c16WhitelistFlags, domB), Trusted: true, Skip: true, Whitelist: true, DomainPart: "X-Forwarded-Host#2"},
		{Name: "trusted-ip-header-named", Flags: c16Cat(c16TrustedFlags, []string{"--real-client-ip-header=X-Forwarded-For"}), Trusted: true},
		{Name: "htpasswd", Flags: c16Cat(c16WhitelistFlags, domB), Whitelist: true, DomainPart: "X-Forwarded-Host#2", Htpasswd: true},
		{Name: "secure-default", Flags: c16Cat(c16WhitelistFlags, []string{"--cookie-domain=.example.com", "--cookie-domain=evil.test"}), Secure: true, Whitelist: true, DomainPart: "X-Forwarded-Host#2"},
	}
}

func (cfg *c16Config) scheme() string {
	if cfg.Secure {
		return "https"
	}
	return "http"
}

// c16ForceHTTPS installs the force-https middleware on an already built proxy. The option cannot be
// switched on through the flags in this closed world: it needs --https-address, and NewOAuthProxy
// would open a real TLS listener for it. buildPreAuthChain only parses the port out of the address,
// so the real chain is rebuilt from a copy of the options and the real router is rebuilt around
// it; setupServer is not called again, no listener is opened.
func c16ForceHTTPS(px *Proxy) error {
	o2 := *px.Opts
	o2.ForceHTTPS = true
	o2.Server.SecureBindAddress = "127.0.0.1:4443"
	return verifRebuildPreAuthChain(px.P, &o2)
}

// ---------------------------------------------------------------------------------------------
// requests

type c16Request struct {
	Name     string
	Method   string // default GET
	Body     string // form body (POST)
	Target   string
	Host     string
	Cred     bool
	Remote   string
	TLS      bool
	HTTP10   bool   // HTTP/1.0 request without a Host header (legal)
	Flow     string // "" | "callback" (headers on the callback only) | "login" (headers on start and callback)
	FormFlow bool   // flows: the callback parameters travel in a form body instead of the query (form_post)
	// flows: another start request than /oauth2/start?rd=<protected page> (c16_redirects_test.go)
	StartTarget  string
	StartHeaders [][2]string
	Full         bool   // full product of header assignments
	Class        string // expected class of the baseline (reference, from the documentation)
	MustMatter   []string
}

var c16IPParts = func() []string {
	var out []string
	for i, h := range c16Headers {
		if h.IP {
			out = append(out, c16Part(i, 1))
		}
	}
	return out
}()

func c16Requests(cfg *c16Config) []*c16Request {
	var out []*c16Request
	tlsDefault := cfg.ForceHTTPS // under force-https the ordinary requests arrive over TLS
	add := func(name, target string, mod func(r *c16Request)) {
		r := &c16Request{Name: name, Target: target, Host: c16Host, TLS: tlsDefault}
		if mod != nil {
			mod(r)
		}
		r.Class, r.MustMatter = c16Expect(cfg, r)
		out = append(out, r)
	}
	cred := func(r *c16Request) { r.Cred = true }
	full := func(r *c16Request) { r.Full = true }
	fullCred := func(r *c16Request) { r.Full, r.Cred = true, true }
	trusted := func(r *c16Request) { r.Remote = c16TrustedRemote }

	add("protected", c16Protected, full)
	add("protected+cred", c16Protected, fullCred)
	// unusual but legal transports: a unix-socket listener reports the peer as "@"; an HTTP/1.0
	// client may send no Host header at all
	add("protected@unix-socket-peer", c16Protected, func(r *c16Request) { r.Remote = "@" })
	add("auth@unix-socket-peer", "/oauth2/auth", func(r *c16Request) { r.Remote = "@" })
	add("protected@http10-no-host", c16Protected, func(r *c16Request) { r.Host = ""; r.HTTP10 = true })
	add("start@http10-no-host", "/oauth2/start?rd=%2Fprivate%2Fpage", func(r *c16Request) { r.Host = ""; r.HTTP10 = true })
	add("sign_out@http10-no-host", "/oauth2/sign_out?rd=%2Fafter", func(r *c16Request) { r.Host = ""; r.HTTP10 = true })
	if cfg.Trusted {
		add("protected@trusted-remote", c16Protected, func(r *c16Request) { r.Remote = c16TrustedRemote; r.Full = true })
		add("auth@trusted-remote", "/oauth2/auth", trusted)
		add("userinfo@trusted-remote", "/oauth2/userinfo", trusted)
	}
	if cfg.Skip || cfg.API {
		add("public", c16Public, nil)
	}
	add("auth", "/oauth2/auth", nil)
	add("auth+cred", "/oauth2/auth", cred)
	add("userinfo", "/oauth2/userinfo", nil)
	add("userinfo+cred", "/oauth2/userinfo", cred)
	add("start-rd-relative", "/oauth2/start?rd=%2Fprivate%2Fpage", nil)
	add("start-rd-absolute", "/oauth2/start?rd=https%3A%2F%2Fother.example.com%2Fx", nil)
	add("start", "/oauth2/start", nil)
	add("sign_in", "/oauth2/sign_in", nil)
	add("sign_in-rd-absolute", "/oauth2/sign_in?rd=https%3A%2F%2Fother.example.com%2Fx", nil)
	add("sign_out-rd-relative", "/oauth2/sign_out?rd=%2Fafter", nil)
	add("sign_out-rd-relative+cred", "/oauth2/sign_out?rd=%2Fafter", cred)
	add("sign_out-rd-absolute+cred", "/oauth2/sign_out?rd=https%3A%2F%2Fother.example.com%2Fbye", cred)
	add("sign_out", "/oauth2/sign_out", nil)
	add("callback-error", "/oauth2/callback?error=access_denied", nil)
	add("callback-bogus-state", "/oauth2/callback?code=c&state=bogus%3A%2Fx", nil)
	add("callback-empty", "/oauth2/callback", nil)
	if cfg.Htpasswd {
		form := func(pw string) func(r *c16Request) {
			return func(r *c16Request) {
				r.Method = "POST"
				r.Body = url.Values{"username": {"hugo"}, "password": {pw}, "rd": {"/private/page"}}.Encode()
			}
		}
		add("sign_in-form-login", "/oauth2/sign_in", form("pw1"))
		add("sign_in-form-login-absolute-rd", "/oauth2/sign_in?rd=https%3A%2F%2Fother.example.com%2Fx", form("pw1"))
		add("sign_in-form-wrong-password", "/oauth2/sign_in", form("nope"))
	}
	add("callback-valid", "", func(r *c16Request) { r.Flow = "callback" })
	add("login-flow", "", func(r *c16Request) { r.Flow = "login" })
	if cfg.ForceHTTPS {
		plain := func(r *c16Request) { r.TLS = false }
		add("plain:protected", c16Protected, func(r *c16Request) { r.TLS = false; r.Full = true })
		add("plain:protected-port", c16Protected, func(r *c16Request) { r.TLS = false; r.Host = c16Host + ":8080" })
		add("plain:protected+cred", c16Protected, func(r *c16Request) { r.TLS = false; r.Cred = true })
		add("plain:start", "/oauth2/start?rd=%2Fprivate%2Fpage", plain)
		add("plain:sign_in", "/oauth2/sign_in", plain)
		add("plain:auth", "/oauth2/auth", plain)
		add("plain:callback-error", "/oauth2/callback?error=access_denied", plain)
	}
	return out
}

// c16Expect is the reference for the baseline: the outcome class the documentation prescribes
// for the request without forwarding headers, and the header values that must change the answer
// of the reverse-proxy twin (used only to prove the pair is not vacuous).
func c16Expect(cfg *c16Config, r *c16Request) (class string, must []string) {
	if cfg.ForceHTTPS && !r.TLS {
		return "https-redirect", []string{"X-Forwarded-Proto#1"}
	}
	path := pathOf(r.Target)
	trustedRemote := cfg.Trusted && r.Remote == c16TrustedRemote
	switch {
	case r.Flow != "":
		class = "login-complete"
		must = append(must, "X-Forwarded-Host#2") // redirect_uri mismatch at the token endpoint when believed
	case path == "/oauth2/auth":
		class = "401"
		if r.Cred || trustedRemote {
			class = "202"
		}
	case path == "/oauth2/userinfo":
		class = "401"
		if r.Cred || trustedRemote {
			class = "200"
		}
	case path == "/oauth2/start":
		class = "idp-redirect"
		must = append(must, "X-Forwarded-Host#1", "X-Forwarded-Host#2")
		if !cfg.Secure && !cfg.ForceHTTPS {
			must = append(must, "X-Forwarded-Proto#1")
		}
	case path == "/oauth2/sign_in" && r.Method == "POST" && strings.Contains(r.Body, "password=pw1"):
		class = "login-complete"
		if cfg.DomainPart != "" {
			must = append(must, cfg.DomainPart) // Domain of the new session cookie
		}
	case path == "/oauth2/sign_in":
		class = "signin-page"
		if cfg.SPB {
			class = "idp-redirect"
		}
	case path == "/oauth2/sign_out":
		class = "redirect"
		if cfg.DomainPart != "" && r.Cred { // the clearing cookies carry the Domain attribute
			must = append(must, cfg.DomainPart)
		}
	case path == "/oauth2/callback":
		class = "error-page"
	default: // an application path
		public := strings.HasPrefix(path, "/public")
		switch {
		case r.Cred || trustedRemote || (cfg.Skip && public):
			class = "upstream"
		case cfg.API && public:
			class = "401"
		case cfg.SPB:
			class = "idp-redirect"
		default:
			class = "signin-page"
		}
		if !r.Cred {
			if cfg.Trusted && !(cfg.Skip && public) {
				// in reverse-proxy mode the remote address is not consulted, so on the twin a
				// trusted address in the configured header grants the bypass whatever the remote is
				must = append(must, c16IPParts...)
			}
			if (cfg.Skip || cfg.API) && !public && !trustedRemote {
				must = append(must, "X-Forwarded-Uri#1")
			}
			if cfg.Skip && public {
				must = append(must, "X-Forwarded-Uri#2")
			}
			if class == "idp-redirect" {
				must = append(must, "X-Forwarded-Host#2")
			}
			if class == "signin-page" && cfg.Whitelist {
				// the post-login target becomes an absolute URL only when host and scheme are both forwarded
				must = append(must, "X-Forwarded-Host#1,X-Forwarded-Proto#1")
			}
		}
	}
	return class, must
}

// ---------------------------------------------------------------------------------------------
// observation

type c16Obs struct {
	Status   int      `json:"status"`
	Location string   `json:"location,omitempty"`
	Cookies  []string `json:"set_cookie,omitempty"` // name and attributes, value removed
	Upstream []string `json:"upstream,omitempty"`
	Links    []string `json:"links,omitempty"`
	IdP      []string `json:"idp_token_calls,omitempty"`
	Panic    string   `json:"panic,omitempty"`
	Note     string   `json:"note,omitempty"`
	Start    *c16Obs  `json:"start_step,omitempty"`
	Session  bool     `json:"session_cookie_set,omitempty"`
	Store    []string `json:"store_ops,omitempty"` // Redis configurations: operations on the session store, in order
}

func (o *c16Obs) str() string {
	b, _ := json.Marshal(o)
	return string(b)
}

var c16LinkRE = regexp.MustCompile(`(?:href|action|value|src)="([^"]*)"`)

// c16Links returns what c16LinkRE.FindAllStringSubmatch(body, -1) captures — the values of all
// href/action/value/src attributes in order — by a linear scan (the backtracking matcher was the
// single most expensive step of a run).
func c16Links(body string) []string {
	var out []string
	for i := 0; i < len(body); {
		j := strings.Index(body[i:], `="`)
		if j < 0 {
			break
		}
		j += i
		pre := body[:j]
		if !(strings.HasSuffix(pre, "href") || strings.HasSuffix(pre, "action") || strings.HasSuffix(pre, "value") || strings.HasSuffix(pre, "src")) {
			i = j + 1
			continue
		}
		k := strings.IndexByte(body[j+2:], '"')
		if k < 0 {
			break // no closing quote from here on: nothing further can match either
		}
		out = append(out, body[j+2:j+2+k])
		i = j + 2 + k + 1
	}
	return out
}

func (o *c16Obs) class() string {
	switch {
	case o.Panic != "":
		return "panic"
	case len(o.Upstream) > 0:
		return "upstream"
	case o.Status == http.StatusPermanentRedirect:
		return "https-redirect"
	case o.Status == http.StatusFound && strings.HasPrefix(o.Location, world.Issuer+"/authorize"):
		return "idp-redirect"
	case o.Status == http.StatusFound && o.Session:
		return "login-complete"
	case o.Status == http.StatusFound:
		return "redirect"
	}
	for _, l := range o.Links {
		if l == "/oauth2/start" {
			return "signin-page" // whatever the status (200, 401 after a wrong password, 403)
		}
	}
	switch o.Status {
	case http.StatusUnauthorized:
		return "401"
	case http.StatusAccepted:
		return "202"
	}
	if o.Status >= 400 {
		return "error-page"
	}
	return fmt.Sprint(o.Status)
}

// redirectURI extracts the OAuth redirect URI from a login URL (for messages).
func (o *c16Obs) redirectURI() string {
	if u, err := url.Parse(o.Location); err == nil {
		return u.Query().Get("redirect_uri")
	}
	return ""
}

// c16Diff names the first group of observed fields in which two observations differ.
func c16Diff(a, b *c16Obs) (group, detail string) {
	if a.Panic != b.Panic {
		return "decision", fmt.Sprintf("panic %q vs %q", a.Panic, b.Panic)
	}
	if a.Status != b.Status {
		return "decision", fmt.Sprintf("status %d vs %d", a.Status, b.Status)
	}
	if fmt.Sprint(a.Upstream) != fmt.Sprint(b.Upstream) {
		return "decision", fmt.Sprintf("upstream %v vs %v", a.Upstream, b.Upstream)
	}
	if a.Note != b.Note {
		return "decision", fmt.Sprintf("%q vs %q", a.Note, b.Note)
	}
	if fmt.Sprint(a.Store) != fmt.Sprint(b.Store) {
		return "decision", fmt.Sprintf("session-store operations %v vs %v", a.Store, b.Store)
	}
	if a.Location != b.Location {
		if ra, rb := a.redirectURI(), b.redirectURI(); ra != rb {
			return "redirect", fmt.Sprintf("OAuth redirect_uri %q vs %q", ra, rb)
		}
		return "redirect", fmt.Sprintf("Location %q vs %q", a.Location, b.Location)
	}
	if fmt.Sprint(a.IdP) != fmt.Sprint(b.IdP) {
		return "redirect", fmt.Sprintf("token endpoint saw %v vs %v", a.IdP, b.IdP)
	}
	if fmt.Sprint(a.Links) != fmt.Sprint(b.Links) {
		return "redirect", fmt.Sprintf("page links %v vs %v", a.Links, b.Links)
	}
	if fmt.Sprint(a.Cookies) != fmt.Sprint(b.Cookies) || a.Session != b.Session {
		return "cookie", fmt.Sprintf("Set-Cookie %v vs %v", a.Cookies, b.Cookies)
	}
	if (a.Start == nil) != (b.Start == nil) {
		return "decision", "start step present in one run only"
	}
	if a.Start != nil {
		if g, d := c16Diff(a.Start, b.Start); g != "" {
			return g, "start step: " + d
		}
	}
	return "", ""
}

// ---------------------------------------------------------------------------------------------
// environment: proxies, credentials, execution of one run

type c16Env struct {
	c         *Ctx
	up        *world.Upstream
	idp       *world.IdP
	proxies   map[string]*Proxy // config name + "|" + real-client-ip header ("" = reverse-proxy off)
	cred      map[string]string // config name -> Cookie header of a valid session
	confirmed map[string]int
	blocks    map[int]*c16Block
	stores    map[string]*c16Store // Redis configurations: config name -> store shared by the proxy and its twins
	cur       *c16Store            // store of the run in progress (nil: cookie store)
	curMark   int
	xblocks   map[int]*c16xBlock
}

func c16NewEnv(c *Ctx) *c16Env {
	return &c16Env{c: c, up: world.NewUpstream("u"), idp: world.NewIdP(), proxies: map[string]*Proxy{}, cred: map[string]string{},
		confirmed: map[string]int{}, blocks: map[int]*c16Block{}, stores: map[string]*c16Store{}, xblocks: map[int]*c16xBlock{}}
}

var c16HtpasswdFile string

func c16Flags(up *world.Upstream, cfg *c16Config, rpHeader string) []string {
	flags := append(baseFlags(up.URL()), "--email-domain=*")
	if !cfg.Secure {
		flags = append(flags, "--cookie-secure=false")
	}
	flags = append(flags, cfg.Flags...)
	if cfg.Htpasswd {
		if c16HtpasswdFile == "" {
			c16HtpasswdFile = writeHtpasswd(map[string]string{"hugo": "pw1"})
		}
		flags = append(flags, "--htpasswd-file="+c16HtpasswdFile, "--display-htpasswd-form=true")
	}
	if rpHeader != "" {
		flags = append(flags, "--reverse-proxy=true", "--real-client-ip-header="+rpHeader)
	}
	return flags
}

// proxy returns the proxy for cfg; rpHeader "" = reverse-proxy off, otherwise the twin with
// --reverse-proxy=true --real-client-ip-header=rpHeader.
func (e *c16Env) proxy(cfg *c16Config, rpHeader string) *Proxy {
	k := cfg.Name + "|" + rpHeader
	if px := e.proxies[k]; px != nil {
		return px
	}
	pc := &ProxyCfg{Flags: c16Flags(e.up, cfg, rpHeader)}
	if cfg.Redis {
		pc.Redis = e.storeFor(cfg).R
	}
	px := mustProxy(pc)
	if rpHeader == "" && e.cred[cfg.Name] == "" {
		// a valid credential: one real login, cookie taken from the callback response
		world.SeedRandom(e.c.Seed, 9999)
		world.ResetClock()
		b := newBrowser(px, cfg.scheme(), c16Host)
		resp, _, err := b.Login(e.idp, "alice", c16Protected)
		var parts []string
		if err == nil {
			for _, ck := range resp.Cookies() {
				if ck.MaxAge > 0 && ck.Value != "" && !strings.Contains(ck.Name, "csrf") {
					parts = append(parts, ck.Name+"="+ck.Value)
				}
			}
		}
		if len(parts) == 0 {
			e.c.Error("config %s: login for the valid credential failed: err=%v status=%d", cfg.Name, err, resp.Status)
		}
		e.cred[cfg.Name] = strings.Join(parts, "; ")
		if cfg.Redis {
			e.storeFor(cfg).snapshot() // the stored session behind the ticket; put back before every run
		}
	}
	if cfg.ForceHTTPS {
		if err := c16ForceHTTPS(px); err != nil {
			panic(fmt.Sprintf("force-https chain: %v", err))
		}
	}
	e.proxies[k] = px
	return px
}

func (e *c16Env) serve(px *Proxy, r *world.Req, withTLS bool) *world.Resp {
	req, err := r.Parse()
	if err != nil {
		return &world.Resp{Status: 400, ParseErr: err, Header: http.Header{}}
	}
	if withTLS {
		req.TLS = &tls.ConnectionState{HandshakeComplete: true}
	}
	return world.ServeHTTP(px.H, req)
}

func (e *c16Env) observe(resp *world.Resp, idpMark int) *c16Obs {
	o := &c16Obs{Status: resp.Status, Location: resp.Location()}
	if resp.ParseErr != nil {
		o.Note = "request rejected by the HTTP parser: " + resp.ParseErr.Error()
	}
	if resp.Panic != nil {
		o.Panic = fmt.Sprint(resp.Panic)
	}
	for _, line := range resp.SetCookieLines() {
		segs := strings.Split(line, ";")
		name := segs[0]
		if i := strings.Index(name, "="); i >= 0 {
			name = name[:i]
		}
		for i := range segs {
			segs[i] = strings.TrimSpace(segs[i])
		}
		segs[0] = strings.TrimSpace(name)
		o.Cookies = append(o.Cookies, strings.Join(segs, "; "))
	}
	for _, ck := range resp.Cookies() {
		if ck.MaxAge > 0 && ck.Value != "" && !strings.Contains(ck.Name, "csrf") {
			o.Session = true
		}
	}
	for _, l := range e.up.Take() {
		o.Upstream = append(o.Upstream, l.Method+" "+l.RequestURI)
	}
	o.Links = c16Links(resp.Body)
	if !e.c.Quick() || os.Getenv("VERIF_C16_LINKCHECK") != "" { // cross-check of the scanner against the expression (thorough tier: always)
		var ref []string
		for _, m := range c16LinkRE.FindAllStringSubmatch(resp.Body, -1) {
			ref = append(ref, m[1])
		}
		if fmt.Sprintf("%q", ref) != fmt.Sprintf("%q", o.Links) {
			e.c.Error("c16Links differs from the expression: %q vs %q", o.Links, ref)
		}
	}
	if e.cur != nil {
		o.Store = e.cur.R.Ops(e.curMark)
	}
	calls := e.idp.Calls
	if idpMark <= len(calls) {
		for _, cl := range calls[idpMark:] {
			if cl.Endpoint == "token" {
				o.IdP = append(o.IdP, fmt.Sprintf("grant=%s redirect_uri=%s result=%s", cl.Grant, cl.Form.Get("redirect_uri"), cl.Note))
			}
		}
	}
	return o
}

// run executes one request (or one login flow) on a freshly seeded world.
func (e *c16Env) run(px *Proxy, cfg *c16Config, rq *c16Request, lines [][2]string, gen uint64) *c16Obs {
	e.c.Inc("proxy_runs")
	if len(e.idp.Calls) > 20000 { // bound memory; single-threaded, nothing else holds the provider
		e.idp.Calls, e.idp.AuthLog = nil, nil
		e.idp.Auths = map[string]*world.AuthRequest{}
	}
	world.SeedRandom(e.c.Seed, gen)
	world.ResetClock()
	e.up.Take()
	e.cur = nil
	if cfg.Redis {
		e.cur = e.storeFor(cfg)
		e.cur.restore()
		e.curMark = e.cur.R.NumCalls()
	}
	mark := len(e.idp.Calls)
	if rq.Flow == "" {
		r := &world.Req{Method: "GET", Target: rq.Target, Host: rq.Host, Remote: rq.Remote, HTTP10: rq.HTTP10}
		if rq.Method != "" {
			r.Method = rq.Method
		}
		if rq.Body != "" {
			r.Body = rq.Body
			r.Headers = append(r.Headers, [2]string{"Content-Type", "application/x-www-form-urlencoded"})
		}
		r.Headers = append(r.Headers, lines...)
		if rq.Cred {
			r.Headers = append(r.Headers, [2]string{"Cookie", e.cred[cfg.Name]})
		}
		return e.observe(e.serve(px, r, rq.TLS), mark)
	}
	// login flow with a fresh jar: start -> provider -> callback
	jar := world.NewJar()
	sr := &world.Req{Method: "GET", Target: "/oauth2/start?rd=" + url.QueryEscape(c16Protected), Host: rq.Host, Remote: rq.Remote}
	if rq.StartTarget != "" {
		sr.Target = rq.StartTarget
	}
	sr.Headers = append(sr.Headers, rq.StartHeaders...)
	if rq.Flow == "login" {
		sr.Headers = append(sr.Headers, lines...)
	}
	sresp := e.serve(px, sr, rq.TLS)
	jar.SetCookies(cfg.scheme(), rq.Host, "/oauth2/start", sresp.Header)
	start := e.observe(sresp, mark)
	if start.class() != "idp-redirect" {
		return &c16Obs{Status: -1, Note: "flow stopped: start did not redirect to the provider", Start: start}
	}
	cb, _, err := e.idp.Authorize(sresp.Location(), "alice")
	if err != nil {
		return &c16Obs{Status: -1, Note: "flow stopped: provider refused the authorization request: " + err.Error(), Start: start}
	}
	u, err := url.Parse(cb)
	if err != nil {
		return &c16Obs{Status: -1, Note: "flow stopped: unparsable callback URL", Start: start}
	}
	cr := &world.Req{Method: "GET", Target: u.RequestURI(), Host: rq.Host, Remote: rq.Remote}
	if rq.Method != "" {
		cr.Method = rq.Method
	}
	if rq.FormFlow {
		cr.Target, cr.Body = u.Path, u.RawQuery
		cr.Headers = append(cr.Headers, [2]string{"Content-Type", "application/x-www-form-urlencoded"})
	}
	cr.Headers = append(cr.Headers, lines...)
	if ck := jar.Header(cfg.scheme(), rq.Host, "/oauth2/callback"); ck != "" {
		cr.Headers = append(cr.Headers, [2]string{"Cookie", ck})
	}
	mark2 := len(e.idp.Calls)
	if e.cur != nil {
		e.curMark = e.cur.R.NumCalls()
	}
	o := e.observe(e.serve(px, cr, rq.TLS), mark2)
	o.Start = start
	return o
}

// ---------------------------------------------------------------------------------------------
// reverse-proxy OFF: blocks, units, pairs

type c16Block struct {
	No       int
	Cfg      *c16Config
	Rq       *c16Request
	Px       *Proxy
	Base     *c16Obs
	BaseStr  string
	Eff      map[string]bool // part -> changes the answer of the reverse-proxy twin
	single   map[string]int  // part -> 1 no effect with reverse-proxy off, 2 effect (lazy)
	pairEff  map[string]int  // "partA,partB" -> 1 no effect on the twin, 2 effect (lazy)
	twinBase map[string]string
}

// effPair: do two header values that are ineffective alone change the twin's answer together
// (e.g. forwarded host + forwarded scheme)? Memoised per block.
func (e *c16Env) effPair(b *c16Block, key string) bool {
	if v := b.pairEff[key]; v != 0 {
		return v == 2
	}
	b.pairEff[key] = 1
	ps := strings.SplitN(key, ",", 2)
	lines := append(append([][2]string{}, c16LinesOfPart(ps[0])...), c16LinesOfPart(ps[1])...)
	h := c16TwinHeader(b.Cfg, lines)
	tw := e.proxy(b.Cfg, h)
	if _, ok := b.twinBase[h]; !ok {
		b.twinBase[h] = e.run(tw, b.Cfg, b.Rq, nil, uint64(b.No)).str()
	}
	e.c.Inc("twin_runs")
	if e.run(tw, b.Cfg, b.Rq, lines, uint64(b.No)).str() != b.twinBase[h] {
		b.pairEff[key] = 2
	}
	return b.pairEff[key] == 2
}

type c16Case struct {
	Mode     string      `json:"mode"` // rp-off | rp-on
	Config   string      `json:"config"`
	Flags    []string    `json:"flags"`
	Request  string      `json:"request"`
	Method   string      `json:"method,omitempty"`
	Body     string      `json:"body,omitempty"`
	Target   string      `json:"target,omitempty"`
	Host     string      `json:"host,omitempty"`
	Remote   string      `json:"remote_addr,omitempty"`
	TLS      bool        `json:"tls,omitempty"`
	Cred     bool        `json:"valid_session_cookie,omitempty"`
	Fixed    [][2]string `json:"fixed_headers,omitempty"` // rp-on: the configured header, present in both runs
	Headers  [][2]string `json:"forwarding_headers"`
	Expected string      `json:"expected"`
	Observed string      `json:"observed"`
}

// twinHeader: the real-client-ip header the reverse-proxy twin is configured with when the
// effect of `lines` is measured.
func c16TwinHeader(cfg *c16Config, lines [][2]string) string {
	if cfg.Trusted && len(lines) > 0 {
		n := http.CanonicalHeaderKey(lines[0][0])
		for _, h := range c16Headers {
			if h.IP && http.CanonicalHeaderKey(h.Name) == n {
				return h.Name
			}
		}
	}
	return "X-Real-IP"
}

func (e *c16Env) block(no int, cfg *c16Config, rq *c16Request) *c16Block {
	if b := e.blocks[no]; b != nil {
		return b
	}
	c := e.c
	b := &c16Block{No: no, Cfg: cfg, Rq: rq, Px: e.proxy(cfg, ""), Eff: map[string]bool{}, single: map[string]int{}, pairEff: map[string]int{}}
	gen := uint64(no)
	b.Base = e.run(b.Px, cfg, rq, nil, gen)
	b.BaseStr = b.Base.str()
	if again := e.run(b.Px, cfg, rq, nil, gen); again.str() != b.BaseStr {
		c.Unstable("config %s request %s: the baseline is not reproducible on an identically seeded world: %s vs %s", cfg.Name, rq.Name, b.BaseStr, again.str())
	}
	if cls := b.Base.class(); cls != rq.Class {
		c.Error("fixture: config %s request %s: baseline class %q, the documentation prescribes %q (%s)", cfg.Name, rq.Name, cls, rq.Class, b.BaseStr)
	}
	// which header values change the answer when reverse-proxy mode is ON (non-triviality rule)
	twinBase := map[string]string{}
	for _, a := range c16AllSingles(c16Range(len(c16Headers)), true) {
		h := c16TwinHeader(cfg, a.Lines)
		tw := e.proxy(cfg, h)
		if _, ok := twinBase[h]; !ok {
			twinBase[h] = e.run(tw, cfg, rq, nil, gen).str()
		}
		c.Inc("twin_runs")
		if e.run(tw, cfg, rq, a.Lines, gen).str() != twinBase[h] {
			b.Eff[a.Key] = true
		}
	}
	b.twinBase = twinBase
	for _, m := range rq.MustMatter {
		if !b.Eff[m] && !(strings.Contains(m, ",") && e.effPair(b, m)) {
			c.Error("vacuity: config %s request %s: header value %s does not change the answer of the reverse-proxy twin, so ignoring it proves nothing", cfg.Name, rq.Name, m)
		}
	}
	e.blocks[no] = b
	return b
}

func (b *c16Block) mkCase(a *c16Assign, obs *c16Obs) *c16Case {
	return &c16Case{Mode: "rp-off", Config: b.Cfg.Name, Flags: b.Cfg.Flags, Request: b.Rq.Name, Method: b.Rq.Method, Body: b.Rq.Body, Target: b.Rq.Target, Host: b.Rq.Host, Remote: b.Rq.Remote,
		TLS: b.Rq.TLS, Cred: b.Rq.Cred, Headers: a.Lines, Expected: b.BaseStr, Observed: obs.str()}
}

// headerOfPart: "X-Forwarded-Host#2" -> X-Forwarded-Host; extras -> name of their first line.
func c16HeaderOfPart(p string) string {
	if strings.HasPrefix(p, "extra#") {
		var i int
		fmt.Sscanf(p, "extra#%d", &i)
		if i >= 0 && i < len(c16Extras) {
			n := http.CanonicalHeaderKey(c16Extras[i][0][0])
			for _, h := range c16Headers {
				if http.CanonicalHeaderKey(h.Name) == n {
					return h.Name // one key per header whatever the spelling on the wire
				}
			}
			return n
		}
	}
	if i := strings.Index(p, "#"); i >= 0 {
		return p[:i]
	}
	return p
}

func c16LinesOfPart(p string) [][2]string {
	if strings.HasPrefix(p, "extra#") {
		var i int
		fmt.Sscanf(p, "extra#%d", &i)
		return c16Extras[i]
	}
	for i, h := range c16Headers {
		for d := 1; d <= 2; d++ {
			if c16Part(i, d) == p {
				return [][2]string{{h.Name, h.Vals[d-1]}}
			}
		}
	}
	return nil
}

// culprit: the first constituent header that has an effect on its own (reverse-proxy off).
func (e *c16Env) culprit(b *c16Block, a *c16Assign) string {
	for _, p := range a.Parts {
		if b.single[p] == 0 {
			b.single[p] = 1
			if e.run(b.Px, b.Cfg, b.Rq, c16LinesOfPart(p), uint64(b.No)).str() != b.BaseStr {
				b.single[p] = 2
			}
		}
		if b.single[p] == 2 {
			return c16HeaderOfPart(p)
		}
	}
	return "combination"
}

// pair executes the variant and compares it with the block's baseline.
func (e *c16Env) pair(b *c16Block, a *c16Assign) {
	c := e.c
	obs := e.run(b.Px, b.Cfg, b.Rq, a.Lines, uint64(b.No))
	c.Inc("evaluations")
	c.Inc("pairs_reverse_proxy_off")
	c.Inc("class_" + obs.class())
	nontrivial := false
	for _, p := range a.Parts {
		if b.Eff[p] {
			nontrivial = true
			break
		}
	}
	if !nontrivial && !strings.HasPrefix(a.Key, "extra#") {
		for i, p := range a.Parts {
			for _, q := range a.Parts[i+1:] {
				if !nontrivial && e.effPair(b, p+","+q) {
					nontrivial = true
				}
			}
		}
	}
	if nontrivial {
		c.Distinct("distinct_nontrivial", fmt.Sprintf("off|%d|%s", b.No, a.Key))
		if len(a.Parts) > 1 {
			c.Sample(3, b.mkCase(a, obs))
		}
	}
	if obs.str() == b.BaseStr {
		return
	}
	group, detail := c16Diff(b.Base, obs)
	if group == "" {
		group, detail = "response", "observations differ"
	}
	key := fmt.Sprintf("C16/rp-off/%s/%s", e.culprit(b, a), group)
	msg := fmt.Sprintf("reverse-proxy OFF, config %s %v: request %s (%s) answered differently with forwarding headers %v: %s [without | with]", b.Cfg.Name, b.Cfg.Flags, b.Rq.Name, b.Rq.Target, a.Lines, detail)
	size := len(a.Lines)*1000 + len(b.Rq.Target) + len(b.Cfg.Flags)*10
	if b.Rq.Flow != "" {
		size += 500
	}
	cs := b.mkCase(a, obs)
	if e.confirmed[key] >= 2 {
		c.Violate(key, msg, size, cs)
		return
	}
	e.confirmed[key]++
	c.confirm(key, msg, size, cs, func() (string, bool) {
		// the real pair again, both halves fresh
		x := e.run(b.Px, b.Cfg, b.Rq, nil, uint64(b.No))
		y := e.run(b.Px, b.Cfg, b.Rq, a.Lines, uint64(b.No))
		g, _ := c16Diff(x, y)
		if g == "" && x.str() != y.str() {
			g = "response"
		}
		return fmt.Sprintf("C16/rp-off/%s/%s", e.culprit(b, a), g), x.str() != y.str()
	})
}

func (e *c16Env) runOff() {
	c := e.c
	all := c16Range(len(c16Headers))
	width := len(c16Headers)
	if c.Quick() {
		width = c16QuickWidth
	}
	prodIdx := c16Range(width)
	singles := c16AllSingles(all, true)
	pairs := c16AllPairs(all)
	prodSize := 1
	for i := 0; i < width; i++ {
		prodSize *= 3
	}
	cfgs := c16Configs()
	nReq, nFull := 0, 0
	unit, blockNo := 0, 0
	for _, cfg := range cfgs {
		for _, rq := range c16Requests(cfg) {
			blockNo++
			nReq++
			unit++
			if c.Mine(unit) && !c.Expired() {
				b := e.block(blockNo, cfg, rq)
				for _, a := range singles {
					e.pair(b, a)
				}
				for _, a := range pairs {
					e.pair(b, a)
				}
				// empty assignment = the baseline once more, after everything else ran on this proxy
				if again := e.run(b.Px, cfg, rq, nil, uint64(b.No)); again.str() != b.BaseStr {
					c.Error("config %s request %s: baseline drifted during the block: %s vs %s", cfg.Name, rq.Name, b.BaseStr, again.str())
				}
			}
			if !rq.Full {
				continue
			}
			nFull++
			for chunk := 0; chunk < 9; chunk++ {
				unit++
				if !c.Mine(unit) || c.Expired() {
					continue
				}
				b := e.block(blockNo, cfg, rq)
				fixed := []int{chunk / 3, chunk % 3}
				c16Product(prodIdx, fixed, func(a *c16Assign) bool {
					e.pair(b, a)
					return true
				})
			}
		}
	}
	c.Info["alphabet_reverse_proxy_off"] = map[string]int{
		"headers": len(c16Headers), "values_per_header_incl_absent": 3, "extra_single_assignments": len(c16Extras),
		"configurations": len(cfgs), "config_request_blocks": nReq, "blocks_with_full_product": nFull,
		"singles_per_block": len(singles), "pairs_per_block": len(pairs), "full_product_width": width, "full_product_size": prodSize,
	}
}

// ---------------------------------------------------------------------------------------------
// reverse-proxy ON: only the configured header decides the trusted-IP outcome

func c16TrustedOutcome(o *c16Obs) bool {
	switch o.class() {
	case "upstream", "202", "200":
		return true
	}
	return false
}

func (e *c16Env) runOn() {
	c := e.c
	type hval struct {
		Name, Val string
		Want      int // 1 trusted, 0 untrusted, -1 not pinned down by the documentation
	}
	hvals := []hval{
		{"absent", "", -1},
		{"trusted", c16TrustedAddr, 1},
		{"untrusted", c16UntrustedAddr, 0},
		{"list-trusted-first", c16TrustedAddr + ", " + c16UntrustedAddr, -1},
		{"list-untrusted-first", c16UntrustedAddr + ", " + c16TrustedAddr, -1},
	}
	reqs := []*c16Request{
		{Name: "protected", Target: c16Protected, Host: c16Host},
		{Name: "auth", Target: "/oauth2/auth", Host: c16Host},
		{Name: "userinfo", Target: "/oauth2/userinfo", Host: c16Host},
	}
	remotes := []string{"", c16TrustedRemote}
	unit := 1 << 20
	blockNo := 1 << 20
	nBlocks := 0
	var sizes map[string]int
	for hi, H := range c16Headers {
		if !H.IP {
			continue
		}
		cfg := &c16Config{Name: "rp-on:" + H.Name, Flags: c16Cat(c16TrustedFlags, c16WhitelistFlags), Trusted: true, Whitelist: true}
		var others, ipOthers []int
		for i, h := range c16Headers {
			if i == hi {
				continue
			}
			others = append(others, i)
			if h.IP || h.Name == "Forwarded" {
				ipOthers = append(ipOthers, i)
			}
		}
		singles := c16AllSingles(others, false)
		pairs := c16AllPairs(others)
		prodIdx := others
		if c.Quick() {
			prodIdx = ipOthers
		}
		sizes = map[string]int{"configured_headers": 5, "values_of_configured_header": len(hvals), "requests": len(reqs), "remote_addresses": len(remotes),
			"other_headers": len(others), "singles_per_block": len(singles), "pairs_per_block": len(pairs), "full_product_width": len(prodIdx)}
		for _, rq := range reqs {
			for _, remote := range remotes {
				for _, hv := range hvals {
					unit++
					blockNo++
					nBlocks++
					if !c.Mine(unit) || c.Expired() {
						continue
					}
					px := e.proxy(cfg, H.Name)
					r := *rq
					r.Remote = remote
					var fixed [][2]string
					if hv.Val != "" {
						fixed = [][2]string{{H.Name, hv.Val}}
					}
					gen := uint64(blockNo)
					base := e.run(px, cfg, &r, fixed, gen)
					baseOut := c16TrustedOutcome(base)
					c.Inc(fmt.Sprintf("rp_on_baseline_trusted_%v", baseOut))
					if hv.Want >= 0 && baseOut != (hv.Want == 1) {
						c.Error("vacuity: reverse-proxy ON, %s=%q, request %s: trusted-IP outcome %v, the documentation prescribes %v; the configured header does not decide, so the exploration means nothing (%s)",
							H.Name, hv.Val, r.Name, baseOut, hv.Want == 1, base.str())
					}
					single := map[string]int{}
					check := func(a *c16Assign) {
						lines := append(append([][2]string{}, fixed...), a.Lines...)
						obs := e.run(px, cfg, &r, lines, gen)
						got := c16TrustedOutcome(obs)
						c.Inc("evaluations")
						c.Inc("pairs_reverse_proxy_on")
						c.Inc(fmt.Sprintf("rp_on_trusted_%v", got))
						if hv.Want < 0 {
							c.Inc("ambiguous") // the reference leaves the outcome open; only the relational clause applies
						}
						ipInvolved := false
						for _, l := range a.Lines {
							if l[1] == c16TrustedAddr || l[1] == c16UntrustedAddr || strings.HasPrefix(l[1], "for=") {
								ipInvolved = true
							}
						}
						if ipInvolved {
							c.Distinct("distinct_nontrivial", fmt.Sprintf("on|%d|%s", blockNo, a.Key))
						}
						if got == baseOut {
							return
						}
						culprit := "combination"
						for _, p := range a.Parts {
							if single[p] == 0 {
								single[p] = 1
								l2 := append(append([][2]string{}, fixed...), c16LinesOfPart(p)...)
								if c16TrustedOutcome(e.run(px, cfg, &r, l2, gen)) != baseOut {
									single[p] = 2
								}
							}
							if single[p] == 2 {
								culprit = c16HeaderOfPart(p)
								break
							}
						}
						key := fmt.Sprintf("C16/rp-on/%s-affects-trusted-ip", culprit)
						msg := fmt.Sprintf("reverse-proxy ON with --real-client-ip-header=%s (%s, remote %q): request %s: trusted-IP outcome %v becomes %v when the other headers %v are added", H.Name, hv.Name, remote, r.Name, baseOut, got, a.Lines)
						cs := &c16Case{Mode: "rp-on", Config: H.Name, Flags: cfg.Flags, Request: r.Name, Target: r.Target, Host: r.Host, Remote: remote, Fixed: fixed, Headers: a.Lines,
							Expected: fmt.Sprintf("trusted=%v", baseOut), Observed: fmt.Sprintf("trusted=%v %s", got, obs.str())}
						size := len(a.Lines)*1000 + len(fixed)*100 + len(r.Target)
						if e.confirmed[key] >= 2 {
							c.Violate(key, msg, size, cs)
							return
						}
						e.confirmed[key]++
						c.confirm(key, msg, size, cs, func() (string, bool) {
							x := c16TrustedOutcome(e.run(px, cfg, &r, fixed, gen))
							y := c16TrustedOutcome(e.run(px, cfg, &r, lines, gen))
							return key, x != y
						})
					}
					for _, a := range singles {
						check(a)
					}
					for _, a := range pairs {
						check(a)
					}
					c16Product(prodIdx, nil, func(a *c16Assign) bool { check(a); return true })
				}
			}
		}
	}
	sizes["blocks"] = nBlocks
	c.Info["alphabet_reverse_proxy_on"] = sizes
}

// ---------------------------------------------------------------------------------------------

func c16Clip(s string, n int) string {
	if len(s) > n {
		return s[:n] + "…"
	}
	return s
}

func c16Replay(c *Ctx, raw json.RawMessage) string {
	var cs c16Case
	if err := json.Unmarshal(raw, &cs); err != nil || cs.Mode == "" {
		return "not a C16 case"
	}
	e := c16NewEnv(c)
	defer e.up.Close()
	defer e.closeStores()
	if cs.Mode == "rp-off-methods" {
		return c16xReplay(c, e, &cs)
	}
	if cs.Mode == "rp-off-redirects" {
		return c16rReplay(c, e, &cs)
	}
	if cs.Mode == "rp-on" {
		cfg := &c16Config{Name: "rp-on:" + cs.Config, Flags: cs.Flags, Trusted: true}
		px := e.proxy(cfg, cs.Config)
		r := &c16Request{Name: cs.Request, Method: cs.Method, Target: cs.Target, Host: cs.Host, Remote: cs.Remote}
		x := e.run(px, cfg, r, cs.Fixed, 1)
		y := e.run(px, cfg, r, append(append([][2]string{}, cs.Fixed...), cs.Headers...), 1)
		if c16TrustedOutcome(x) != c16TrustedOutcome(y) {
			c.Violate("C16/rp-on/replayed", "a header other than the configured one changes the trusted-IP outcome", 1, cs)
		}
		return fmt.Sprintf("configured header only: trusted=%v; with the other headers: trusted=%v (%s)", c16TrustedOutcome(x), c16TrustedOutcome(y), y.str())
	}
	for _, cfg := range c16Configs() {
		if cfg.Name != cs.Config {
			continue
		}
		for _, rq := range c16Requests(cfg) {
			if rq.Name != cs.Request {
				continue
			}
			px := e.proxy(cfg, "")
			x := e.run(px, cfg, rq, nil, 1)
			y := e.run(px, cfg, rq, cs.Headers, 1)
			if x.str() != y.str() {
				g, d := c16Diff(x, y)
				c.Violate("C16/rp-off/replayed/"+g, d, 1, cs)
			}
			return c16Clip(fmt.Sprintf("without headers: %s; with headers: %s", x.str(), y.str()), 2400)
		}
	}
	return "unknown configuration or request in the replay file"
}

func init() {
	register(&checkDef{
		id:    "C16",
		level: "exploration",
		rule: "paired runs on identically seeded worlds. Reverse-proxy OFF: every configuration x request block (endpoint class x credential x remote address x TLS) x {all single values incl. extra spellings, all pairs of the 9 forwarding headers over {absent,v1,v2}; on the protected path the full product 3^9 (quick: 3^6)}: the run with headers must equal the run without in status, Location (redirect_uri, state), Set-Cookie names+attributes, token-endpoint redirect_uri, upstream hits, page links. Reverse-proxy ON: per configured header H x value of H x remote address x request: all assignments of the other 8 headers (quick: 3^5 over the address headers + all singles/pairs) must leave the trusted-IP outcome unchanged. Non-trivial = (off) the assignment contains a header value that, sent alone, changes the answer of the twin proxy with --reverse-proxy=true; (on) the assignment contains an address-bearing header. " +
			"Methods part: reverse-proxy OFF over {GET,HEAD,POST,PUT,DELETE,OPTIONS,PATCH} x endpoint class (incl. rd in a form body, form_post callback) x 5 configurations (cookie store and Redis store, each with the sign-in page and with --skip-provider-button + --skip-auth-preflight, method-scoped skip-auth routes, api routes, trusted networks, two cookie-domain sets; force-https) x {all single values of 18 headers: the statement's six + Forwarded, X-Forwarded-Port/-Prefix/-Scheme/-Server, X-Original-URL/-Host, X-Rewrite-URL, X-Forwarded-Method, X-Envoy-External-Address, CF-Connecting-IP, True-Client-IP; all pairs of the 18 (quick: all pairs of the twelve further ones)}, Redis: operations on the store are part of the compared view; reverse-proxy ON per accepted --real-client-ip-header name (5) x method x value of that header x peer x request: all single values of the other 17 headers and all pairs (quick: pairs of the address-bearing ones) leave the trusted-IP outcome unchanged. Non-trivial = (off) the assignment contains a header whose value, put into the request property the header imitates (host, port, scheme, URI, prefix on the reverse-proxy twin; method and peer address on the request itself), changes the answer; (on) it contains an address on the other side of the trusted networks than the baseline outcome. " +
			"Redirect-target part: reverse-proxy OFF over endpoint {sign_out, start, sign_in page, sign_in form login, callback (target from the state), protected path} x carrier {rd, X-Auth-Request-Redirect} x request host {whitelisted, not whitelisted} x absolute redirect target scheme://H/P with H in {request hosts, whitelisted hosts, wildcard-port host, foreign host} and P in {/, /app, proxy prefix and its sign_in/start/callback} x forwarding assignment {X-Forwarded-Host over the same hosts and case variants, alone and with X-Forwarded-Proto / -Uri; X-Original-Host, X-Forwarded-Server, Forwarded host= over the same}. Non-trivial = the baseline depends on the redirect target (differs from the request without the carrier) and the assignment names a host",
		assumptions: []string{
			"cookie values are not compared (they embed provider-minted tokens); names and all attributes are",
			"headers forwarded to the upstream are not compared (the proxy relays request headers and appends X-Forwarded-For by design); method and request URI of upstream hits are",
			"force-https is installed by rebuilding the real pre-auth chain and router on a built proxy (buildPreAuthChain + buildServeMux) because the flag path would open a TLS listener; no listener is opened",
			"reverse-proxy ON with the configured header absent or holding a list: the documentation does not pin the outcome down; only the relational clause is checked there (counted as ambiguous)",
			"the baseline of a block is executed once (and re-checked at the start and end of the block) rather than before every variant; every reported violation re-executes both halves of the pair 5 times",
			"Redis configurations: one miniredis per configuration shared by the proxy and its reverse-proxy twin; its content after the credential login is put back before every run; of the store traffic the operation names in order are compared, not keys or values",
			"methods part: a baseline class is prescribed only for application paths and /oauth2/auth (passes <=> session | trusted peer | skip-auth route matching path and method | OPTIONS under --skip-auth-preflight) and for login flows; the other endpoint x method combinations are executed, compared and counted by class; bodies of HEAD responses (dropped by a real server) are compared too",
			"X-Auth-Request-Redirect is the documented carrier of a redirect target and is honoured in either mode; in the redirect-target part it is present in both runs of a pair, never part of the varied headers",
			"page links are extracted by a linear scan equivalent to the expression c16LinkRE (cross-checked against it on every response in the thorough tier)",
		},
		shards: func(tier string) int { return 16 },
		run: func(c *Ctx) {
			concRunFor(c, "C16")
			e := c16NewEnv(c)
			defer e.up.Close()
			defer e.closeStores()
			e.runOff()
			e.runOn()
			e.runMethods()   // c16_methods_test.go
			e.runOnMethods() // c16_methods_test.go
			e.runRedirects() // c16_redirects_test.go
		},
		post: func(c *Ctx) { c16xPost(c); c16rPost(c) },
		replay: func(c *Ctx, raw json.RawMessage) string {
			if out, ok := concReplayFor(c, "C16", raw); ok {
				return out
			}
			return c16Replay(c, raw)
		},
	})
}
