//go:build verif

package main

// C09, further session kinds (DESIGN §10.3c listed them as left out). The search, the history
// alphabet and the lifetime model are those of c09_test.go; this file adds configurations and what
// the model needs to know about them:
//
//  1. sessions created by the htpasswd sign-in form (POST <prefix>/sign_in). Such a session holds no
//     provider token. The lifetime clauses apply unchanged (refused once cookie-expire has elapsed
//     since the form was accepted, refused when stamped more than five minutes ahead, Max-Age and
//     store TTL = cookie-expire). With cookie-refresh set, the provider has nothing to refresh or
//     validate such a session by: past the refresh period the converse is suspended (counted).
//  2. a provider that cannot refresh and re-validates a session by a call to its validation
//     endpoint (keycloak with --validate-url), with cookie-refresh set. "issued or last refreshed"
//     leaves open whether a successful re-validation after which the proxy issues a new credential
//     is a refresh. Both readings are kept (c09Cred.T / T0): refusal is demanded once cookie-expire
//     has elapsed since the proxy issued the credential presented (server-side store: and since it
//     last issued one for the session), service only while the lifetime counted from the login
//     has not elapsed; what lies between is counted as ambiguous. A credential the proxy re-issues
//     without a login, a grant or a successful validation call inherits its issue time in every
//     reading.
//  3. cookie-refresh equal to / above cookie-expire: built through the real validation; rejected
//     configurations are counted, admitted ones (cookie-expire=0 admits any refresh period) are
//     explored like every other.
//  4. an identity provider whose clock differs from the proxy's: every ID token (login and refresh)
//     carries iat / auth_time 240 s behind or ahead of the proxy's clock (nbf likewise against the
//     real clock, which is the one the token verifier reads). The oracle does not change: the
//     lifetime counts from the proxy's time of issue, whatever the provider's tokens say.
//  5. a sweep of lifetimes over magnitudes (1 s ... 10 years) x cookie layout (one cookie, split
//     session, ticket cookie + store entry) x CSRF-cookie lifetimes: Max-Age of every cookie set
//     and the TTL of every store entry equal what was configured, at login and at a refresh.

import (
	"fmt"
	"math"
	"net/url"
	"strings"
	"time"

	"github.com/oauth2-proxy/oauth2-proxy/v7/verifx/world"
)

const c09FormPassword = "correct horse"

func (g c09Cfg) part() string {
	switch {
	case g.Form:
		return "form"
	case g.Provider != "":
		return "reval"
	case g.IatSkew != 0:
		return "skew"
	}
	return ""
}

// keyPrefix keeps the findings of the further session kinds apart from those of the OIDC sessions.
func (g c09Cfg) keyPrefix() string {
	switch g.part() {
	case "form":
		return "htpasswd-form/"
	case "reval":
		return "revalidating-provider/"
	case "skew":
		return "provider-clock-differs/"
	}
	return ""
}

func (g c09Cfg) moreString() string {
	s := ""
	if g.Form {
		s += " htpasswd-form"
	}
	if g.Provider != "" {
		s += " provider=" + g.Provider
	}
	if g.IatSkew != 0 {
		s += fmt.Sprintf(" id-token-iat%+ds", g.IatSkew)
	}
	if g.CSRFExpire != 0 {
		s += fmt.Sprintf(" csrf-expire=%ds", g.CSRFExpire)
	}
	return s
}

func (g c09Cfg) providerFlags(upstreamURL string) []string {
	if g.Provider == "" {
		return baseFlags(upstreamURL)
	}
	return []string{
		"--provider=" + g.Provider, "--client-id=" + world.ClientID, "--client-secret=" + world.ClientSecret,
		"--cookie-secret=" + cookieSecret32, "--http-address=-", "--upstream=" + upstreamURL,
		"--login-url=" + world.Issuer + "/authorize", "--redeem-url=" + world.Issuer + "/token",
		"--profile-url=" + world.Issuer + "/userinfo", "--validate-url=" + world.Issuer + "/validate",
	}
}

// moreWorld applies the further knobs of a configuration to the provider and the flag list.
func (g c09Cfg) moreWorld(idp *world.IdP, cfg *ProxyCfg) {
	if g.IatSkew != 0 {
		skew := int64(g.IatSkew)
		idp.IDTokenSpec = func(_ *world.AuthRequest, _ *world.User, _ bool) *world.TokenSpec {
			at := world.Now().Unix() + skew
			return &world.TokenSpec{Claims: map[string]any{
				"iat": at, "auth_time": at,
				// the verifier compares nbf with the real clock (5 min leeway): skewed against the
				// real time of the process start, which keeps the token text reproducible
				"nbf": world.Epoch.Add(-time.Hour).Unix() + skew,
			}}
		}
	}
	if g.CSRFExpire > 0 {
		cfg.Flags = append(cfg.Flags, fmt.Sprintf("--cookie-csrf-expire=%ds", g.CSRFExpire))
	}
}

// observeCSRF checks the CSRF cookie the start of a login sets.
func (w *c09World) observeCSRF(res *c09Res, start *world.Resp) {
	for _, ck := range start.Cookies() {
		if !strings.Contains(ck.Name, "csrf") || ck.Value == "" {
			continue
		}
		res.csrfAges++
		if w.g.CSRFExpire > 0 && ck.MaxAge != w.g.CSRFExpire {
			w.fail(res, "csrf-max-age-differs", "CSRF cookie %s set at %gs carries Max-Age=%d, configured cookie-csrf-expire=%ds", ck.Name, float64(res.NowMs)/1000, ck.MaxAge, w.g.CSRFExpire)
		}
	}
}

// c09Lifetimes spans the magnitudes a lifetime is configured with: a second, just below a minute,
// an hour, the default week, 400 days and a second beyond, two years, ten years.
var c09Lifetimes = []int{1, 59, 3600, 168 * 3600, 9600 * 3600, 9600*3600 + 1, 17520 * 3600, 87600 * 3600}

// c09LifetimeSweep: full product lifetime x layout x CSRF lifetime (quick: one CSRF lifetime per
// session lifetime, every CSRF lifetime met). Each world logs in and, where the lifetime leaves room
// for a refresh period, is refreshed once; every step's verdicts count (no search around them: the
// histories of c09Main cover what happens later).
func c09LifetimeSweep(c *Ctx, env *c09Env) {
	n := len(c09Lifetimes)
	unit := 0
	for li, L := range c09Lifetimes {
		for _, layout := range []string{"cookie", "cookie-split", "redis"} {
			for ci, CL := range c09Lifetimes {
				if c.Quick() && ci != (li+3)%n {
					continue
				}
				mine := c.Mine(unit)
				unit++
				if !mine {
					continue
				}
				if c.Expired() {
					return
				}
				g := c09Cfg{Expire: L, Redis: layout == "redis", Big: layout == "cookie-split", IdPRefresh: true, TokTTL: c09LongTTL, CSRFExpire: CL}
				hist := []c09Op{{K: "req"}}
				if L >= 59 {
					g.Refresh = 1
					hist = []c09Op{{K: "adv", D: 2000}, {K: "req"}}
				}
				x := c09Run(g, hist, env)
				if x.Err != nil {
					c.Error("%s: login failed: %v", g, x.Err)
					continue
				}
				c.Inc("lifetime_sweep_worlds")
				c.Inc("traces_validated_against_impl")
				c.Inc(fmt.Sprintf("lifetime_sweep_session_lifetime_%ds", L))
				c.Inc(fmt.Sprintf("lifetime_sweep_csrf_lifetime_%ds", CL))
				cs := c09Case{Cfg: g, Hist: hist}
				for si, r := range x.Res {
					c.Add("lifetime_sweep_maxage_checked_"+layout, int64(r.maxAges))
					c.Add("lifetime_sweep_ttl_checked", int64(r.ttls))
					c.Add("lifetime_sweep_csrf_maxage_checked", int64(r.csrfAges))
					if r.Op == "login" && r.maxAges > 1 {
						c.Inc("lifetime_sweep_split_sessions")
					}
					if r.Grants > 0 && r.Issued >= 0 {
						c.Inc("lifetime_sweep_refreshed_credentials_" + layout)
					}
					if r.Class == "must-serve" {
						c.Inc("lifetime_sweep_must_serve")
					}
					for _, f := range r.Fails {
						f, si := f, si
						c.confirm(f.Key, fmt.Sprintf("%s; history: %s: %s", g, c09Hist(hist), f.Msg), len(hist), cs, func() (string, bool) {
							y := c09Run(g, hist, env)
							if y.Err != nil || si >= len(y.Res) {
								return "", false
							}
							for _, f2 := range y.Res[si].Fails {
								if f2.Key == f.Key {
									return f2.Key, true
								}
							}
							return "", false
						})
					}
				}
			}
		}
	}
	c.Info["lifetime_sweep"] = map[string]any{"lifetimes_s": c09Lifetimes, "layouts": 3, "units": unit}
}

func c09MoreConfigs(quick bool) []c09Cfg {
	var out []c09Cfg
	stores := []bool{false, true}
	// (1) the sign-in form; the lifetimes of the OIDC grid, incl. none and the sub-second one
	form := [][2]int{{600, 0}, {600, 120}, {0, 0}}
	if !quick {
		form = append(form, [2]int{3600, 3540})
	}
	for _, er := range form {
		for _, redis := range stores {
			out = append(out, c09Cfg{Expire: er[0], Refresh: er[1], Redis: redis, TokTTL: c09LongTTL, Form: true})
		}
	}
	for _, redis := range stores {
		out = append(out, c09Cfg{ExpireNS: 3600, Redis: redis, TokTTL: c09LongTTL, Form: true})
	}
	// (2) re-validation by a call, no refresh
	kc := [][2]int{{600, 120}, {3600, 3540}}
	if !quick {
		kc = append(kc, [2]int{600, 0}, [2]int{0, 0})
	}
	for _, er := range kc {
		for _, redis := range stores {
			out = append(out, c09Cfg{Expire: er[0], Refresh: er[1], Redis: redis, TokTTL: c09LongTTL, Provider: "keycloak"})
		}
	}
	if !quick {
		for _, redis := range stores {
			out = append(out, c09Cfg{ExpireNS: 3600, Redis: redis, TokTTL: c09LongTTL, Provider: "keycloak"})
		}
	}
	// (4) the provider's clock behind / ahead of the proxy's
	for _, skew := range []int{240, -240} {
		for _, redis := range stores {
			if quick && skew < 0 && redis {
				continue
			}
			out = append(out, c09Cfg{Expire: 600, Refresh: 120, Redis: redis, IdPRefresh: true, TokTTL: c09LongTTL, IatSkew: skew})
			if !quick {
				out = append(out, c09Cfg{Expire: 600, Refresh: 0, Redis: redis, IdPRefresh: false, TokTTL: c09LongTTL, IatSkew: skew})
			}
		}
	}
	// (3) cookie-refresh not below cookie-expire
	for _, er := range [][2]int{{0, 120}, {600, 600}, {600, 720}} {
		for _, redis := range stores {
			// (quick: the admitted combination once per store and provider kind)
			if !quick || er[0] > 0 || !redis {
				out = append(out, c09Cfg{Expire: er[0], Refresh: er[1], Redis: redis, IdPRefresh: true, TokTTL: c09LongTTL, Tentative: true})
			}
			if !quick || er[0] > 0 || redis {
				out = append(out, c09Cfg{Expire: er[0], Refresh: er[1], Redis: redis, TokTTL: c09LongTTL, Provider: "keycloak", Tentative: true})
			}
		}
		if !quick || er[0] > 0 {
			out = append(out, c09Cfg{Expire: er[0], Refresh: er[1], TokTTL: c09LongTTL, Form: true, Tentative: true})
		}
	}
	return out
}

// c09Admitted drops the configurations validation rejects. Every shard needs the same list, so
// every shard asks; a configuration is counted by the shard it falls to.
func c09Admitted(c *Ctx, cfgs []c09Cfg, e *c09Env) []c09Cfg {
	var out []c09Cfg
	for i, g := range cfgs {
		if !g.Tentative {
			out = append(out, g)
			continue
		}
		w, err := c09TryWorld(g, e)
		if err != nil {
			if !strings.Contains(err.Error(), "cookie_refresh") {
				c.Error("%s: rejected, but not for its refresh period: %v", g, err)
			}
			if c.Mine(i) {
				c.Inc("configurations_refresh_not_below_expire_rejected")
			}
			continue
		}
		w.close()
		if c.Mine(i) {
			c.Inc("configurations_refresh_not_below_expire_admitted")
		}
		out = append(out, g)
	}
	return out
}

func (e *c09Env) htpasswdFile() string {
	if e.htpasswd == "" {
		e.htpasswd = writeHtpasswd(map[string]string{"alice": c09FormPassword})
	}
	return e.htpasswd
}

// formLogin fills in the sign-in form the way the page's own form does.
func (w *c09World) formLogin() *world.Resp {
	return w.b.PostForm(w.px.Opts.ProxyPrefix+"/sign_in", url.Values{"username": {"alice"}, "password": {c09FormPassword}, "rd": {c09Page}})
}

// tokExp is the model's expiry instant of the tokens of a session issued now. Sessions of the
// form hold no token, sessions of the legacy provider carry no expiry: never.
func (w *c09World) tokExp(now int64) int64 {
	if w.g.Form || w.g.Provider != "" {
		return math.MaxInt64 / 4
	}
	return now + int64(w.g.TokTTL)*1000
}

// c09MoreRecord counts what the further session kinds covered (last transition of an execution).
func c09MoreRecord(c *Ctx, g c09Cfg, r *c09Res) {
	part := g.part()
	if part == "" && !g.Tentative {
		return
	}
	st := "cookie"
	if g.Redis {
		st = "redis"
	}
	if g.Tentative && r.Class != "advance" {
		c.Inc("refresh_not_below_expire_transitions")
		if g.Expire > 0 && r.Class != "login" {
			c.Inc("refresh_not_below_positive_expire_evaluations")
		}
	}
	if part == "" {
		return
	}
	switch r.Class {
	case "advance":
		return
	case "login":
		c.Inc(part + "_logins_" + st)
		c.Add(part+"_login_maxage_checked", int64(r.maxAges))
		c.Add(part+"_login_ttl_checked", int64(r.ttls))
		return
	}
	c.Inc(part + "_evaluations")
	cl := strings.ReplaceAll(r.Class, "-", "_")
	if strings.HasPrefix(r.Class, "must-") {
		c.Inc(part + "_" + cl + "_" + st)
	}
	verdict := "refused"
	if r.Served {
		verdict = "served"
	}
	if r.formStale {
		c.Inc("form_session_past_refresh_" + verdict + "_" + st)
	}
	if r.legacyStale {
		c.Inc("session_without_expiry_past_refresh_" + verdict + "_" + st)
	}
	c.Add(part+"_provider_validations", int64(r.Vals))
	if r.Grants > 0 {
		c.Inc(part + "_refresh_grants")
	}
	if r.reval {
		c.Inc("reval_reissued_credentials_" + st)
		c.Add("reval_reissue_maxage_checked", int64(r.maxAges))
		c.Add("reval_reissue_ttl_checked", int64(r.ttls))
	}
	if r.revalCred {
		// a credential issued by a re-validation was presented
		c.Inc("reval_reissued_presented_" + cl + "_" + verdict + "_" + st)
		if r.Class == "must-reject-expired" {
			c.Inc("reval_must_reject_expired_reissued_" + st)
		}
	}
	if part == "reval" && strings.HasPrefix(r.Class, "ambiguous-reading") {
		c.Inc("reval_ambiguous_reading_" + verdict + "_" + st)
	}
}

func c09MorePost(c *Ctx) {
	need := []string{
		"form_logins_cookie", "form_logins_redis", "form_login_maxage_checked", "form_login_ttl_checked",
		"form_must_serve_cookie", "form_must_serve_redis",
		"form_must_reject_expired_cookie", "form_must_reject_expired_redis",
		"form_must_reject_future_cookie", "form_must_reject_future_redis",
		"reval_logins_cookie", "reval_logins_redis", "reval_provider_validations",
		"reval_reissued_credentials_cookie", "reval_reissued_credentials_redis",
		"reval_reissue_maxage_checked", "reval_reissue_ttl_checked",
		"reval_must_serve_cookie", "reval_must_serve_redis",
		"reval_must_reject_expired_reissued_cookie", "reval_must_reject_expired_reissued_redis",
		"reval_must_reject_future_cookie", "reval_must_reject_future_redis",
		"refresh_not_below_expire_transitions",
		"skew_logins_cookie", "skew_logins_redis", "skew_must_serve_cookie", "skew_must_serve_redis",
		"skew_must_reject_expired_cookie", "skew_must_reject_expired_redis", "skew_refresh_grants",
		"lifetime_sweep_worlds", "lifetime_sweep_maxage_checked_cookie", "lifetime_sweep_maxage_checked_cookie-split",
		"lifetime_sweep_maxage_checked_redis", "lifetime_sweep_ttl_checked", "lifetime_sweep_csrf_maxage_checked",
		"lifetime_sweep_split_sessions", "lifetime_sweep_refreshed_credentials_cookie", "lifetime_sweep_refreshed_credentials_redis",
		"lifetime_sweep_must_serve",
	}
	for _, k := range need {
		if c.Counters[k] == 0 {
			c.Error("vacuous exploration (htpasswd form / re-validating provider / refresh >= expire): counter %s is zero", k)
		}
	}
	for _, L := range c09Lifetimes {
		for _, k := range []string{fmt.Sprintf("lifetime_sweep_session_lifetime_%ds", L), fmt.Sprintf("lifetime_sweep_csrf_lifetime_%ds", L)} {
			if c.Counters[k] == 0 {
				c.Error("lifetime sweep incomplete: counter %s is zero", k)
			}
		}
	}
	amb := int64(0)
	for k, v := range c.Counters {
		if strings.HasPrefix(k, "reval_ambiguous_reading_") {
			amb += v
		}
	}
	if amb == 0 {
		c.Error("vacuous exploration: no presentation of a re-validated session fell between the two readings of 'last refreshed'")
	}
	if c.Counters["configurations_refresh_not_below_expire_rejected"]+c.Counters["configurations_refresh_not_below_expire_admitted"] == 0 {
		c.Error("vacuous exploration: no configuration with cookie-refresh >= cookie-expire was put to validation")
	}
	if n := c09SumPrefix(c, "session_without_expiry_past_refresh_refused_"); n > 0 {
		c.Note("%d requests presented, past cookie-refresh, a session of a provider whose token answer names no expiry under cookie-expire=0 and were refused (%d served): the proxy gives such a session the cookie lifetime as its own expiry, i.e. none; early refusal is outside this property",
			n, c09SumPrefix(c, "session_without_expiry_past_refresh_served_"))
	}
	if n := c.Counters["form_session_past_refresh_refused_cookie"] + c.Counters["form_session_past_refresh_refused_redis"]; n > 0 {
		c.Note("%d requests presented a session of the sign-in form older than cookie-refresh under a provider that has nothing to validate it by and were refused before cookie-expire (%d such requests were served): early refusal is outside this property",
			n, c.Counters["form_session_past_refresh_served_cookie"]+c.Counters["form_session_past_refresh_served_redis"])
	}
}

func c09SumPrefix(c *Ctx, prefix string) int64 {
	n := int64(0)
	for k, v := range c.Counters {
		if strings.HasPrefix(k, prefix) {
			n += v
		}
	}
	return n
}

func c09MoreInfo(c *Ctx, cfgs []c09Cfg) {
	n := map[string]int{}
	for _, g := range cfgs {
		k := g.part()
		if k == "" {
			k = "oidc"
		}
		if g.Tentative {
			k += "_refresh_not_below_expire"
		}
		n[k]++
	}
	c.Info["configurations_by_kind"] = n
	c.Info["further_kinds"] = fmt.Sprintf("form = session created by POST <prefix>/sign_in (htpasswd); reval = provider keycloak with --validate-url, no refresh")
}
