//go:build verif

package main

import "runtime"

func runtimeStackImpl(buf []byte) int { return runtime.Stack(buf, false) }
