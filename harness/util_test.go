//go:build verif

package main

import (
	"crypto/sha1"
	"encoding/base64"
	"runtime"
)

func runtimeStackImpl(buf []byte) int { return runtime.Stack(buf, false) }

func sha1Sum(b []byte) []byte { s := sha1.Sum(b); return s[:] }
func b64Std(b []byte) string  { return base64.StdEncoding.EncodeToString(b) }
