//go:build verif

package main

import (
	"fmt"
	"net/http"
	"sort"
	"strings"
	"time"

	"github.com/oauth2-proxy/oauth2-proxy/v7/verifx/world"
)

// C01, second part: what the first product left out (DESIGN 10.3c).
//
//  1. Methods beyond GET/POST/OPTIONS: every token http.ReadRequest accepts is a method the proxy
//     has to decide about. The method loop of the product runs over c01AllMethods(); the oracle is
//     the same access-decision function (a bypass bound to a method covers that method only).
//  2. Credential states around refresh (own small product, one fresh world per request): a session
//     cookie older than cookie-refresh, with every way the refresh can end x the old session still
//     validating or not x cookie / Redis store x a provider that verifies locally (OIDC) / remotely
//     (validate-url); and, in the product, a ticket whose store entry was overwritten with another
//     user's session.
//  3. Several credentials on one request (in the product, hence with skip-jwt-bearer-tokens on and
//     off, htpasswd on and off): served is admissible iff one of them verifies, its source is enabled
//     and it is authorised; which one prevails is open; "none verifies" is never served.
//  4. The auth-only endpoint with the documented allowed_groups / allowed_emails /
//     allowed_email_domains query (endpoints of the product): 202 only for an identity the query admits.

// ---------------------------------------------------------------------------------------------
// 1. methods

// c01OddMethods: the remaining registered methods, a WebDAV one, one with a non-letter token
// character, and GET in lower case (method tokens are case-sensitive: it is NOT a GET).
var c01OddMethods = []string{"HEAD", "PUT", "DELETE", "PATCH", "TRACE", "CONNECT", "PROPFIND", "M-SEARCH", "get"}

func c01AllMethods() []string { return append(append([]string{}, c01Methods...), c01OddMethods...) }

func c01OddMethod(m string) bool {
	for _, x := range c01Methods {
		if x == m {
			return false
		}
	}
	return true
}

// c01Producible: methods a browser (form, fetch) sends; the converse is asserted for these only.
// TRACE and CONNECT are forbidden to scripts, the others are not methods anybody sends by accident.
func c01Producible(m string) bool {
	switch m {
	case "GET", "POST", "OPTIONS", "HEAD", "PUT", "DELETE", "PATCH":
		return true
	}
	return false
}

// quick tier, odd methods: Accept html only; the trusted remote address only where the
// configuration names trusted networks; one or two credentials of every family.
func (w *c01World) skipOddCell(remote, accept string) bool {
	if accept != c01Accepts[0] {
		return true
	}
	return remote == c01Trusted && len(w.m.nets) == 0
}

var c01OddCreds = map[string]bool{
	"cookie-valid-alice": true, "cookie-valid-bob": true, "cookie-garbage": true, "cookie-expired": true,
	"cookie-tampered-signature-middle": true, "cookie-store-entry-of-another-session": true,
	"bearer-valid-alice": true, "bearer-other-key": true,
	"basic-valid": true, "basic-wrong-password": true,
	"combo-bob-bearer+tampered-cookie": true, "combo-bob-cookie+alice-bearer": true,
}

func c01OddCred(cred *c01Cred) bool { return c01OddCreds[cred.Name] }

// ---------------------------------------------------------------------------------------------
// 4. the restriction in the query of the auth-only endpoint

// restricted names the query parameter that excludes this identity ("" = admitted). An identity
// without e-mail (htpasswd) is in no list of e-mails and in no e-mail domain.
func (ep *c01Endpoint) restricted(id *c01Ident) string {
	if id == nil {
		return ""
	}
	if len(ep.Groups) > 0 {
		ok := false
		for _, g := range id.Groups {
			for _, a := range ep.Groups {
				ok = ok || g == a
			}
		}
		if !ok {
			return "allowed_groups"
		}
	}
	if len(ep.Domains) > 0 {
		ok := false
		if at := strings.LastIndex(id.Email, "@"); at >= 0 {
			for _, d := range ep.Domains {
				ok = ok || strings.EqualFold(id.Email[at+1:], d)
			}
		}
		if !ok {
			return "allowed_email_domains"
		}
	}
	if len(ep.Emails) > 0 {
		ok := false
		for _, a := range ep.Emails {
			ok = ok || (id.Email != "" && id.Email == a)
		}
		if !ok {
			return "allowed_emails"
		}
	}
	return ""
}

func (ep *c01Endpoint) hasRestriction() bool {
	return len(ep.Groups)+len(ep.Emails)+len(ep.Domains) > 0
}

// restrictedOut: the request carries a credential that verifies, whose source is on, and whose
// identity the endpoint's query excludes.
func (m *c01Model) restrictedOut(ep *c01Endpoint, cred *c01Cred) bool {
	for _, p := range cred.Parts {
		if p.Verifies && m.enabled(p.Source) && ep.restricted(p.Ident) != "" {
			return true
		}
	}
	return false
}

// ---------------------------------------------------------------------------------------------
// 2./3. further credential states of the product

func (e *c01Env) newKeys(before map[string]bool) []string {
	var out []string
	for _, k := range e.redis.Keys() {
		if !before[k] {
			out = append(out, k)
		}
	}
	return out
}

func (e *c01Env) keySet() map[string]bool {
	m := map[string]bool{}
	for _, k := range e.redis.Keys() {
		m[k] = true
	}
	return m
}

// extraCreds runs at evaluation time T, after every credential of the first part exists.
func (e *c01Env) extraCreds(w *c01World, add func(*c01Cred), open *Proxy, valid, expired []c01CK) error {
	first := len(w.creds)
	byName := map[string]*c01Cred{}
	for _, cr := range w.creds {
		byName[cr.Name] = cr
	}
	alice, bob := c01Idents["alice"], c01Idents["bob"]

	// Redis: alice's ticket, but under its key the store holds bob's session (encrypted for bob's
	// ticket). Bob's own ticket stays valid: the entry is a genuine one, just not alice's.
	if w.k.Store == "redis" {
		before := e.keySet()
		ticketA, err := e.login(w.px, "alice")
		if err != nil {
			return err
		}
		ka := e.newKeys(before)
		before = e.keySet()
		ticketB, err := e.login(open, "bob")
		if err != nil {
			return err
		}
		kb := e.newKeys(before)
		if len(ka) != 1 || len(kb) != 1 {
			return fmt.Errorf("harness: expected one new store entry per login, got %v and %v", ka, kb)
		}
		if !e.accepted(w.px, c01Header(ticketA)) || !e.accepted(open, c01Header(ticketB)) {
			return fmt.Errorf("not-honoured: a fresh ticket (alice on the proxy under test, bob on its open sibling) is honoured on none of auth-only / upstream / userinfo")
		}
		vb, _ := e.redis.M.Get(kb[0])
		ttl := e.redis.M.TTL(ka[0])
		e.redis.M.Set(ka[0], vb)
		if ttl > 0 {
			e.redis.M.SetTTL(ka[0], ttl)
		}
		add(&c01Cred{Name: "cookie-store-entry-of-another-session", Family: "swapped-store-entry", Cookie: c01Header(ticketA),
			Parts: []c01Part{{Source: "cookie", Verifies: false, Ident: alice, Why: "the store entry under the ticket's key is another user's session, encrypted for that user's ticket"}}})
	}

	// combinations
	ckPart := func(verifies bool, id *c01Ident, why string) c01Part {
		return c01Part{Source: "cookie", Verifies: verifies, Ident: id, Why: why}
	}
	brPart := func(verifies bool, id *c01Ident, why string) c01Part {
		return c01Part{Source: "bearer", Verifies: verifies, Ident: id, Why: why}
	}
	quick := e.c.Quick()
	combo := func(name, cookie, authz string, parts ...c01Part) {
		if quick && c01ThoroughCombos[name] {
			return
		}
		add(&c01Cred{Name: "combo-" + name, Family: "combination", Cookie: cookie, Authz: authz, Parts: parts})
	}
	bobCk := byName["cookie-valid-bob"]
	if bobCk == nil {
		return fmt.Errorf("harness: credential cookie-valid-bob is missing")
	}
	aliceHdr, bobHdr := c01Header(valid), bobCk.Cookie
	garbage := c01CookieName + "=x"
	tampered, ok := c01Tamper(valid, 2, "middle")
	if !ok {
		return fmt.Errorf("fixture: cannot tamper the signature of the session cookie")
	}
	ta, tb, tbad := "Bearer "+e.tokens["alice"], "Bearer "+e.tokens["bob"], "Bearer "+e.tokens["other-key"]
	htOK := c01Part{Source: "basic", Verifies: true, Ident: w.m.htIdent()}

	// invalid cookie + valid bearer
	combo("garbage-cookie+alice-bearer", garbage, ta, ckPart(false, nil, "not a signed value at all"), brPart(true, alice, ""))
	combo("expired-cookie+alice-bearer", c01Header(expired), ta, ckPart(false, alice, "issued cookie-expire+1s ago"), brPart(true, alice, ""))
	combo("garbage-cookie+bob-bearer", garbage, tb, ckPart(false, nil, "not a signed value at all"), brPart(true, bob, ""))
	// nothing verifies, two sources
	combo("garbage-cookie+bearer-other-key", garbage, tbad, ckPart(false, nil, "not a signed value at all"), brPart(false, alice, "signed with another key"))
	// valid cookie of one user + valid bearer of another (authorised / unauthorised both ways)
	combo("bob-cookie+alice-bearer", bobHdr, ta, ckPart(true, bob, ""), brPart(true, alice, ""))
	combo("alice-cookie+bob-bearer", aliceHdr, tb, ckPart(true, alice, ""), brPart(true, bob, ""))
	combo("bob-cookie+bob-bearer", bobHdr, tb, ckPart(true, bob, ""), brPart(true, bob, ""))
	// valid cookie + malformed Authorization
	for _, mf := range [][2]string{{"bearer-bare", "Bearer"}, {"bearer-not-jwt", "Bearer abc.def"}, {"basic-not-base64", "Basic !!!"}, {"scheme-unknown", "Negotiate " + e.tokens["alice"]}} {
		combo("alice-cookie+authz-"+mf[0], aliceHdr, mf[1], ckPart(true, alice, ""), brPart(false, nil, "malformed Authorization header"))
	}
	combo("bob-cookie+authz-bearer-not-jwt", bobHdr, "Bearer abc.def", ckPart(true, bob, ""), brPart(false, nil, "malformed Authorization header"))
	// cookie + htpasswd Basic
	combo("bob-cookie+basic-valid", bobHdr, basicAuth(c01HtUser, c01HtPass), ckPart(true, bob, ""), htOK)
	combo("garbage-cookie+basic-valid", garbage, basicAuth(c01HtUser, c01HtPass), ckPart(false, nil, "not a signed value at all"), htOK)
	// two session cookies of the same name
	combo("duplicate-cookie-valid-first", aliceHdr+"; "+c01Header(tampered), "", ckPart(true, alice, ""), ckPart(false, alice, "one character substituted"))
	combo("duplicate-cookie-garbage-first", garbage+"; "+aliceHdr, "", ckPart(false, nil, "not a signed value at all"), ckPart(true, alice, ""))
	combo("duplicate-cookie-alice-then-bob", aliceHdr+"; "+bobHdr, "", ckPart(true, alice, ""), ckPart(true, bob, ""))
	combo("duplicate-cookie-bob-then-alice", bobHdr+"; "+aliceHdr, "", ckPart(true, bob, ""), ckPart(true, alice, ""))
	combo("duplicate-cookie-both-invalid", garbage+"; "+c01Header(tampered), "", ckPart(false, nil, "not a signed value at all"), ckPart(false, alice, "one character substituted"))

	for _, cr := range w.creds[first:] {
		cr.Ext = true
	}
	return nil
}

// combinations left to the thorough tier (each has a close relative in the quick tier)
var c01ThoroughCombos = map[string]bool{
	"garbage-cookie+bob-bearer": true, "bob-cookie+bob-bearer": true, "alice-cookie+authz-bearer-bare": true, "alice-cookie+authz-basic-not-base64": true,
	"garbage-cookie+basic-valid": true, "duplicate-cookie-both-invalid": true,
}

// recordExt keeps the measured counters of the second part (called for every evaluated request).
func (e *c01Env) recordExt(w *c01World, r *c01Req, cred *c01Cred, o c01Obs, v c01Verdict) {
	c := e.c
	served := o.Hits > 0 || o.Status == 202 || o.Ident != ""
	exp := "refused"
	switch {
	case v.Open != "" || (cred.Ambiguous && !v.Bypass):
		exp = "open"
	case v.Bypass:
		exp = "served_by_bypass"
	case v.Decision == "served":
		exp = "served_by_credential"
	}
	if c01OddMethod(r.Method) {
		c.Inc("odd_method_evaluations")
		c.Inc("odd_method_expect_" + exp + ":" + r.Method)
		if served {
			c.Inc("odd_method_observed_served:" + r.Method)
		}
	}
	if r.EP.hasRestriction() {
		c.Inc("auth_query_evaluations")
		if !v.Bypass && v.Open == "" {
			plain := *r.EP
			plain.Groups, plain.Emails, plain.Domains = nil, nil, nil
			without, _, _ := w.m.access(r.Method, pathOf(r.EP.Target), r.Remote, cred, &plain)
			switch {
			case v.Decision == "served":
				c.Inc("auth_query_admits_credential")
			case without == "served":
				c.Inc("auth_query_excludes_valid_credential")
				if o.Status == 403 {
					c.Inc("auth_query_excluded_answered_403")
				}
			}
		}
	}
	if cred.Ext {
		c.Inc("ext_credential_evaluations")
	}
	if cred.Family == "combination" && !v.Bypass {
		// what each credential alone would get
		seen := map[string]bool{}
		for i := range cred.Parts {
			one := &c01Cred{Parts: cred.Parts[i : i+1]}
			d, _, _ := w.m.access(r.Method, pathOf(r.EP.Target), r.Remote, one, r.EP)
			seen[d] = true
		}
		switch {
		case len(seen) > 1 && seen["served"]:
			c.Inc("combination_precedence_open")
			if served {
				c.Inc("combination_precedence_open_observed_served")
			} else {
				c.Inc("combination_precedence_open_observed_refused")
			}
		case !seen["served"]:
			c.Inc("combination_no_credential_qualifies")
		}
	}
}

// ---------------------------------------------------------------------------------------------
// 2. credential states around refresh

type c01RefState struct {
	Store    string `json:"store"`
	Provider string `json:"provider"` // oidc (validates the stored ID token locally) | validate-url (asks the provider)
	Age      string `json:"age"`      // young | stale (older than cookie-refresh) | stale-past-session-expiry
	Refresh  string `json:"refresh"`  // how the refresh grant ends
	Validate string `json:"validate"` // ok | fails (oidc: the session's own expiry has passed; validate-url: the provider rejects the token)
}

func (s c01RefState) String() string {
	return s.Store + "/" + s.Provider + "/" + s.Age + "/refresh-" + s.Refresh + "/validation-" + s.Validate
}

const (
	c01RefRefresh = time.Minute
	c01RefExpire  = 24 * time.Hour
	c01RefTokTTL  = time.Hour
)

var c01RefKinds = []string{"succeeds", "invalid-grant", "endpoint-500", "no-refresh-token", "id-token-other-key"}

func c01RefStates() []c01RefState {
	var out []c01RefState
	for _, store := range c01Stores {
		// not yet due: nobody is asked, whatever the provider would say
		out = append(out, c01RefState{store, "oidc", "young", "invalid-grant", "ok"})
		for _, age := range []string{"stale", "stale-past-session-expiry"} {
			for _, rk := range c01RefKinds {
				v := "ok"
				if age == "stale-past-session-expiry" {
					v = "fails"
				}
				out = append(out, c01RefState{store, "oidc", age, rk, v})
			}
		}
		out = append(out, c01RefState{store, "validate-url", "young", "not-implemented", "fails"})
		out = append(out, c01RefState{store, "validate-url", "stale", "not-implemented", "ok"})
		out = append(out, c01RefState{store, "validate-url", "stale", "not-implemented", "fails"})
	}
	return out
}

// expect: served | refused | open.
//   - not yet due for refresh: the cookie alone decides (that is what cookie-refresh means): served
//   - refresh succeeded: the session was renewed by the provider: served
//   - refresh failed (or there is nothing to refresh with) and the old session does not validate: refused
//   - no refresh token / refresh not implemented, old session validates: still valid: served
//   - the provider refused or failed to renew, yet the old tokens still validate: the statement does
//     not say whether that session is "still valid": open
func (s c01RefState) expect() string {
	switch {
	case s.Age == "young", s.Refresh == "succeeds":
		return "served"
	case s.Validate == "fails":
		return "refused"
	case s.Refresh == "no-refresh-token", s.Refresh == "not-implemented":
		return "served"
	}
	return "open"
}

type c01RefCase struct {
	State    c01RefState `json:"state"`
	Endpoint string      `json:"endpoint"`
	Target   string      `json:"target"`
	Method   string      `json:"method"`
	Accept   string      `json:"accept"`
	Expected string      `json:"expected"`
	Observed c01Obs      `json:"observed"`
	Again    *c01Obs     `json:"same_cookie_again,omitempty"`
	// a refusal that carries a live session cookie: what a browser's jar holds afterwards and what a
	// client gets that presents the cookie lines of the refusal itself
	JarAfter  string   `json:"jar_after_refusal,omitempty"`
	JarObs    *c01Obs  `json:"request_from_jar_after_refusal,omitempty"`
	HandedOut *c01Obs  `json:"request_with_cookie_lines_of_the_refusal,omitempty"`
	Flags     []string `json:"flags,omitempty"`
}

type c01RefEnv struct {
	e  *c01Env
	px map[string]*Proxy
}

func (x *c01RefEnv) proxy(st c01RefState) (*Proxy, error) {
	key := st.Store + "/" + st.Provider
	if p := x.px[key]; p != nil {
		return p, nil
	}
	common := []string{"--client-id=" + world.ClientID, "--client-secret=" + world.ClientSecret, "--cookie-secret=" + cookieSecret32, "--http-address=-",
		"--upstream=" + x.e.up.URL(), "--cookie-secure=false", "--email-domain=*", "--set-xauthrequest=true", "--api-route=^/api",
		fmt.Sprintf("--cookie-refresh=%s", c01RefRefresh), fmt.Sprintf("--cookie-expire=%s", c01RefExpire)}
	var f []string
	if st.Provider == "oidc" {
		f = append([]string{"--provider=oidc", "--oidc-issuer-url=" + world.Issuer}, common...)
	} else {
		f = append([]string{"--provider=keycloak", "--login-url=" + world.Issuer + "/authorize", "--redeem-url=" + world.Issuer + "/token",
			"--profile-url=" + world.Issuer + "/userinfo", "--validate-url=" + world.Issuer + "/validate"}, common...)
	}
	cfg := &ProxyCfg{Flags: f}
	if st.Store == "redis" {
		cfg.Redis = x.e.redis
	}
	p, err := buildProxy(cfg)
	if err != nil {
		return nil, err
	}
	x.px[key] = p
	return p, nil
}

// run builds the world of one case (fresh provider, empty store, one login of alice, provider
// behaviour, clock) and sends the request; for states that must be refused the same cookie is
// sent a second time.
func (x *c01RefEnv) run(st c01RefState, ep *c01Endpoint, method, accept string) (cs *c01RefCase, err error) {
	e := x.e
	px, err := x.proxy(st)
	if err != nil {
		return nil, fmt.Errorf("configuration rejected: %v", err)
	}
	world.ResetClock()
	e.redis.M.FlushAll()
	e.redis.M.SetTime(world.Now())
	e.newIdP()
	idp := e.idp
	idp.AccessTTL = c01RefTokTTL
	if st.Refresh == "no-refresh-token" {
		idp.NoRefreshToken = true
	}
	e.up.Take()
	cks, err := e.login(px, "alice")
	if err != nil {
		return nil, err
	}
	cookie := c01Header(cks)
	if !e.accepted(px, cookie) {
		return nil, fmt.Errorf("not-honoured: the fresh session of %s is honoured on none of auth-only / upstream / userinfo", st)
	}
	switch st.Refresh {
	case "invalid-grant":
		idp.RefreshFails = true
	case "endpoint-500":
		idp.Intercept = func(c *world.Call, req *http.Request) *world.Fault {
			if c.Endpoint != "token" || c.Grant != "refresh_token" {
				return nil
			}
			return &world.Fault{Kind: "token-500", Respond: func(req *http.Request, healthy func() *http.Response) (*http.Response, error) {
				return world.RawResponse(req, 500, "text/plain", []byte("internal error")), nil
			}}
		}
	case "id-token-other-key":
		// the refresh answer carries an ID token that does not verify and names somebody else
		idp.IDTokenSpec = func(a *world.AuthRequest, u *world.User, refresh bool) *world.TokenSpec {
			if !refresh {
				return nil
			}
			return &world.TokenSpec{Signer: "other", Claims: map[string]any{"sub": "mallory.subject", "email": "mallory@evil.example", "preferred_username": "mallory.pref"}}
		}
	}
	if st.Provider == "validate-url" && st.Validate == "fails" {
		idp.ValidateOK = false
	}
	switch st.Age {
	case "young":
		world.Advance(c01RefRefresh / 2)
	case "stale":
		world.Advance(2 * c01RefRefresh)
	case "stale-past-session-expiry":
		world.Advance(c01RefTokTTL + 2*c01RefRefresh)
	}
	calls := idp.NumCalls()
	cs = &c01RefCase{State: st, Endpoint: ep.Name, Target: ep.Target, Method: method, Accept: accept, Expected: st.expect()}
	send := func(method, cookie string) (c01Obs, *world.Resp) {
		e.up.Take()
		hdrs := [][2]string{{"Accept", accept}}
		if cookie != "" {
			hdrs = append(hdrs, [2]string{"Cookie", cookie})
		}
		resp := world.Serve(px.H, &world.Req{Method: method, Target: ep.Target, Host: c01Host, Remote: c01Untrusted, Headers: hdrs})
		ups := e.up.Take()
		o := c01Classify(resp, len(ups))
		hay := resp.Body + fmt.Sprint(resp.Header)
		for _, u := range ups {
			hay += fmt.Sprint(u.Header)
		}
		if strings.Contains(hay, "mallory") {
			o.Leaks = append(o.Leaks, "mallory")
		}
		return o, resp
	}
	var resp *world.Resp
	cs.Observed, resp = send(method, cookie)
	// (sanity of the states, not part of the oracle: a young session asks nobody)
	if idp.NumCalls() > calls {
		e.c.Inc("refresh_provider_consulted:" + st.Age)
	} else {
		e.c.Inc("refresh_provider_not_consulted:" + st.Age)
	}
	if cs.Expected == "refused" {
		if cs.Observed.SessionCookie {
			// the refusal carries a live session cookie line. A browser applies the Set-Cookie lines in
			// order (a later deletion wins); another client may keep what it was handed.
			jar := world.NewJar()
			seed := http.Header{}
			for _, ck := range cks {
				seed.Add("Set-Cookie", ck.Name+"="+ck.Value+"; Path=/")
			}
			jar.SetCookies("http", c01Host, "/", seed)
			jar.SetCookies("http", c01Host, pathOf(ep.Target), resp.Header)
			var left []c01CK
			for _, ck := range jar.For("http", c01Host, "/page") {
				if c01SessionCookieRE.MatchString(ck.Name) {
					left = append(left, c01CK{ck.Name, ck.Value})
				}
			}
			cs.JarAfter = fmt.Sprintf("%d session cookies", len(left))
			if len(left) > 0 && c01Header(left) != cookie {
				o, _ := send("GET", c01Header(left))
				cs.JarObs = &o
			}
			var lines []c01CK
			seen := map[string]bool{}
			for _, ck := range resp.Cookies() {
				if !c01SessionCookieRE.MatchString(ck.Name) || seen[ck.Name] || ck.Value == "" || ck.MaxAge < 0 || (!ck.Expires.IsZero() && !ck.Expires.After(world.Now())) {
					continue
				}
				seen[ck.Name] = true
				lines = append(lines, c01CK{ck.Name, ck.Value})
			}
			if len(lines) > 0 {
				o, _ := send("GET", c01Header(lines))
				cs.HandedOut = &o
			}
		}
		o2, _ := send(method, cookie)
		cs.Again = &o2
	}
	return cs, nil
}

// judge returns the failing observable and the finding key ("" = conforms).
func (cs *c01RefCase) judge(kind string) (fail, key, msg string) {
	st := cs.State
	how := "session-past-its-expiry"
	if st.Provider == "validate-url" {
		how = "provider-rejects-token"
	}
	negative := func(o c01Obs) string {
		switch {
		case o.Hits > 0:
			return "upstream-reached"
		case o.Status == 202:
			return "auth-202"
		case o.Ident != "" || len(o.Leaks) > 0:
			return "identity-disclosed"
		case o.Class != "sign-in-page" && o.Class != "idp-redirect" && o.Class != "401" && o.Class != "403":
			return "response-class"
		}
		return ""
	}
	for _, l := range cs.Observed.Leaks {
		if l == "mallory" {
			return "identity-of-rejected-refresh-answer", "C01/refresh:identity-from-unverifiable-refresh-answer", "the identity named by a refresh answer that does not verify shows up in the response or at the upstream"
		}
	}
	switch cs.Expected {
	case "refused":
		if f := negative(cs.Observed); f != "" {
			if f == "response-class" {
				return f, "C01/response-class:" + strings.TrimPrefix(cs.Observed.Class, "other:") + "@" + kind + ":stale-session", "the answer is neither a sign-in page, a redirect to the identity provider, 401 nor 403"
			}
			return f, "C01/stale-session-honoured:refresh-" + st.Refresh + ":" + how + ":" + st.Store + "-store", "a session whose refresh failed and which no longer validates was honoured (" + f + ")"
		}
		// a session cookie in the refusal: an alarm only if it demonstrably works (in the jar a browser is
		// left with, or as handed out), so that no reading of "issued" is needed
		served := func(o *c01Obs) bool { return o != nil && (o.Hits > 0 || o.Status == 202 || o.Ident != "") }
		if served(cs.JarObs) {
			return "refusal-leaves-working-session-in-jar", "C01/refusal-leaves-working-session-in-jar:refresh-" + st.Refresh + ":" + how + ":" + st.Store + "-store", "the refusal left the browser's jar with a session cookie that is honoured on the next request"
		}
		if served(cs.HandedOut) {
			return "refusal-hands-out-working-session", "C01/refusal-hands-out-working-session:refresh-" + st.Refresh + ":" + how + ":" + st.Store + "-store", "the refusal itself carries a fresh session cookie (followed by its deletion) that is honoured when presented: a session the provider has just rejected is renewed by the request that was refused"
		}
		if cs.Again != nil {
			if f := negative(*cs.Again); f != "" && f != "response-class" {
				return f + "-on-second-request", "C01/stale-session-honoured-on-second-request:refresh-" + st.Refresh + ":" + how + ":" + st.Store + "-store", "after the refusal the same cookie was honoured on the next request (" + f + ")"
			}
		}
	case "served":
		if !c01Producible(cs.Method) {
			return
		}
		what := map[string]string{"young": "young-session", "stale": "revalidated-session", "stale-past-session-expiry": "refreshed-session"}[st.Age]
		if st.Refresh == "succeeds" {
			what = "refreshed-session"
		}
		key = "C01/not-served@" + kind + ":" + what + ":" + st.Store + "-store"
		switch kind {
		case "proxied":
			if cs.Observed.Hits == 0 {
				return "not-served", key, "no upstream saw the request"
			}
		case "auth":
			if cs.Observed.Status != 202 {
				return "not-served", key, "the auth-only endpoint did not answer 202"
			}
		case "userinfo":
			if cs.Observed.Status < 200 || cs.Observed.Status > 299 || !strings.Contains(cs.Observed.Ident, c01Idents["alice"].Email) {
				return "not-served", key, "userinfo did not return the identity of the session"
			}
		}
	}
	return "", "", ""
}

var c01RefEndpointNames = map[string]bool{"protected": true, "api-path": true, "auth": true, "userinfo": true}

func c01Refresh(c *Ctx, e *c01Env) {
	x := &c01RefEnv{e: e, px: map[string]*Proxy{}}
	states := c01RefStates()
	methods := []string{"GET", "POST", "HEAD", "DELETE"}
	accepts := c01Accepts[:1]
	if !c.Quick() {
		methods, accepts = c01AllMethods(), c01Accepts
	}
	var eps []*c01Endpoint
	for i := range c01Endpoints {
		ep := &c01Endpoints[i]
		if c01RefEndpointNames[ep.Name] || (!c.Quick() && (ep.Name == "auth-groups-staff" || ep.Name == "skip-path")) {
			eps = append(eps, ep)
		}
	}
	n := 0
	for _, st := range states {
		for _, ep := range eps {
			for _, method := range methods {
				for _, accept := range accepts {
					n++
					if !c.Mine(n) {
						continue
					}
					if c.Expired() {
						return
					}
					cs, err := x.run(st, ep, method, accept)
					if err != nil {
						if strings.HasPrefix(err.Error(), "not-honoured:") {
							c.Violate("C01/not-served@fresh-login", err.Error(), 0, &c01RefCase{State: st})
						} else {
							c.Error("refresh state %s: %v", st, err)
						}
						continue
					}
					c.Inc("evaluations")
					c.Inc("refresh_evaluations")
					c.Distinct("distinct_nontrivial", fmt.Sprintf("refresh|%s|%s|%s|%s", st, ep.Name, method, accept))
					c.Inc("refresh_expect_" + cs.Expected)
					c.Inc("refresh_state:" + st.Provider + "/" + st.Age + "/" + st.Refresh + "/" + st.Validate)
					c.Inc("refresh_store:" + st.Store)
					o := cs.Observed
					served := o.Hits > 0 || o.Status == 202 || o.Ident != ""
					if served {
						c.Inc("refresh_observed_served")
					} else {
						c.Inc("refresh_observed_refused")
					}
					if cs.Expected == "open" {
						c.Inc("ambiguous")
						if served {
							c.Inc("ambiguous_served:refresh-" + st.Refresh + "-old-session-validates")
						} else {
							c.Inc("ambiguous_refused:refresh-" + st.Refresh + "-old-session-validates")
						}
					}
					if o.Panic != "" {
						c.Inc("panics")
					}
					if cs.Expected == "refused" && o.SessionCookie {
						c.Inc("refresh_refusal_carries_live_session_cookie_line")
						if cs.JarAfter == "0 session cookies" {
							c.Inc("refresh_refusal_jar_left_without_session_cookie")
						}
					}
					fail, key, msg := cs.judge(ep.Kind)
					if fail == "" {
						if n%53 == 0 {
							c.Sample(6, cs)
						}
						continue
					}
					cs.Flags = x.px[st.Store+"/"+st.Provider].Cfg.Flags
					full := fmt.Sprintf("refresh state %s: %s %s (Accept %s) with the session cookie of a login: expected %s, but %s; observed %s", st, method, ep.Target, accept, cs.Expected, msg, o)
					if cs.Again != nil {
						full += fmt.Sprintf("; same cookie again: %s", *cs.Again)
					}
					if cs.HandedOut != nil {
						full += fmt.Sprintf("; jar after the refusal: %s; GET with the session cookie lines of the refusal: %s", cs.JarAfter, *cs.HandedOut)
					}
					size := len(st.Refresh) + 100
					if st.Store != "cookie" {
						size += 1000
					}
					if method != "GET" {
						size += 3
					}
					if old := c.Violations[key]; old != nil && old.Size <= size {
						c.Violate(key, full, size, cs)
						continue
					}
					c.confirm(key, full, size, cs, func() (string, bool) {
						cs2, err := x.run(st, ep, method, accept)
						if err != nil {
							return "", false
						}
						f2, k2, _ := cs2.judge(ep.Kind)
						return k2, f2 != ""
					})
				}
			}
		}
	}
	world.ResetClock()
	if c.Shard == 0 {
		var names []string
		for _, st := range states {
			names = append(names, st.String())
		}
		sort.Strings(names)
		var epn []string
		for _, ep := range eps {
			epn = append(epn, ep.Name)
		}
		c.Info["refresh_alphabet"] = map[string]any{
			"states": names, "endpoints": epn, "methods": methods, "accept": accepts,
			"cookie_refresh": c01RefRefresh.String(), "cookie_expire": c01RefExpire.String(), "token_lifetime": c01RefTokTTL.String(),
			"cases": n,
		}
	}
}

// c01RefReplay re-runs one recorded refresh case.
func c01RefReplay(c *Ctx, cs c01RefCase) string {
	e := newC01Env(c)
	defer e.close()
	x := &c01RefEnv{e: e, px: map[string]*Proxy{}}
	for i := range c01Endpoints {
		ep := &c01Endpoints[i]
		if ep.Name != cs.Endpoint {
			continue
		}
		got, err := x.run(cs.State, ep, cs.Method, cs.Accept)
		world.ResetClock()
		if err != nil {
			return "building the case failed: " + err.Error()
		}
		if fail, key, msg := got.judge(ep.Kind); fail != "" {
			c.Violate(key, msg, 1, got)
		}
		s := fmt.Sprintf("refresh state %s: %s %s: expected %s, observed %s", cs.State, cs.Method, ep.Target, got.Expected, got.Observed)
		if got.Again != nil {
			s += fmt.Sprintf("; same cookie again: %s", *got.Again)
		}
		return s
	}
	return "the recorded endpoint is not part of the alphabet any more"
}

// what the second part must have seen to mean anything
func c01ExtMustSee() []string {
	out := []string{
		"refresh_expect_served", "refresh_expect_refused", "refresh_expect_open", "refresh_observed_served", "refresh_observed_refused",
		"refresh_store:cookie", "refresh_store:redis", "refresh_provider_consulted:stale", "refresh_provider_consulted:stale-past-session-expiry", "refresh_provider_not_consulted:young",
		"refused_family:swapped-store-entry", "ext_credential_evaluations",
		"combination_precedence_open", "combination_precedence_open_observed_served", "combination_precedence_open_observed_refused", "combination_no_credential_qualifies",
		"auth_query_admits_credential", "auth_query_excludes_valid_credential", "auth_query_excluded_answered_403",
		"ambiguous:method-case-vs-bypass-rule", "ambiguous:bypass-vs-auth-query-restriction",
	}
	for _, m := range c01OddMethods {
		out = append(out, "odd_method_expect_served_by_credential:"+m, "odd_method_expect_refused:"+m, "odd_method_expect_served_by_bypass:"+m, "odd_method_observed_served:"+m)
	}
	for _, st := range c01RefStates() {
		out = append(out, "refresh_state:"+st.Provider+"/"+st.Age+"/"+st.Refresh+"/"+st.Validate)
	}
	return out
}
