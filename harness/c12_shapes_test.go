//go:build verif

package main

import (
	"bytes"
	"encoding/json"
	"fmt"
	"io"
	"net/http"
	"strings"
	"time"

	"github.com/oauth2-proxy/oauth2-proxy/v7/pkg/apis/options"
	"github.com/oauth2-proxy/oauth2-proxy/v7/verifx/sched"
	"github.com/oauth2-proxy/oauth2-proxy/v7/verifx/world"
)

// C12: two further dimensions of the parts in c12_test.go (OIDC provider).
//
// (1) Shapes of the token endpoint's answer to a refresh grant. RFC 6749 §5.1 makes expires_in
// RECOMMENDED and refresh_token OPTIONAL, OIDC Core §12.2 lets the ID token be left out: a provider
// that grants the refresh in any of these forms has refreshed the session, so "after a refresh, that
// request, later requests and the upstream headers carry the new tokens" and "all of them are served"
// apply whatever the form. Behaviours "rotate-<shape>" of the sequential part and of the 2-thread
// exploration.
//
// (2) Cookie configurations. The refresh period and the cookie lifetime are independent settings;
// every pair that option validation accepts (in particular --cookie-expire=0: session cookies without an
// expiry, with a refresh period) must obey "older than the refresh period => provider asked before
// use". The sequential part runs a product of refresh periods and lifetimes around each other.

// c12RefreshShapes: the forms of a granted refresh (beyond the default: everything present, rotating).
var c12RefreshShapes = []string{"no-expires-in", "expires-in-zero", "expires-in-huge", "no-id-token", "no-new-refresh-token"}

// c12Rotates: behaviours in which the provider grants refreshes.
func c12Rotates(behaviour string) bool {
	return behaviour == "rotate" || strings.HasPrefix(behaviour, "rotate-")
}

// c12ApplyShape configures the provider for a "rotate-<shape>" behaviour.
func c12ApplyShape(idp *world.IdP, behaviour string) {
	if !strings.HasPrefix(behaviour, "rotate-") {
		return
	}
	shape := strings.TrimPrefix(behaviour, "rotate-")
	var edit func(m map[string]any)
	switch shape {
	case "no-id-token":
		idp.NoIDTokenOnRefresh = true
		return
	case "no-expires-in":
		edit = func(m map[string]any) { delete(m, "expires_in") }
	case "expires-in-zero":
		edit = func(m map[string]any) { m["expires_in"] = 0 }
	case "expires-in-huge":
		edit = func(m map[string]any) { m["expires_in"] = int64(3153600000) } // a hundred years
	case "no-new-refresh-token":
		// the refresh token stays what it is and the answer does not repeat it
		idp.StaticRefreshToken = true
		edit = func(m map[string]any) { delete(m, "refresh_token") }
	default:
		panic("unknown refresh answer shape " + shape)
	}
	idp.Intercept = func(cl *world.Call, req *http.Request) *world.Fault {
		if cl.Endpoint != "token" || cl.Grant != "refresh_token" {
			return nil
		}
		return &world.Fault{Kind: "shape:" + shape, Respond: func(req *http.Request, healthy func() *http.Response) (*http.Response, error) {
			h := healthy()
			body, _ := io.ReadAll(h.Body)
			h.Body.Close()
			// (the calling thread's observation: what it was answered, as for an unedited answer)
			sched.Observe(fmt.Sprintf("idp:token:%d:%s", h.StatusCode, cl.Note))
			if h.StatusCode != 200 {
				return world.RawResponse(req, h.StatusCode, h.Header.Get("Content-Type"), body), nil
			}
			dec := json.NewDecoder(bytes.NewReader(body))
			dec.UseNumber()
			m := map[string]any{}
			if err := dec.Decode(&m); err != nil {
				return world.RawResponse(req, h.StatusCode, h.Header.Get("Content-Type"), body), nil
			}
			edit(m)
			out, _ := json.Marshal(m)
			return world.RawResponse(req, 200, "application/json", out), nil
		}}
	}
}

// ---- cookie configurations

type c12CookieCfg struct {
	Refresh time.Duration
	Expire  string // "" = the default lifetime (flag not given), "0" = session cookie, else a duration
}

func (k c12CookieCfg) flags() []string {
	f := []string{"--cookie-refresh=" + k.Refresh.String()}
	if k.Expire != "" {
		f = append(f, "--cookie-expire="+k.Expire)
	}
	return f
}

func (k c12CookieCfg) String() string {
	e := k.Expire
	if e == "" {
		e = "default"
	}
	return fmt.Sprintf("refresh=%s,expire=%s", k.Refresh, e)
}

// c12CookieCfgs: refresh periods {1 m, 1 h, 12 h} x lifetimes {0 = no expiry, default, 10 s above the
// period, equal to the period, 1 s below it}. Validation refuses the last two (counted); sessions are
// probed at ages up to 5 s past the period, inside every accepted lifetime.
func c12CookieCfgs() []c12CookieCfg {
	var out []c12CookieCfg
	for _, r := range []time.Duration{time.Minute, time.Hour, 12 * time.Hour} {
		for _, e := range []string{"0", "", (r + 10*time.Second).String(), r.String(), (r - time.Second).String()} {
			out = append(out, c12CookieCfg{Refresh: r, Expire: e})
		}
	}
	return out
}

// c12Ages: session ages around a refresh period. Age is counted in whole seconds (the session's age
// truncates the clock), so "past the period" starts 2 s after it.
func c12Ages(period time.Duration) map[string]time.Duration {
	return map[string]time.Duration{"fresh": period - time.Second, "stale-by-1s": period + 2*time.Second, "stale": period + 5*time.Second}
}

// c12Patient gives the proxy's store client generous real-time timeouts (go-redis defaults: 3 s per
// read, 4 s for a pooled connection). Nothing in this check waits for real time, but on a machine that
// is busy enough a store round trip can take seconds; a timeout then makes an operation fail that the
// explored world never failed, and an execution stops reproducing.
func c12Patient(o *options.Options) {
	if u := o.Session.Redis.ConnectionURL; u != "" && !strings.Contains(u, "?") {
		o.Session.Redis.ConnectionURL = u + "?dial_timeout=120s&read_timeout=120s&write_timeout=120s&pool_timeout=120s"
	}
}
