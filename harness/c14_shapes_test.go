//go:build verif

package main

import (
	"fmt"
	"strings"
	"sync"
)

// C14, claim shapes — which provider calls a flow makes is decided by the SHAPE of the ID token: a
// claim the token carries needs no lookup, a claim it lacks is fetched from the profile endpoint at the
// moment the proxy needs it (user claim, e-mail, groups, preferred_username, then email_verified).
// With only complete tokens (or tokens lacking one fixed set) most of these lookups never are the
// failing position. Here the ID tokens of the login, refresh and bearer flows lack EVERY subset of
//
//	{sub, email, email_verified, groups, preferred_username}
//
// and every profile lookup the flow then makes (positions discovered by the runs, as everywhere in
// C14) is answered with every response kind of the userinfo alphabet, one deviation per execution
// (quick) / all pairs (thorough). A second family lets the profile endpoint's well-formed answer say
// email_verified=false (the lookup a healthy provider would have ended in a refusal with).
//
// Oracle: C14's own (c14Run): a session the browser holds after a request may differ from the one
// before only if every endpoint consulted in that request gave a well-formed successful answer — so a
// failed lookup can neither yield a session the healthy lookup would have refused nor one that lacks
// what the lookup was for. Left open by the statement and admitted (class ambiguous / benign): a
// well-formed profile document that simply does not hold the claim (`{}`, `null`, an array, a string)
// when the e-mail is in the token; values the decoder can coerce. The token/JWKS positions of these
// flows are enumerated by the scenarios of c14_test.go and answer well-formed here.

var c14ShapeClaims = []string{"sub", "email", "email_verified", "groups", "preferred_username"}

// further well-formed-JSON-but-no-claims answers of the profile endpoint
var c14ShapeUserinfoKinds = []string{"userinfo-json-null", "userinfo-json-string", "userinfo-empty-object"}

func c14OIDCFlags() []string {
	return []string{"--email-domain=*", "--cookie-secure=false", "--code-challenge-method=S256", "--insecure-oidc-skip-nonce=false", "--pass-access-token=true"}
}

var (
	c14ShapeOnce sync.Once
	c14ShapeList []*c14Scenario
)

func c14ShapeScenarios() []*c14Scenario {
	c14ShapeOnce.Do(func() {
		with := func(base []string, more ...string) []string { return append(append([]string{}, base...), more...) }
		oidc := c14OIDCFlags()
		for _, fam := range []struct {
			name       string
			flow       string
			flags      []string
			needs      []string
			serveNeeds []string
			unverified bool
		}{
			{"login", "login", oidc, []string{"token", "jwks"}, nil, false},
			{"refresh", "refresh", with(oidc, "--cookie-refresh=1m", "--cookie-expire=1h"), []string{"token"}, nil, false},
			{"bearer", "bearer", with(oidc, "--skip-jwt-bearer-tokens=true"), []string{"jwks"}, []string{"jwks"}, false},
			{"login-unverified-profile", "login", oidc, []string{"token", "jwks"}, nil, true},
			{"refresh-unverified-profile", "refresh", with(oidc, "--cookie-refresh=1m", "--cookie-expire=1h"), []string{"token"}, nil, true},
		} {
			for mask := 0; mask < 1<<len(c14ShapeClaims); mask++ {
				var lacks []string
				for i, cl := range c14ShapeClaims {
					if mask&(1<<i) != 0 {
						lacks = append(lacks, cl)
					}
				}
				sc := &c14Scenario{Flow: fam.flow, OIDC: true, Flags: fam.flags, Needs: fam.needs, ServeNeeds: fam.serveNeeds,
					Shape: true, Lacks: lacks, Only: []string{"userinfo"}, ProfileUnverified: fam.unverified}
				if fam.unverified && !sc.lacks("email_verified") {
					continue // the token's own email_verified decides; the profile's is never asked for
				}
				what := "nothing"
				if len(lacks) > 0 {
					what = strings.Join(lacks, "+")
				}
				sc.Name = "shape-" + fam.name + "-lacks:" + what
				c14ShapeList = append(c14ShapeList, sc)
			}
		}
	})
	return c14ShapeList
}

// c14ShapeClass: class of a profile answer in a claim-shape scenario (ok=false: the general table).
func c14ShapeClass(sc *c14Scenario, kind string) (int, bool) {
	switch kind {
	case "userinfo-no-email":
		if !sc.lacks("email") {
			return c14Benign, true // the e-mail is in the ID token; a profile without it is a well-formed answer
		}
		return c14Decisive, true
	case "userinfo-json-array", "userinfo-json-null", "userinfo-json-string", "userinfo-empty-object":
		// well-formed JSON that holds no claim at all: with the e-mail in the verified ID token the
		// statement does not say whether the login has to fail; without it no session can be built
		if !sc.lacks("email") {
			return c14Ambiguous, true
		}
		return c14Decisive, true
	}
	return 0, false
}

func c14ShapeFamily(sc *c14Scenario) string {
	f := sc.Flow
	if sc.ProfileUnverified {
		f += "(profile says unverified)"
	}
	return f
}

// c14ShapeCount: measured counters of the claim-shape part (called for every own execution).
func c14ShapeCount(c *Ctx, sc *c14Scenario, res *c14Result) {
	c.Inc("shape_executions")
	lookups := 0
	for _, st := range res.Steps {
		if st.Name == "probe" || st.Name == "probe-userinfo" {
			continue
		}
		for _, k := range st.calls {
			if k.Endpoint == "userinfo" {
				lookups++
			}
		}
	}
	fam := c14ShapeFamily(sc)
	switch len(res.Faults) {
	case 0:
		c.Inc("shape_scenarios_healthy_run")
		c.Inc("shape_healthy:" + fam + ":" + res.Outcome)
		if lookups > 0 {
			c.Inc("shape_scenarios_with_profile_lookup")
			c.Inc("shape_scenarios_with_profile_lookup:" + sc.Flow)
			if len(sc.Lacks) == 1 && !sc.ProfileUnverified {
				c.Inc("shape_lookup_made_for:" + sc.Lacks[0] + ":" + sc.Flow)
			}
		}
		if len(sc.Lacks) == 0 && lookups > 0 {
			c.Inc("shape_lookup_although_token_complete")
		}
		c.SetMax("shape_max_profile_lookups_in_one_flow", int64(lookups))
	case 1:
		c.Inc("shape_single_fault_executions")
		f := res.Faults[0]
		switch f.Class {
		case c14Decisive:
			c.Inc("shape_faults_decisive")
		case c14Ambiguous:
			c.Inc("shape_faults_ambiguous_kind")
		default:
			c.Inc("shape_faults_benign_kind")
		}
		c.Inc("shape_fault_outcome:" + fam + ":" + res.Outcome)
		c.Distinct("shape_distinct_lookup_positions", sc.Name+"|"+f.Label)
		if res.Ambiguous {
			c.Inc("shape_ambiguous")
		}
	}
}

func c14ShapeInfo() map[string]any {
	n := map[string]int{}
	for _, sc := range c14ShapeScenarios() {
		n[c14ShapeFamily(sc)]++
	}
	return map[string]any{"claims": c14ShapeClaims, "subsets_per_family": n, "scenarios": len(c14ShapeScenarios()),
		"choice_points": "userinfo (every call)", "extra_userinfo_kinds": c14ShapeUserinfoKinds}
}

// c14ShapePost: vacuity guard of the claim-shape part (merged counters).
func c14ShapePost(c *Ctx) {
	want := int64(len(c14ShapeScenarios()))
	if got := c.Counters["shape_scenarios_healthy_run"]; got != want {
		c.Error("vacuous (claim shapes): %d of %d shape scenarios completed their run without faults", got, want)
	}
	if c.Counters["shape_single_fault_executions"] == 0 || c.Counters["shape_single_fault_executions"] != c.Counters["shape_expected_single_fault_cases"] {
		c.Error("vacuous (claim shapes): %d single-fault executions, but the well-formed runs have %d (lookup position, kind) cases",
			c.Counters["shape_single_fault_executions"], c.Counters["shape_expected_single_fault_cases"])
	}
	// the premise of the whole part: a claim the token lacks is looked up (so that the lookup can fail)
	for _, cl := range c14ShapeClaims {
		for _, flow := range []string{"login", "refresh"} {
			if c.Counters["shape_lookup_made_for:"+cl+":"+flow] == 0 {
				c.Error("vacuous (claim shapes): a %s flow whose ID token lacks only %q made no profile lookup: no failing position for that claim", flow, cl)
			}
		}
	}
	for _, k := range []string{"shape_faults_decisive", "shape_fault_outcome:login:no-session", "shape_fault_outcome:refresh:old-session-kept-and-served",
		"shape_healthy:login:session-from-well-formed-answers", "shape_healthy:refresh:session-from-well-formed-answers", "shape_healthy:bearer:bearer-served"} {
		if c.Counters[k] == 0 {
			c.Error("vacuous (claim shapes): %s never observed", k)
		}
	}
	c.Info["claim_shapes_note"] = fmt.Sprintf("%d shape scenarios, %d executions, %d distinct (scenario, lookup position) pairs", want, c.Counters["shape_executions"], c.Counters["shape_distinct_lookup_positions"])
}

// c14ShapeOwnKey: findings of the claim-shape part that have one root cause of their own get one key
// of their own (so that they never hide, nor are hidden by, the per-endpoint keys).
//
// refresh, e-mail not in the ID token, profile answer that is JSON but holds no e-mail (`{}`, the
// document without "email", null, an array, a string): the refreshed session is adopted with an EMPTY
// e-mail (at login the same answer is refused: "neither the id_token nor the profileURL set an email").
func c14ShapeOwnKey(sc *c14Scenario, culprit *c14Call, st *c14Step) string {
	if !sc.Shape || sc.Flow != "refresh" || culprit.Endpoint != "userinfo" || !sc.lacks("email") {
		return ""
	}
	switch culprit.Kind {
	case "userinfo-no-email", "userinfo-empty-object", "userinfo-json-null", "userinfo-json-array", "userinfo-json-string":
		if strings.Contains(st.After, " email= ") {
			return "C14/refresh/session-extended-with-empty-email-after-profile-answer-without-email"
		}
	}
	return ""
}
