//go:build verif

package main

import (
	"encoding/json"
	"fmt"
	"strings"
	"time"

	"github.com/oauth2-proxy/oauth2-proxy/v7/verifx/world"
)

// C14, audience-claim lists — "wrongly typed claims ... the proxy creates or extends no session from
// it", for operators who configure SEVERAL audience claims (--oidc-audience-claim=a,b[,c]).
//
// Enumerated (full product, never sampled): every ordered list of 2 and of 3 of the claim names
// {aud, azp, client_id} x one value kind per configured claim out of
//
//	{right string, wrong string, list with the client id, list without it, number, object, bool,
//	 null, absent, list holding the client id and a number}
//
// presented as a bearer token (lists of 2 and 3), as the ID token of a login and as the ID token of a
// refresh answer (lists of 2; thorough: 3), each against the real proxy built through the real flag path.
//
// Reference model (written from the statement and docs/configuration: "which OIDC claim contains the
// audience", alpha: "any claim that is verified against the client id"; the documentation does not say
// what a LIST means, so every reading is computed and accepting is an alarm only if NO reading accepts):
//
//	R1  the first configured claim that is present decides: it has to be a string or a list of strings
//	    and name the client id;
//	R2  the configured claims are alternatives tried in order until one names the client id — but a
//	    wrongly typed claim met on the way is fatal (the statement: wrongly typed claims create no session);
//	R0  strictest: like R1, and any present wrongly typed configured claim is fatal;
//	each with JSON null read as "present, wrongly typed" and as "absent".
//
// So a token is never admissibly accepted (a) when no configured claim is a well-typed value naming
// the client id, or (b) when every such claim stands behind a present, wrongly typed one. Refusing a
// token is never an alarm here (the converse is C04's subject); it is counted.

var c14AudNames = []string{"aud", "azp", "client_id"}

type c14AudKind struct {
	Name   string
	Value  any  // nil = absent
	Typed  bool // a string or a list of strings
	Match  bool // (typed and) names the client id
	Null   bool
	Absent bool
}

func c14AudKinds() []c14AudKind {
	return []c14AudKind{
		{Name: "right-string", Value: world.ClientID, Typed: true, Match: true},
		{Name: "wrong-string", Value: "another-client", Typed: true},
		{Name: "list-with-client", Value: []string{"another-client", world.ClientID}, Typed: true, Match: true},
		{Name: "list-without-client", Value: []string{"another-client", "third-client"}, Typed: true},
		{Name: "number", Value: 42},
		{Name: "object", Value: map[string]any{"value": world.ClientID}},
		{Name: "bool", Value: true},
		{Name: "null", Value: json.RawMessage("null"), Null: true},
		{Name: "absent", Absent: true},
		{Name: "list-with-client-and-number", Value: []any{world.ClientID, 7}},
	}
}

// c14AudLists: every ordered selection of 2 and of 3 of the names.
func c14AudLists() [][]string {
	var out [][]string
	n := len(c14AudNames)
	for a := 0; a < n; a++ {
		for b := 0; b < n; b++ {
			if b != a {
				out = append(out, []string{c14AudNames[a], c14AudNames[b]})
			}
		}
	}
	for a := 0; a < n; a++ {
		for b := 0; b < n; b++ {
			for d := 0; d < n; d++ {
				if a != b && a != d && b != d {
					out = append(out, []string{c14AudNames[a], c14AudNames[b], c14AudNames[d]})
				}
			}
		}
	}
	return out
}

type c14AudVerdict struct {
	AcceptAdmissible bool
	Ambiguous        bool // the readings differ
	AllAccept        bool
	// the class of the case, for keys and counters
	WronglyTypedBeforeMatch bool // a well-typed matching claim exists, but only behind a present wrongly typed one
	NoMatchingClaim         bool
}

// c14AudModel: the readings over the configured claims' kinds, in list order.
func c14AudModel(ks []c14AudKind) c14AudVerdict {
	var readings []bool
	for _, nullAbsent := range []bool{false, true} {
		absent := func(k c14AudKind) bool { return k.Absent || (k.Null && nullAbsent) }
		typed := func(k c14AudKind) bool { return k.Typed }
		r1, anyWrong := false, false
		first := true
		for _, k := range ks {
			if absent(k) {
				continue
			}
			if !typed(k) {
				anyWrong = true
			}
			if first {
				r1 = typed(k) && k.Match
				first = false
			}
		}
		r2 := false
		for _, k := range ks {
			if absent(k) {
				continue
			}
			if !typed(k) {
				break
			}
			if k.Match {
				r2 = true
				break
			}
		}
		readings = append(readings, r1, r2, r1 && !anyWrong)
	}
	v := c14AudVerdict{AllAccept: true}
	for _, r := range readings {
		v.AcceptAdmissible = v.AcceptAdmissible || r
		v.AllAccept = v.AllAccept && r
	}
	v.Ambiguous = v.AcceptAdmissible && !v.AllAccept
	anyMatch := false
	for _, k := range ks {
		anyMatch = anyMatch || (k.Typed && k.Match)
	}
	v.NoMatchingClaim = !anyMatch
	v.WronglyTypedBeforeMatch = anyMatch && !v.AcceptAdmissible
	return v
}

type c14AudCase struct {
	Part  string   `json:"part"` // "audience"
	Flow  string   `json:"flow"`
	List  []string `json:"audience_claims"`
	Kinds []string `json:"value_kind_per_claim"`
	Obs   string   `json:"observed,omitempty"`
}

type c14AudEnv struct {
	flow string
	list []string
	idp  *world.IdP
	px   *Proxy
	up   *world.Upstream
}

func c14AudNewEnv(flow string, list []string, up *world.Upstream) (*c14AudEnv, error) {
	world.ResetClock()
	idp := world.NewIdP()
	flags := append(baseFlags(up.URL()), c14OIDCFlags()...)
	flags = append(flags, "--oidc-audience-claim="+strings.Join(list, ","))
	switch flow {
	case "bearer":
		flags = append(flags, "--skip-jwt-bearer-tokens=true")
	case "refresh":
		flags = append(flags, "--cookie-refresh=1m", "--cookie-expire=1h")
	}
	px, err := buildProxy(&ProxyCfg{Flags: flags})
	if err != nil {
		return nil, err
	}
	return &c14AudEnv{flow: flow, list: list, idp: idp, px: px, up: up}, nil
}

func c14AudClaims(list []string, ks []c14AudKind) map[string]any {
	claims := map[string]any{}
	for i, name := range list {
		if ks[i].Absent {
			claims[name] = nil // TokenSpec: nil drops the claim
		} else {
			claims[name] = ks[i].Value
		}
	}
	return claims
}

type c14AudObs struct {
	Accepted  bool
	Panic     string
	PanicSite string
	Harness   string
	Detail    string
}

// observe presents one token through the environment's flow on a fresh browser.
func (env *c14AudEnv) observe(ks []c14AudKind) (o c14AudObs) {
	world.ResetClock()
	claims := c14AudClaims(env.list, ks)
	allRight := map[string]any{}
	for _, name := range env.list {
		allRight[name] = world.ClientID
	}
	b := newBrowser(env.px, "http", c14Host)
	notePanic := func(r *world.Resp) bool {
		if r != nil && r.Panic != nil {
			o.Panic, o.PanicSite = fmt.Sprint(r.Panic), r.PanicSite()
			return true
		}
		return false
	}
	env.up.Take()
	defer func() { env.idp.IDTokenSpec = nil }()
	switch env.flow {
	case "bearer":
		tok := env.idp.MintIDToken(env.idp.Users["alice"], &world.TokenSpec{DropNonce: true, Claims: claims})
		r := b.Get("/page", [2]string{"Authorization", "Bearer " + tok})
		notePanic(r)
		o.Accepted = len(env.up.Take()) > 0
		o.Detail = fmt.Sprintf("bearer request: status %d served=%v", r.Status, o.Accepted)
	case "login":
		env.idp.IDTokenSpec = func(*world.AuthRequest, *world.User, bool) *world.TokenSpec {
			return &world.TokenSpec{Claims: claims}
		}
		resp, _, err := b.Login(env.idp, "alice", "/page")
		if err != nil {
			o.Harness = "login could not be started: " + err.Error()
			return
		}
		if notePanic(resp) {
			return
		}
		stored := c14Stored(env.px, b)
		r := b.Get("/page")
		notePanic(r)
		served := len(env.up.Take()) > 0
		o.Accepted = stored != "" || served
		o.Detail = fmt.Sprintf("callback: status %d, session stored=%v, next request served=%v", resp.Status, stored != "", served)
	case "refresh":
		env.idp.IDTokenSpec = func(_ *world.AuthRequest, _ *world.User, refresh bool) *world.TokenSpec {
			if refresh {
				return &world.TokenSpec{Claims: claims}
			}
			return &world.TokenSpec{Claims: allRight}
		}
		resp, _, err := b.Login(env.idp, "alice", "/page")
		if err != nil || resp.Status != 302 || resp.Panic != nil {
			o.Harness = fmt.Sprintf("setup login (every configured claim = client id) failed: %v status %d", err, resp.Status)
			return
		}
		before := c14Stored(env.px, b)
		if r := b.Get("/page"); before == "" || len(env.up.Take()) == 0 {
			o.Harness = fmt.Sprintf("setup session not served: status %d", r.Status)
			return
		}
		grants := env.idp.Grants
		world.Advance(2 * time.Minute)
		r := b.Get("/page")
		notePanic(r)
		served := len(env.up.Take()) > 0
		after := c14Stored(env.px, b)
		if env.idp.Grants == grants {
			o.Harness = "the stale session did not lead to a refresh grant"
			return
		}
		o.Accepted = after != before && after != ""
		o.Detail = fmt.Sprintf("request after refresh: status %d served=%v, stored session replaced=%v", r.Status, served, o.Accepted)
	}
	return
}

func c14AudKey(v c14AudVerdict) string {
	if v.WronglyTypedBeforeMatch {
		return "C14/audience/accepted-past-wrongly-typed-audience-claim"
	}
	return "C14/audience/accepted-without-well-typed-matching-audience-claim"
}

// judge returns the finding key the observation amounts to ("" = admissible).
func c14AudJudge(v c14AudVerdict, o c14AudObs) string {
	switch {
	case o.Panic != "":
		return "C14/panic@" + o.PanicSite
	case o.Accepted && !v.AcceptAdmissible:
		return c14AudKey(v)
	}
	return ""
}

func c14AudTuple(kinds []c14AudKind, n, t int) []c14AudKind {
	out := make([]c14AudKind, n)
	for i := 0; i < n; i++ {
		out[i] = kinds[t%len(kinds)]
		t /= len(kinds)
	}
	return out
}

func c14AudKindNames(ks []c14AudKind) []string {
	var out []string
	for _, k := range ks {
		out = append(out, k.Name)
	}
	return out
}

func c14Audience(c *Ctx, up *world.Upstream) {
	kinds := c14AudKinds()
	lists := c14AudLists()
	var kn []string
	for _, k := range kinds {
		kn = append(kn, k.Name)
	}
	c.Info["audience_claim_lists"] = map[string]any{"names": c14AudNames, "lists": len(lists), "value_kinds": kn,
		"flows": "bearer: lists of 2 and 3; login, refresh: lists of 2 (thorough: 3)"}
	idx := 0
	for _, flow := range []string{"bearer", "login", "refresh"} {
		for _, list := range lists {
			if len(list) == 3 && flow != "bearer" && c.Quick() {
				continue
			}
			var env *c14AudEnv
			total := 1
			for range list {
				total *= len(kinds)
			}
			for t := 0; t < total; t++ {
				i := idx
				idx++
				if !c.Mine(i) {
					continue
				}
				if c.Expired() {
					return
				}
				if env == nil {
					var err error
					if env, err = c14AudNewEnv(flow, list, up); err != nil {
						c.Error("audience lists: proxy with --oidc-audience-claim=%s does not build: %v", strings.Join(list, ","), err)
						break
					}
				}
				c14AudRunCase(c, env, c14AudTuple(kinds, len(list), t))
			}
		}
	}
	if c.Shard == 0 {
		c.Add("audience_expected_cases", int64(idx))
	}
	world.NewIdP()
}

func c14AudRunCase(c *Ctx, env *c14AudEnv, ks []c14AudKind) {
	v := c14AudModel(ks)
	o := env.observe(ks)
	cs := c14AudCase{Part: "audience", Flow: env.flow, List: env.list, Kinds: c14AudKindNames(ks), Obs: o.Detail}
	c.Inc("evaluations")
	c.Inc("audience_cases")
	c.Inc("audience_cases:" + env.flow)
	if o.Harness != "" {
		c.Error("audience lists %s %v %v: %s", env.flow, env.list, cs.Kinds, o.Harness)
		return
	}
	trivial := true
	for _, k := range ks {
		trivial = trivial && k.Name == "right-string"
	}
	if !trivial {
		c.Distinct("distinct_nontrivial", "audience|"+env.flow+"|"+strings.Join(env.list, ",")+"|"+strings.Join(cs.Kinds, ","))
	}
	if o.Accepted {
		c.Inc("audience_accepted:" + env.flow)
	} else {
		c.Inc("audience_refused:" + env.flow)
	}
	switch {
	case !v.AcceptAdmissible:
		c.Inc("audience_cases_no_reading_accepts")
		if v.WronglyTypedBeforeMatch {
			c.Inc("audience_cases_matching_claim_behind_wrongly_typed_one")
		}
	case v.Ambiguous:
		c.Inc("audience_cases_readings_differ")
		if o.Accepted {
			c.Inc("ambiguous")
			c.Inc("audience_accepted_under_some_reading_only")
		}
	default:
		c.Inc("audience_cases_every_reading_accepts")
		if !o.Accepted {
			c.Inc("audience_refused_although_every_reading_accepts")
		}
	}
	if len(ks) == 2 && ks[0].Name == "right-string" && ks[1].Name == "number" || o.Accepted && v.Ambiguous {
		c.Sample(14, cs)
	}
	key := c14AudJudge(v, o)
	if key == "" {
		return
	}
	msg := fmt.Sprintf("%s flow, --oidc-audience-claim=%s, token with %s: %s — ", env.flow, strings.Join(env.list, ","), c14AudDescribe(env.list, ks), o.Detail)
	switch {
	case o.Panic != "":
		msg += "panic: " + o.Panic
	case v.WronglyTypedBeforeMatch:
		msg += "the token was accepted because of a later configured claim although an earlier configured claim is present with the wrong JSON type (no reading of a claim list admits that: first-present-decides refuses, and alternatives stop at a wrongly typed claim)"
	default:
		msg += "the token was accepted although no configured audience claim is a string or list of strings naming the client id"
	}
	c.confirm(key, msg, 10*len(ks)+c14AudWeight(ks), cs, func() (string, bool) {
		k2 := c14AudJudge(v, env.observe(ks))
		return k2, k2 != ""
	})
}

func c14AudWeight(ks []c14AudKind) int {
	w := 0
	for _, k := range ks {
		if k.Name != "right-string" {
			w++
		}
	}
	return w
}

func c14AudDescribe(list []string, ks []c14AudKind) string {
	var parts []string
	for i, name := range list {
		if ks[i].Absent {
			parts = append(parts, name+" absent")
			continue
		}
		b, _ := json.Marshal(ks[i].Value)
		parts = append(parts, name+"="+string(b))
	}
	return strings.Join(parts, ", ")
}

func c14AudiencePost(c *Ctx) {
	if c.Counters["audience_cases"] == 0 || c.Counters["audience_cases"] != c.Counters["audience_expected_cases"] {
		c.Error("vacuous (audience lists): %d cases executed, the product has %d", c.Counters["audience_cases"], c.Counters["audience_expected_cases"])
	}
	for _, flow := range []string{"bearer", "login", "refresh"} {
		for _, k := range []string{"audience_accepted:", "audience_refused:"} {
			if c.Counters[k+flow] == 0 {
				c.Error("vacuous (audience lists): %s%s never observed", k, flow)
			}
		}
	}
	for _, k := range []string{"audience_cases_matching_claim_behind_wrongly_typed_one", "audience_cases_no_reading_accepts", "audience_cases_readings_differ", "audience_cases_every_reading_accepts"} {
		if c.Counters[k] == 0 {
			c.Error("vacuous (audience lists): %s is 0", k)
		}
	}
}

func c14AudienceReplay(c *Ctx, raw json.RawMessage) string {
	var cs c14AudCase
	if err := json.Unmarshal(raw, &cs); err != nil {
		return err.Error()
	}
	byName := map[string]c14AudKind{}
	for _, k := range c14AudKinds() {
		byName[k.Name] = k
	}
	var ks []c14AudKind
	for _, n := range cs.Kinds {
		k, ok := byName[n]
		if !ok {
			return "unknown value kind " + n
		}
		ks = append(ks, k)
	}
	if len(ks) != len(cs.List) {
		return "malformed audience case"
	}
	up := world.NewUpstream("u")
	defer up.Close()
	env, err := c14AudNewEnv(cs.Flow, cs.List, up)
	if err != nil {
		return err.Error()
	}
	v := c14AudModel(ks)
	o := env.observe(ks)
	if key := c14AudJudge(v, o); key != "" {
		c.Violate(key, fmt.Sprintf("%s flow, --oidc-audience-claim=%s, token with %s: %s", cs.Flow, strings.Join(cs.List, ","), c14AudDescribe(cs.List, ks), o.Detail), 1, cs)
	}
	return fmt.Sprintf("accepted=%v (%s); accepting admissible under some reading=%v", o.Accepted, o.Detail, v.AcceptAdmissible)
}
