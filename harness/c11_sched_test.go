//go:build verif

package main

import (
	"fmt"
	"sort"
	"strings"

	"github.com/oauth2-proxy/oauth2-proxy/v7/verifx/explore"
	"github.com/oauth2-proxy/oauth2-proxy/v7/verifx/sched"
	"github.com/oauth2-proxy/oauth2-proxy/v7/verifx/vatomic"
	"github.com/oauth2-proxy/oauth2-proxy/v7/verifx/world"
)

// C11, second sentence, under concurrency: "With a server-side store the stored session is removed,
// so replaying any pre-sign-out cookie is never authenticated again". A sign-out can arrive while
// another request of the same browser is in the middle of refreshing the session; that request
// saves the refreshed session under the same ticket. Every interleaving of the sign-out with 1-2
// ordinary requests sharing one session that is due for refresh (and one that is not) is explored
// at every store, lock, provider and retry-sleep step of the real proxy with the Redis store (the
// environment of C12). Whenever the sign-out was answered with the success redirect, the store
// must hold no session afterwards and neither the pre-sign-out cookie nor any cookie an in-flight
// request was answered with may authenticate.

type c11ConcScenario struct {
	Requests  int    `json:"concurrent_requests"`
	Behaviour string `json:"provider_behaviour"` // rotate | static | refresh-fails | no-refresh-token
	Stale     bool   `json:"session_due_for_refresh"`
	Method    string `json:"sign_out_method"`
}

type c11ConcReplay struct {
	Kind     string          `json:"kind"`
	Scenario c11ConcScenario `json:"scenario"`
	Choices  []int           `json:"choices"`
	Order    string          `json:"thread_order"`
	What     string          `json:"what"`
}

type c11ConcResult struct {
	inconclusive bool
	out          *sched.Outcome
	violations   [][2]string
	harness      string
	outcome      string
	pruned       bool
	contended    bool
	resaved      bool // an in-flight request saved the session while the sign-out was in progress or after it started
}

func c11ConcExec(e *c12Env, sc c11ConcScenario, x *explore.Exec, prune bool, seed int64) *c11ConcResult {
	res := &c11ConcResult{out: &sched.Outcome{}}
	beh := sc.Behaviour
	if beh == "static" {
		beh = "rotate"
	}
	idp, cookie, _, err := c12Prepare(e, c12Scenario{Threads: sc.Requests + 1, Behaviour: beh}, seed)
	if err != nil {
		res.harness = err.Error()
		return res
	}
	if sc.Behaviour == "static" {
		idp.StaticRefreshToken = true
	}
	if !sc.Stale {
		// c12Prepare has aged the session by 2 minutes; log in again at the current time instead
		b := newBrowser(e.px, "http", "app.example.com")
		e.redis.M.FlushAll()
		resp, _, lerr := b.Login(idp, "alice", "/app")
		if lerr != nil || resp.Status != 302 {
			res.harness = fmt.Sprintf("login failed: %v status %d", lerr, resp.Status)
			return res
		}
		cookie = b.Jar.Header("http", "app.example.com", "/")
		secret, serr := c12TicketSecret(cookie)
		if serr != nil {
			res.harness = serr.Error()
			return res
		}
		e.redis.Canon = c12Canon(secret)
	}
	e.up.Take()
	callsBefore := e.redis.NumCalls()
	opts := sched.Options{Horizon: 700, MaxSteps: 20000, PositionsByObservation: true}
	if prune {
		opts.StateKey = func() string { return c12StoreKey(e) + "#" + idp.StateKey() }
	}
	s := sched.New(x, opts)
	n := sc.Requests + 1
	resps := make([]*world.Resp, n)
	for i := 0; i < n; i++ {
		i := i
		name, method, target := fmt.Sprintf("req%d", i), "GET", "/app"
		if i == n-1 {
			name, method, target = "signout", sc.Method, "/oauth2/sign_out"
		}
		s.Go(name, func() {
			resps[i] = world.Serve(e.px.H, &world.Req{Method: method, Target: target, Host: "app.example.com",
				Headers: [][2]string{{"Cookie", cookie}, {"X-Req", fmt.Sprint(i)}}})
			sched.Observe(fmt.Sprintf("resp:%d", resps[i].Status))
		})
	}
	out := s.Run()
	res.out = out
	if out.Aborted == "pruned" {
		res.pruned = true
		return res
	}
	add := func(key, msg string) {
		res.violations = append(res.violations, [2]string{"C11/concurrent/" + key, msg})
	}
	switch out.Aborted {
	case sched.StuckAborted:
		// a thread blocked outside the scheduler (a primitive of a dependency): inconclusive
		res.outcome = "given-up:" + sched.StuckAborted
		res.inconclusive = true
		return res
	case "deadlock":
		add("deadlock", fmt.Sprintf("no thread enabled, blocked: %v", out.Blocked))
		return res
	case "livelock", "horizon":
		add(out.Aborted, "requests keep waiting for the refresh lock")
		return res
	}
	for _, p := range out.Panics {
		add("panic", p)
	}
	obt, sets := 0, 0
	for _, op := range e.redis.Ops(callsBefore) {
		switch op {
		case "OBTAIN":
			obt++
		case "SET", "SETEX":
			sets++
		}
	}
	res.contended = obt > 1
	res.resaved = sets > 0
	so := resps[n-1]
	var parts []string
	for i, r := range resps {
		if r == nil {
			add("no-response", fmt.Sprintf("request %d got no response", i))
			return res
		}
		if r.Panic != nil {
			add("panic", fmt.Sprintf("request %d: %v at %s", i, r.Panic, r.PanicSite()))
			return res
		}
		parts = append(parts, fmt.Sprintf("%d:%d", i, r.Status))
	}
	e.up.Take()
	var keys []string
	for _, k := range e.redis.Keys() {
		if !strings.HasSuffix(k, ".lock") {
			keys = append(keys, k)
		}
	}
	res.outcome = strings.Join(parts, " ") + fmt.Sprintf(" grants=%d stored=%d", idp.Grants, len(keys))
	if so.Status < 300 || so.Status >= 400 {
		// answered with an error (or anything but the success redirect): nothing is promised
		res.outcome += " signout-not-success"
		return res
	}
	if len(keys) > 0 {
		add("stored-session-present-after-successful-sign-out", fmt.Sprintf("sign-out was answered %d (success) but once all requests were answered the store still holds %d session key(s): an in-flight request of the same browser wrote the session back", so.Status, len(keys)))
	}
	// replays: the pre-sign-out cookie, and what each in-flight request was answered with
	replays := map[string]string{"the pre-sign-out cookie": cookie}
	for i := 0; i < n-1; i++ {
		var kv []string
		for _, ck := range resps[i].Cookies() {
			if ck.MaxAge >= 0 && ck.Value != "" && strings.HasPrefix(ck.Name, "_oauth2_proxy") && !strings.Contains(ck.Name, "csrf") {
				kv = append(kv, ck.Name+"="+ck.Value)
			}
		}
		if len(kv) > 0 {
			replays[fmt.Sprintf("the cookie request %d was answered with", i)] = strings.Join(kv, "; ")
		}
	}
	names := make([]string, 0, len(replays))
	for k := range replays {
		names = append(names, k)
	}
	sort.Strings(names)
	for _, name := range names {
		r := world.Serve(e.px.H, &world.Req{Method: "GET", Target: "/oauth2/auth", Host: "app.example.com", Headers: [][2]string{{"Cookie", replays[name]}}})
		r2 := world.Serve(e.px.H, &world.Req{Method: "GET", Target: "/app", Host: "app.example.com", Headers: [][2]string{{"Cookie", replays[name]}}})
		served := len(e.up.Take()) > 0
		if r.Status == 202 || served {
			add("replay-authenticated-after-successful-sign-out", fmt.Sprintf("sign-out was answered %d (success); replaying %s afterwards: /oauth2/auth=%d, /app=%d served by upstream=%v", so.Status, name, r.Status, r2.Status, served))
		}
	}
	return res
}

func c11ConcScenarios(quick bool) (out []struct {
	sc    c11ConcScenario
	bound int
}) {
	type job = struct {
		sc    c11ConcScenario
		bound int
	}
	for _, beh := range []string{"static", "rotate", "refresh-fails", "no-refresh-token"} {
		out = append(out, job{c11ConcScenario{Requests: 1, Behaviour: beh, Stale: true, Method: "GET"}, 1000})
	}
	out = append(out, job{c11ConcScenario{Requests: 1, Behaviour: "static", Stale: false, Method: "GET"}, 1000})
	out = append(out, job{c11ConcScenario{Requests: 1, Behaviour: "static", Stale: true, Method: "POST"}, 1000})
	if quick {
		out = append(out, job{c11ConcScenario{Requests: 2, Behaviour: "static", Stale: true, Method: "GET"}, 2})
	} else {
		for _, beh := range []string{"static", "rotate", "refresh-fails"} {
			out = append(out, job{c11ConcScenario{Requests: 2, Behaviour: beh, Stale: true, Method: "GET"}, 1000})
		}
	}
	return out
}

func c11Concurrent(c *Ctx) {
	hooks := vatomic.Hooks
	vatomic.Hooks = false // as in C12: the e-mail validator's atomic load is C20's subject
	defer func() { vatomic.Hooks = hooks }()
	e := c12NewEnv()
	defer e.up.Close()
	defer e.redis.Close()
	jobs := c11ConcScenarios(c.Quick())
	c.Info["concurrent_scenarios"] = len(jobs)
	for _, j := range jobs {
		if c.Expired() {
			return
		}
		sc := j.sc
		var first []int
		firstOrder := ""
		stats := explore.Run(explore.Config{Stop: schedStuck, MaxCost: j.bound, Prune: true, Deadline: c.Deadline, Shard: c.Shard, Shards: c.Shards, ShardDepth: 3}, func(x *explore.Exec, own bool) {
			res := c11ConcExec(e, sc, x, true, c.Seed)
			if !own {
				return
			}
			if res.harness != "" {
				c.Error("concurrent sign-out %+v: %s", sc, res.harness)
				return
			}
			if res.inconclusive {
				c.Inc("executions_given_up_thread_blocked_outside_the_scheduler")
				c.Unstable("concurrent sign-out %+v: %s %v", sc, res.outcome, res.out.Blocked)
				return
			}
			c.Inc("evaluations")
			c.Inc("traces_validated_against_impl")
			c.Inc("conc_executions")
			c.Add("transitions", int64(res.out.Steps))
			if res.pruned {
				c.Inc("conc_pruned_executions")
			} else {
				c.Inc("conc_complete_executions")
				if c.Distinct("conc_distinct_outcomes", fmt.Sprint(sc)+res.outcome) {
					c.Note("concurrent sign-out %+v: %s (order %s)", sc, res.outcome, sched.DescribeOrder(res.out.Order))
				}
				c.Distinct("distinct_nontrivial", "conc|"+fmt.Sprint(sc)+sched.DescribeOrder(res.out.Order))
				if res.contended {
					c.Inc("conc_lock_contended")
				}
				if res.resaved {
					c.Inc("conc_session_saved_by_a_request_in_flight")
				}
				if strings.HasSuffix(res.outcome, "signout-not-success") {
					c.Inc("conc_signout_answered_with_error")
				} else {
					c.Inc("conc_signout_answered_success")
				}
			}
			if first == nil {
				first = x.Choices()
				firstOrder = sched.DescribeOrder(res.out.Order)
			}
			for _, v := range res.violations {
				key, msg := v[0], v[1]
				choices := x.Choices()
				c.confirm(key, fmt.Sprintf("%+v: %s [thread order %s]", sc, msg, sched.DescribeOrder(res.out.Order)), len(choices)*10+res.out.Switches,
					c11ConcReplay{Kind: "concurrent-sign-out", Scenario: sc, Choices: choices, Order: sched.DescribeOrder(res.out.Order), What: msg},
					func() (string, bool) {
						r := c11ConcExec(e, sc, explore.Replay(choices, nil), false, c.Seed)
						for _, v2 := range r.violations {
							if v2[0] == key {
								return key, true
							}
						}
						return "", false
					})
			}
		})
		c.Add("states", int64(stats.States))
		if !stats.Exhaustive {
			c.Exhaustive = false
			c.Note("concurrent sign-out %+v bound %d: not exhaustive (level completed %d, deadline hit %v)", sc, j.bound, stats.LevelCompleted, stats.DeadlineHit)
		}
		if first != nil && c.Shard == 0 {
			for i := 0; i < 2; i++ {
				r := c11ConcExec(e, sc, explore.Replay(first, nil), false, c.Seed)
				if o := sched.DescribeOrder(r.out.Order); o != firstOrder {
					c.Unstable("replay divergence in concurrent sign-out %+v: order %s vs %s (aborted %q)", sc, firstOrder, o, r.out.Aborted)
				}
			}
		}
	}
}
