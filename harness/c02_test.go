//go:build verif

package main

import (
	"crypto/hmac"
	"crypto/sha256"
	"encoding/base64"
	"encoding/hex"
	"encoding/json"
	"fmt"
	"hash/fnv"
	"net/http"
	"net/http/httptest"
	"net/url"
	"reflect"
	"strconv"
	"strings"
	"time"

	"github.com/oauth2-proxy/oauth2-proxy/v7/pkg/apis/sessions"
	"github.com/oauth2-proxy/oauth2-proxy/v7/pkg/cookies"
	"github.com/oauth2-proxy/oauth2-proxy/v7/pkg/encryption"
	cookiestore "github.com/oauth2-proxy/oauth2-proxy/v7/pkg/sessions/cookie"
	"github.com/oauth2-proxy/oauth2-proxy/v7/pkg/sessions/persistence"
	"github.com/oauth2-proxy/oauth2-proxy/v7/verifx/world"
)

// C02 — session credentials are opaque and tamper-evident (PROD).
//
// Every proxy of a small deployment family (secret x cookie-expire x store) issues a fixed set
// of artefacts (session cookies of several shapes incl. multi-part, Redis ticket cookies, CSRF
// cookies with fixed and per-request names). Each artefact is then altered in every way the
// statement lists, each class enumerated completely, and the altered Cookie header is handed to
// the loader(s) that would read it (SessionStore.Load / LoadCSRFCookie; accepted cases and every
// 53rd rejected case additionally through ServeHTTP on /oauth2/userinfo).
//
// Oracle (written from the statement, DESIGN.md §4 C02):
//   sentence 1  an alteration of an artefact X, read by a loader of the same kind at the proxy
//               that issued X: rejected, or a result field-for-field equal to X (for recombinations
//               of two issued artefacts A and B: equal to A or to B);
//   sentence 2  whatever a loader did NOT issue (artefact of another kind, of a deployment with
//               another cookie name or another secret, fabricated values): rejected, always;
//   sentence 3  no Set-Cookie value and no raw Redis key/value contains a token, e-mail, user
//               name, group or raw nonce, directly or after base64/base64url/hex decoding of any
//               '|' / '.' separated component (12-byte windows, so compressed-only data is caught);
//               no two issued values share a ciphertext prefix (deterministic randomness: a
//               repeated IV is reuse, not chance).
//   converse    the unaltered artefact, alone or next to an unrelated cookie, loads as issued.
//   stricter clause with its own key: once an issued cookie has expired, editing only its
//   timestamp must not make it acceptable again (what is then accepted was never produced by the
//   proxy and the produced credential is dead).

// ---------------------------------------------------------------------------------------------
// world: members, loaders, artefacts

type c02Secret struct {
	Label   string
	Value   string
	Sibling string // another secret STRING that yields the same AES key (different MAC key)
}

func c02Secrets(quick bool) []c02Secret {
	raw := make([]byte, 32)
	for i := range raw {
		raw[i] = byte(37*i + 11)
	}
	b64 := base64.URLEncoding.EncodeToString(raw) // 44 characters, padded: what the documentation's generator prints
	all := []c02Secret{
		{"b64-32", b64, strings.TrimRight(b64, "=")},
		{"raw-32", "0123456789abcdef0123456789abcde!", ""},
		{"raw-16", "0123456789abcde!", ""},
		{"raw-24", "0123456789abcdef0123456!", ""},
		{"raw-32-b64-alphabet", cookieSecret32, cookieSecret32 + "="},
	}
	if quick {
		return all[:2]
	}
	return all
}

type c02Member struct {
	Label  string
	Secret c02Secret
	Expire time.Duration
	Store  string // cookie | redis
	px     *Proxy
	arts   []*c02Art
	values []c02Issued // everything this member put into Set-Cookie / Redis (IV reuse scan)
}

type c02Issued struct {
	Where string
	Raw   string
}

type ck struct{ Name, Value string }

type c02Art struct {
	Label    string
	Kind     string // session-cookie | ticket | csrf
	LoadKind string // session | csrf
	Owner    *c02Member
	Name     string // logical cookie name the MAC is computed for
	Cookies  []ck   // as issued, in order
	Joined   string
	V, T, S  string
	Truth    string // snapshot of what was issued
	Ident    string // identity part (what /oauth2/userinfo shows)
	Partner  *c02Art
	Full     bool // gets the position-complete classes
	Needles  *c02Needles
	Hdr      string // Cookie header as issued
}

func (m *c02Member) issuer(kind string) string {
	if kind == "csrf" {
		return "csrf\x00" + m.Secret.Value // CSRF cookies are the same in both stores; the name is a parameter of the loader
	}
	return "session\x00" + m.Secret.Value + "\x00" + m.px.Opts.Cookie.Name + "\x00" + m.Store
}

type c02Loader struct {
	ID    string
	Kind  string     // session | csrf
	Owner *c02Member // nil: a deployment that issued nothing (sibling name / sibling secret)
	// Issuer identifies who can legitimately have produced what this loader accepts: replicas
	// (same secret string, cookie name and store type) are one issuer; "" = issued nothing.
	Issuer string
	Name   string // cookie name it reads (csrf: exact name)
	Load   func(req *http.Request) (any, error)
	E2E    *Proxy
}

type c02Case struct {
	Member   string `json:"member"`
	Artefact string `json:"artefact"`
	Class    string `json:"class"`
	Ord      int    `json:"ordinal"`
	Loader   string `json:"loader"`
	Desc     string `json:"mutation"`
	Cookie   string `json:"cookie_header_clipped,omitempty"`
	Expected string `json:"expected"`
	Observed string `json:"observed"`
}

type c02Run struct {
	c       *Ctx
	idp     *world.IdP
	up      *world.Upstream
	redis   *world.Redis
	members []*c02Member
	filter  *c02Case
	seenKey map[string]bool
	sibs    map[string]*c02Loader
	secrets []string

	// current block
	bm    *c02Member
	ba    *c02Art
	class string
	ord   int
	base  int
	mine  map[string]int
	total int64

	sampledSame int
	sampledRej  map[string]bool
	baselineOK  int
	scans       [3]int // leak scans, redis entries, iv pairs in this process
}

const c02Host = "app.example.com"

func c02Hash(s ...string) uint64 {
	h := fnv.New64a()
	for _, x := range s {
		h.Write([]byte(x))
		h.Write([]byte{0})
	}
	return h.Sum64()
}

// block starts a new (member, artefact, class) block; case numbering inside a block depends
// only on the position of the case in the enumeration, never on cookie contents, so the
// partition over shards is exact even though RSA keys (and so token bytes) differ per process.
func (r *c02Run) block(a *c02Art, class string) {
	r.bm, r.ba, r.class, r.ord = a.Owner, a, class, 0
	r.base = int(c02Hash(a.Owner.Label, a.Label, class) % 1000003)
}

// next numbers the next case and says whether this process executes it.
func (r *c02Run) next() bool {
	r.ord++
	if r.filter != nil {
		f := r.filter
		return f.Member == r.bm.Label && f.Artefact == r.ba.Label && f.Class == r.class && f.Ord == r.ord
	}
	r.total++
	if !r.c.Mine(r.base + r.ord) {
		return false
	}
	r.mine[r.class]++
	r.c.Inc("cases_executed")
	return true
}

// always numbers a case that every shard executes (baselines).
func (r *c02Run) always() bool {
	r.ord++
	if r.filter != nil {
		f := r.filter
		return f.Member == r.bm.Label && f.Artefact == r.ba.Label && f.Class == r.class && f.Ord == r.ord
	}
	return true
}

func c02Header(jar []ck) string {
	var b strings.Builder
	for i, c := range jar {
		if i > 0 {
			b.WriteString("; ")
		}
		b.WriteString(c.Name)
		b.WriteByte('=')
		b.WriteString(c.Value)
	}
	return b.String()
}

// c02Request builds the request a server would hand to the proxy for this Cookie header.
func c02Request(hdr string) *http.Request {
	if strings.ContainsAny(hdr, "\r\n") {
		// cannot exist on an HTTP/1 wire; handed over as a parsed header for completeness
		req := httptest.NewRequest("GET", "http://"+c02Host+"/oauth2/userinfo", nil)
		req.Header["Cookie"] = []string{hdr}
		req.RemoteAddr = "192.0.2.1:40000"
		return req
	}
	rq := &world.Req{Method: "GET", Target: "/oauth2/userinfo", Host: c02Host}
	if hdr != "" {
		rq.Headers = [][2]string{{"Cookie", hdr}}
	}
	req, err := rq.Parse()
	if err != nil {
		return nil
	}
	return req
}

// c02Snap renders every exported field (except the helpers Clock and Lock) of a loaded
// session / CSRF value; two values are "field-for-field equal" iff their snapshots are equal.
func c02Snap(v any) string {
	rv := reflect.ValueOf(v)
	for rv.IsValid() && (rv.Kind() == reflect.Ptr || rv.Kind() == reflect.Interface) {
		if rv.IsNil() {
			return "<nil>"
		}
		rv = rv.Elem()
	}
	if !rv.IsValid() {
		return "<nil>"
	}
	if rv.Kind() != reflect.Struct {
		return fmt.Sprintf("%#v", v)
	}
	var b strings.Builder
	t := rv.Type()
	for i := 0; i < rv.NumField(); i++ {
		f := t.Field(i)
		if f.PkgPath != "" || f.Name == "Clock" || f.Name == "Lock" {
			continue
		}
		b.WriteString(f.Name)
		b.WriteByte('=')
		switch x := rv.Field(i).Interface().(type) {
		case *time.Time:
			if x == nil {
				b.WriteString("nil")
			} else {
				fmt.Fprintf(&b, "%d", x.UnixNano())
			}
		case []byte:
			b.WriteString(hex.EncodeToString(x))
		case []string:
			fmt.Fprintf(&b, "%q", append([]string{}, x...))
		case string:
			fmt.Fprintf(&b, "%q", x)
		default:
			fmt.Fprintf(&b, "%#v", x)
		}
		b.WriteByte(';')
	}
	return b.String()
}

func c02IsNil(v any) bool {
	if v == nil {
		return true
	}
	rv := reflect.ValueOf(v)
	return (rv.Kind() == reflect.Ptr || rv.Kind() == reflect.Interface) && rv.IsNil()
}

func c02Ident(email, user, pu string, groups []string) string {
	return fmt.Sprintf("%q|%q|%q|%q", email, user, pu, append([]string{}, groups...))
}

// observe runs one loader on one Cookie header.
func (r *c02Run) observe(ld *c02Loader, hdr string) (snap string, accepted bool, pan string) {
	req := c02Request(hdr)
	if req == nil {
		r.c.Inc("rejected_by_http_parser")
		return "", false, ""
	}
	defer func() {
		if p := recover(); p != nil {
			pan = fmt.Sprint(p)
			accepted = false
		}
	}()
	v, err := ld.Load(req)
	if err != nil || c02IsNil(v) {
		return "", false, ""
	}
	return c02Snap(v), true, ""
}

// e2e sends the header through ServeHTTP and reports the identity /oauth2/userinfo disclosed.
func (r *c02Run) e2e(px *Proxy, hdr string) (ident string, served bool) {
	if strings.ContainsAny(hdr, "\r\n") {
		return "", false
	}
	rq := &world.Req{Method: "GET", Target: "/oauth2/userinfo", Host: c02Host}
	if hdr != "" {
		rq.Headers = [][2]string{{"Cookie", hdr}}
	}
	resp := world.Serve(px.H, rq)
	r.c.Inc("requests_through_ServeHTTP")
	if resp.Status != 200 {
		return "", false
	}
	var u struct {
		User, Email, PreferredUsername string
		Groups                         []string
	}
	if json.Unmarshal([]byte(resp.Body), &u) != nil || (u.Email == "" && u.User == "") {
		return "", false
	}
	return c02Ident(u.Email, u.User, u.PreferredUsername, u.Groups), true
}

func clipMid(s string, n int) string {
	if len(s) <= n {
		return s
	}
	return s[:n/2] + "…(" + strconv.Itoa(len(s)) + " chars)…" + s[len(s)-n/2:]
}

// allowed lists the artefacts a loader may legitimately return for a header derived from srcs.
func c02Allowed(ld *c02Loader, srcs ...*c02Art) []*c02Art {
	var out []*c02Art
	for _, x := range srcs {
		if x != nil && ld.Issuer != "" && ld.Kind == x.LoadKind && ld.Issuer == x.Owner.issuer(x.LoadKind) {
			out = append(out, x)
		}
	}
	return out
}

// try evaluates one altered jar against the given loaders.
//
//	mustLoad: converse clause (only used for requests a browser produces).
func (r *c02Run) try(desc string, jar []ck, lds []*c02Loader, srcs []*c02Art, mustLoad bool) {
	hdr := c02Header(jar)
	for _, ld := range lds {
		r.judge(desc, hdr, ld, c02Allowed(ld, srcs...), mustLoad)
	}
}

func (r *c02Run) judge(desc, hdr string, ld *c02Loader, allowed []*c02Art, mustLoad bool) {
	c := r.c
	if r.filter != nil && r.filter.Loader != "" && r.filter.Loader != ld.ID {
		return
	}
	issued := r.ba.Hdr
	cs := c02Case{Member: r.bm.Label, Artefact: r.ba.Label, Class: r.class, Ord: r.ord, Loader: ld.ID, Desc: desc, Cookie: clipMid(hdr, 160)}
	if len(allowed) > 0 {
		cs.Expected = "rejected, or exactly the issued " + ld.Kind
	} else {
		cs.Expected = "rejected (this loader never issued it)"
	}
	if mustLoad {
		cs.Expected = "loads exactly as issued"
	}

	eval := func() (key, observed string, accepted bool) {
		var gets0 int
		if r.redis != nil {
			gets0 = r.redis.NumCalls()
		}
		snap, ok, pan := r.observe(ld, hdr)
		if pan != "" {
			// a crash is not an acceptance (C19 owns crashes); counted, not alarmed
			c.Inc("loader_panics_counted_as_rejected")
			c.Note("panic in %s on %s/%s/%s#%d: %s", ld.ID, cs.Member, cs.Artefact, cs.Class, cs.Ord, clip(pan))
		}
		var ident string
		var served bool
		if ld.E2E != nil && (ok || mustLoad || r.ord%53 == 0) {
			ident, served = r.e2e(ld.E2E, hdr)
		}
		if !ok && r.redis != nil && ld.Kind == "session" && r.redis.NumCalls() > gets0 {
			c.Inc("info_store_reads_for_rejected_cookies")
		}
		switch {
		case !ok && !served:
			if mustLoad {
				return "C02/issued-credential-not-loadable/" + r.class, "rejected", false
			}
			return "", "rejected", false
		case ok:
			same := false
			for _, a := range allowed {
				if a.Truth == snap && (!served || a.Ident == ident) {
					same = true
				}
			}
			if same {
				return "", "accepted, equal to issued", true
			}
			obs := "accepted as " + clipMid(snap, 300)
			if served {
				obs += " ; userinfo " + ident
			}
			if len(allowed) == 0 {
				switch {
				case r.class == "fabricated":
					return "C02/fabricated-value-accepted", obs, true
				case ld.Issuer == "" || ld.Issuer != r.ba.Owner.issuer(ld.Kind):
					return "C02/foreign-credential-accepted/" + r.class, obs, true
				}
				return "C02/cross-kind-accepted/" + r.class, obs, true
			}
			return "C02/altered-credential-decodes-differently/" + r.class, obs, true
		default: // store rejected but the handler disclosed an identity
			for _, a := range allowed {
				if a.Ident == ident {
					return "", "served by handler, identity equal to issued", true
				}
			}
			return "C02/handler-accepts-what-store-rejects/" + r.class, "Load rejected but /oauth2/userinfo answered " + ident, true
		}
	}

	key, observed, accepted := eval()
	c.Inc("evaluations")
	if hdr != issued && hdr != "" {
		c.Distinct("distinct_nontrivial", fmt.Sprintf("%s|%s|%s|%x", cs.Member, cs.Artefact, ld.ID, c02Hash(hdr)))
	}
	cs.Observed = observed
	if key != "" {
		c.Inc("class:" + r.class + ":violating")
		c.confirm(key, fmt.Sprintf("%s / %s / %s #%d [%s] via %s: expected %s; observed %s; cookie %s", cs.Member, cs.Artefact, cs.Class, cs.Ord, desc, ld.ID, cs.Expected, observed, cs.Cookie), len(hdr)+len(desc), cs,
			func() (string, bool) { k, _, _ := eval(); return k, k != "" })
		return
	}
	if r.class == "baseline" && c.Shard != 0 && r.filter == nil {
		r.baselineOK += b2i(accepted)
		return // every shard validates every baseline; only shard 0 counts them
	}
	if accepted {
		r.baselineOK += b2i(r.class == "baseline")
		c.Inc("accepted_same")
		c.Inc("class:" + r.class + ":accepted_same")
		if hdr != issued && !mustLoad {
			c.Inc("accepted_same_kind:" + r.class + ": " + c02Normalise(desc))
			// admissible under sentence 1, inadmissible under a literal reading of sentence 2:
			// the readings differ, the case cannot fail
			c.Inc("ambiguous")
		}
		if r.class != "baseline" && r.class != "header" && r.sampledSame < 2 {
			r.sampledSame++
			c.Sample(8, cs)
		}
	} else {
		c.Inc("rejected")
		c.Inc("class:" + r.class + ":rejected")
		if !r.sampledRej[r.class] && len(c.Samples) < 6 {
			r.sampledRej[r.class] = true
			c.Sample(8, cs)
		}
	}
}

func b2i(b bool) int {
	if b {
		return 1
	}
	return 0
}

// c02Normalise strips positions and quoted material from a description (for per-kind counters).
func c02Normalise(d string) string {
	if i := strings.Index(d, " -> "); i >= 0 {
		d = d[:i] + " -> x"
	}
	if i := strings.Index(d, "replaced by "); i >= 0 {
		d = d[:i] + "replaced"
	}
	if i := strings.Index(d, ": "); i >= 0 && (strings.HasPrefix(d, "re-encoding") || strings.HasPrefix(d, "field permutation")) {
		d = d[:i]
	}
	var b strings.Builder
	inQ := false
	for i := 0; i < len(d); i++ {
		ch := d[i]
		switch {
		case ch == '"':
			inQ = !inQ
			if inQ {
				b.WriteString("\"..\"")
			}
		case inQ:
		case ch >= '0' && ch <= '9':
			if b.Len() == 0 || b.String()[b.Len()-1] != 'N' {
				b.WriteByte('N')
			}
		default:
			b.WriteByte(ch)
		}
	}
	return clip(b.String())
}

// ---------------------------------------------------------------------------------------------
// leak scanner (sentence 3)

const c02Win = 12

// Needles of 12 bytes and more are searched by every 12-byte window (so that data that is only
// compressed, i.e. broken up by match references, is still seen); 6..11 bytes whole; shorter
// strings are not searched (they occur by chance in base64 text). 12 rather than 8 because
// public text is shared between tokens and tickets: base64("…proxy-client…") inside an ID token
// and base64("_oauth2_proxy-<id>") inside a ticket have an 8-character window in common.
type c02Needles struct {
	win   map[[c02Win]byte]string
	short map[string]string
}

func newNeedles() *c02Needles {
	return &c02Needles{win: map[[c02Win]byte]string{}, short: map[string]string{}}
}

func (n *c02Needles) add(label string, b []byte) {
	if len(b) < 6 {
		return
	}
	if len(b) < c02Win {
		n.short[string(b)] = label
		return
	}
	for i := 0; i+c02Win <= len(b); i++ {
		var k [c02Win]byte
		copy(k[:], b[i:i+c02Win])
		if _, ok := n.win[k]; !ok {
			n.win[k] = label
		}
	}
}

func (n *c02Needles) addSession(s *sessions.SessionState) {
	n.add("access_token", []byte(s.AccessToken))
	n.add("id_token", []byte(s.IDToken))
	n.add("refresh_token", []byte(s.RefreshToken))
	n.add("email", []byte(s.Email))
	n.add("user", []byte(s.User))
	n.add("preferred_username", []byte(s.PreferredUsername))
	n.add("nonce", s.Nonce)
	for _, g := range s.Groups {
		n.add("group", []byte(g))
	}
}

func (n *c02Needles) scanBlob(b []byte) string {
	for i := 0; i+c02Win <= len(b); i++ {
		var k [c02Win]byte
		copy(k[:], b[i:i+c02Win])
		if l, ok := n.win[k]; ok {
			return fmt.Sprintf("%s (bytes %q at offset %d)", l, k[:], i)
		}
	}
	for s, l := range n.short {
		if strings.Contains(string(b), s) {
			return fmt.Sprintf("%s (%q)", l, s)
		}
	}
	return ""
}

// c02Derive lists raw and every blob obtainable by decoding '|' / '.' separated components
// as base64 (std, url, padded or not) or hex, recursively.
func c02Derive(raw string, depth int, out *[][]byte) {
	if len(*out) >= 96 {
		return
	}
	*out = append(*out, []byte(raw))
	if depth == 0 {
		return
	}
	comps := strings.FieldsFunc(raw, func(r rune) bool { return r == '|' || r == '.' })
	if len(comps) > 1 {
		comps = append(comps, raw)
	}
	seen := map[string]bool{}
	for _, comp := range comps {
		if len(comp) < 4 {
			continue
		}
		for _, dec := range []func(string) ([]byte, error){
			base64.StdEncoding.DecodeString, base64.URLEncoding.DecodeString,
			base64.RawStdEncoding.DecodeString, base64.RawURLEncoding.DecodeString, hex.DecodeString,
		} {
			if d, err := dec(comp); err == nil && len(d) > 0 && !seen[string(d)] {
				seen[string(d)] = true
				c02Derive(string(d), depth-1, out)
			}
		}
	}
}

func (n *c02Needles) scan(raw string) string {
	var blobs [][]byte
	c02Derive(raw, 3, &blobs)
	for _, b := range blobs {
		if hit := n.scanBlob(b); hit != "" {
			return hit
		}
	}
	return ""
}

type c02PlainCipher struct{}

func (c02PlainCipher) Encrypt(v []byte) ([]byte, error) { return v, nil }
func (c02PlainCipher) Decrypt(v []byte) ([]byte, error) { return v, nil }

// leakCheck scans one issued raw value.
func (r *c02Run) leakCheck(m *c02Member, where, raw string, n *c02Needles) {
	r.scans[0]++
	if r.c.Shard == 0 {
		r.c.Inc("leak_scans")
	}
	m.values = append(m.values, c02Issued{Where: where, Raw: raw})
	if r.filter != nil {
		return
	}
	if hit := n.scan(raw); hit != "" {
		kind := "set-cookie"
		if strings.HasPrefix(where, "redis") {
			kind = "redis"
		}
		r.c.Violate("C02/plaintext-leak/"+kind, fmt.Sprintf("%s: %s reveals %s; raw value %s", m.Label, where, hit, clipMid(raw, 120)), len(raw),
			map[string]string{"member": m.Label, "where": where, "reveals": hit, "raw": clipMid(raw, 400)})
	}
}

// scanRedis scans every key/value that appeared in the store since the last scan.
func (r *c02Run) scanRedis(m *c02Member, art string, n *c02Needles) {
	if r.redis == nil {
		return
	}
	for _, k := range r.redis.Keys() {
		if r.seenKey[k] {
			continue
		}
		r.seenKey[k] = true
		r.scans[1]++
		if r.c.Shard == 0 {
			r.c.Inc("redis_entries_scanned")
		}
		r.leakCheck(m, "redis key of "+art, k, n)
		if v, err := r.redis.M.Get(k); err == nil {
			r.leakCheck(m, "redis value of "+art+" ("+k+")", v, n)
			// "server-side store entries never reveal ... in recoverable plain text": an entry must
			// not be decryptable from what the store alone holds. Candidate keys: every 16/24/32-byte
			// window of the entry's own key name, raw and after hex / base64 decoding of its
			// separator-delimited components.
			if hit := c02DecryptableFromStoreKey(k, []byte(v)); hit != "" {
				r.c.Violate("C02/store-entry-decryptable-from-its-key", fmt.Sprintf("%s: redis entry %s of %s can be decrypted with key material contained in its own key name (%s)", m.Label, k, art, hit), len(k),
					map[string]string{"kind": "store-key-reveals-encryption-key", "redis_key": k, "how": hit})
			}
			if r.c.Shard == 0 {
				r.c.Inc("redis_entries_tried_with_keys_from_store")
			}
		}
	}
}

// c02DecryptableFromStoreKey tries AES-GCM and AES-CFB with every key-sized window of the
// material in the entry's key name; returns a description of the window that opens the value.
func c02DecryptableFromStoreKey(key string, val []byte) string {
	var mats [][]byte
	mats = append(mats, []byte(key))
	for _, comp := range strings.FieldsFunc(key, func(r rune) bool { return r == '-' || r == '.' || r == ':' || r == '_' || r == '/' }) {
		if b, err := hex.DecodeString(comp); err == nil {
			mats = append(mats, b)
		}
		for _, enc := range []*base64.Encoding{base64.RawURLEncoding, base64.URLEncoding, base64.StdEncoding, base64.RawStdEncoding} {
			if b, err := enc.DecodeString(comp); err == nil {
				mats = append(mats, b)
			}
		}
	}
	for mi, mat := range mats {
		for _, size := range []int{16, 24, 32} {
			for off := 0; off+size <= len(mat); off++ {
				k := mat[off : off+size]
				if ci, err := encryption.NewGCMCipher(k); err == nil {
					if pt, err := ci.Decrypt(val); err == nil && len(pt) > 0 {
						return fmt.Sprintf("AES-GCM, %d-byte window at offset %d of key material %d", size, off, mi)
					}
				}
			}
		}
	}
	return ""
}

func commonPrefix(a, b string) int {
	i := 0
	for i < len(a) && i < len(b) && a[i] == b[i] {
		i++
	}
	return i
}

// ivReuse: no two values a member issued may start with the same ciphertext.
func (r *c02Run) ivReuse(m *c02Member) {
	if r.filter != nil {
		return
	}
	for i := 0; i < len(m.values); i++ {
		for j := i + 1; j < len(m.values); j++ {
			a, b := m.values[i], m.values[j]
			if strings.HasPrefix(a.Where, "redis key") || strings.HasPrefix(b.Where, "redis key") {
				continue
			}
			if strings.HasPrefix(a.Where, "redis") != strings.HasPrefix(b.Where, "redis") {
				continue
			}
			if strings.HasPrefix(a.Where, "ticket cookie") || strings.HasPrefix(b.Where, "ticket cookie") {
				continue // ticket cookies all start with the same encoded "v2." + cookie name; they carry no session data
			}
			r.scans[2]++
			if r.c.Shard == 0 {
				r.c.Inc("iv_pairs_compared")
			}
			limit := 12
			if strings.HasPrefix(a.Where, "redis") {
				limit = 8
			}
			if p := commonPrefix(a.Raw, b.Raw); p >= limit {
				r.c.Violate("C02/repeated-iv-or-deterministic-ciphertext", fmt.Sprintf("%s: %q and %q share a %d-character ciphertext prefix %q", m.Label, a.Where, b.Where, p, clipMid(a.Raw[:p], 60)), p,
					map[string]string{"member": m.Label, "a": a.Where, "b": b.Where, "prefix": clipMid(a.Raw[:p], 200)})
			}
		}
	}
}

// ---------------------------------------------------------------------------------------------
// issuing

func c02Filler(seed string, n int) string {
	var b strings.Builder
	h := sha256.Sum256([]byte(seed))
	for b.Len() < n {
		b.WriteString(base64.RawURLEncoding.EncodeToString(h[:]))
		h = sha256.Sum256(h[:])
	}
	return b.String()[:n]
}

func c02Session(kind, who string) *sessions.SessionState {
	now := world.Now()
	exp := now.Add(time.Hour)
	s := &sessions.SessionState{CreatedAt: &now, ExpiresOn: &exp}
	s.Email = who + "-" + kind + "@corp.example.net"
	s.User = who + "-user-" + kind
	switch kind {
	case "tiny":
	case "oidc":
		s.AccessToken = "at-" + c02Filler(who+"at", 60)
		s.IDToken = "eyJhbGciOiJSUzI1NiJ9." + c02Filler(who+"idp", 400) + "." + c02Filler(who+"ids", 342)
		s.RefreshToken = "rt-" + c02Filler(who+"rt", 40)
		s.PreferredUsername = who + "-preferred"
		s.Groups = []string{"staff-" + who, "admins-" + who}
		s.Nonce = []byte(c02Filler(who+"n", 32))
	case "two-part", "three-part":
		n := 4300
		if kind == "three-part" {
			n = 7400
		}
		s.AccessToken = "at-" + c02Filler(who+kind+"at", 200)
		s.IDToken = "eyJhbGciOiJSUzI1NiJ9." + c02Filler(who+kind+"id", n)
		s.RefreshToken = "rt-" + c02Filler(who+kind+"rt", 60)
		s.Groups = []string{"staff-" + who}
	case "binary-nonce":
		nb := make([]byte, 256)
		for i := range nb {
			nb[i] = byte(i)
		}
		s.Nonce = nb
		s.AccessToken = "at-" + c02Filler(who+"bn", 30)
	case "unicode":
		s.Email = who + "-jörg.müller@exämple-ünïcode.example"
		s.User = who + "-用户-😀-ユーザー"
		s.PreferredUsername = who + "-é‮abc‍-пользователь"
		s.Groups = []string{"gruppe-ä-" + who, "группа-" + who, "|.;=\"\\-" + who}
	case "empty-groups":
		s.Groups = []string{}
		s.PreferredUsername = who + "-nogroups"
	}
	return s
}

func (r *c02Run) newArt(m *c02Member, label, kind string, cks []ck) *c02Art {
	a := &c02Art{Label: label, Kind: kind, LoadKind: "session", Owner: m, Cookies: cks, Needles: newNeedles()}
	if kind == "csrf" {
		a.LoadKind = "csrf"
	}
	for _, c := range cks {
		a.Joined += c.Value
	}
	f := strings.Split(a.Joined, "|")
	if len(f) != 3 {
		r.c.Error("%s/%s: issued value has %d '|' separated fields, the harness expects value|timestamp|signature", m.Label, label, len(f))
		return nil
	}
	a.V, a.T, a.S = f[0], f[1], f[2]
	a.Name = cks[0].Name
	if len(cks) > 1 || (kind != "csrf" && a.Name != m.px.Opts.Cookie.Name) {
		a.Name = m.px.Opts.Cookie.Name
	}
	a.Hdr = c02Header(cks)
	r.c.SetMax("largest_artefact_chars", int64(len(a.Joined)))
	r.c.SetMax("max_parts", int64(len(cks)))
	m.arts = append(m.arts, a)
	return a
}

func c02SessionCookies(name string, list []*http.Cookie) []ck {
	var out []ck
	for _, c := range list {
		if c.Name == name || strings.HasPrefix(c.Name, name+"_") && !strings.HasSuffix(c.Name, "_csrf") {
			if c.Value != "" {
				out = append(out, ck{c.Name, c.Value})
			}
		}
	}
	return out
}

// issueSaved stores a hand-made session through SessionStore.Save.
func (r *c02Run) issueSaved(m *c02Member, label string, ss *sessions.SessionState) *c02Art {
	want := c02Snap(ss)
	rec := httptest.NewRecorder()
	if err := verifSessionStore(m.px.P).Save(rec, c02Request(""), ss); err != nil {
		r.c.Error("%s/%s: Save failed: %v", m.Label, label, err)
		return nil
	}
	list := (&http.Response{Header: rec.Header()}).Cookies()
	cks := c02SessionCookies(m.px.Opts.Cookie.Name, list)
	if len(cks) == 0 {
		r.c.Error("%s/%s: Save set no session cookie", m.Label, label)
		return nil
	}
	kind := "session-cookie"
	if m.Store == "redis" {
		kind = "ticket"
	}
	a := r.newArt(m, label, kind, cks)
	if a == nil {
		return nil
	}
	a.Truth = want
	a.Ident = c02Ident(ss.Email, ss.User, ss.PreferredUsername, ss.Groups)
	a.Needles.addSession(ss)
	a.Needles.add("cookie_secret", []byte(m.Secret.Value))
	for _, c := range cks {
		w := "session cookie "
		if kind == "ticket" {
			w = "ticket cookie "
		}
		r.leakCheck(m, w+c.Name+" of "+label, c.Value, a.Needles)
	}
	r.scanRedis(m, label, a.Needles)
	return a
}

// issueLogin runs a real login; the session cookie and the CSRF cookie of the flow are artefacts.
func (r *c02Run) issueLogin(m *c02Member, label, user string) (sess, csrf *c02Art) {
	b := newBrowser(m.px, "http", c02Host)
	start, loginURL, err := b.Start("/after-login")
	if err != nil {
		r.c.Error("%s/%s: start failed: %v", m.Label, label, err)
		return nil, nil
	}
	csrf = r.csrfFromStart(m, "csrf-of-"+label, start, loginURL)
	cb, _, err := r.idp.Authorize(loginURL, user)
	if err != nil {
		r.c.Error("%s/%s: provider refused: %v", m.Label, label, err)
		return nil, csrf
	}
	resp := b.Callback(cb)
	if resp.Status != 302 {
		r.c.Error("%s/%s: callback status %d", m.Label, label, resp.Status)
		return nil, csrf
	}
	cks := c02SessionCookies(m.px.Opts.Cookie.Name, resp.Cookies())
	if len(cks) == 0 {
		r.c.Error("%s/%s: login set no session cookie", m.Label, label)
		return nil, csrf
	}
	kind := "session-cookie"
	if m.Store == "redis" {
		kind = "ticket"
	}
	a := r.newArt(m, label, kind, cks)
	if a == nil {
		return nil, csrf
	}
	// the truth of a login session is what the unaltered cookie loads, cross-checked against
	// what the provider knows about the user
	v, err := verifSessionStore(m.px.P).Load(c02Request(c02Header(cks)))
	if err != nil || v == nil {
		r.c.Violate("C02/issued-credential-not-loadable/login", fmt.Sprintf("%s/%s: the cookie set by the login does not load: %v", m.Label, label, err), 1, label)
		return nil, csrf
	}
	u := r.idp.Users[user]
	if v.Email != u.Email || v.IDToken == "" || v.AccessToken == "" {
		r.c.Error("%s/%s: login session does not describe %s: %s", m.Label, label, user, clipMid(c02Snap(v), 200))
		return nil, csrf
	}
	a.Truth = c02Snap(v)
	a.Ident = c02Ident(v.Email, v.User, v.PreferredUsername, v.Groups)
	a.Needles.addSession(v)
	a.Needles.add("cookie_secret", []byte(m.Secret.Value))
	for _, tok := range r.idp.IssuedAccessTokens() {
		a.Needles.add("access_token", []byte(tok))
	}
	for _, c := range cks {
		w := "session cookie "
		if kind == "ticket" {
			w = "ticket cookie "
		}
		r.leakCheck(m, w+c.Name+" of "+label, c.Value, a.Needles)
	}
	r.scanRedis(m, label, a.Needles)
	return a, csrf
}

// csrfFromStart turns the CSRF cookie of a /oauth2/start response into an artefact; its truth
// is what the unaltered cookie loads, cross-checked against the login URL the proxy produced.
func (r *c02Run) csrfFromStart(m *c02Member, label string, start *world.Resp, loginURL string) *c02Art {
	var cks []ck
	for _, c := range start.Cookies() {
		if strings.HasSuffix(c.Name, "_csrf") && c.Value != "" {
			cks = append(cks, ck{c.Name, c.Value})
		}
	}
	if len(cks) != 1 {
		r.c.Error("%s/%s: start set %d CSRF cookies", m.Label, label, len(cks))
		return nil
	}
	a := r.newArt(m, label, "csrf", cks)
	if a == nil {
		return nil
	}
	v, err := cookies.LoadCSRFCookie(c02Request(c02Header(cks)), a.Name, &m.px.Opts.Cookie)
	if err != nil || v == nil {
		r.c.Violate("C02/issued-credential-not-loadable/csrf", fmt.Sprintf("%s/%s: the CSRF cookie set by /oauth2/start does not load: %v", m.Label, label, err), 1, label)
		return nil
	}
	lu, _ := url.Parse(loginURL)
	q := lu.Query()
	st := q.Get("state")
	if i := strings.Index(st, ":"); i >= 0 {
		st = st[:i]
	}
	if !v.CheckOAuthState(st) || (q.Get("nonce") != "" && !v.CheckOIDCNonce(q.Get("nonce"))) {
		r.c.Error("%s/%s: CSRF cookie does not match the login URL (state/nonce)", m.Label, label)
		return nil
	}
	if ch := q.Get("code_challenge"); ch != "" {
		sum := sha256.Sum256([]byte(v.GetCodeVerifier()))
		if base64.RawURLEncoding.EncodeToString(sum[:]) != ch {
			r.c.Error("%s/%s: CSRF code verifier does not match the code challenge", m.Label, label)
			return nil
		}
	}
	a.Truth = c02Snap(v)
	rv := reflect.ValueOf(v).Elem()
	for i := 0; i < rv.NumField(); i++ {
		if rv.Type().Field(i).PkgPath != "" {
			continue
		}
		switch x := rv.Field(i).Interface().(type) {
		case []byte:
			a.Needles.add("csrf "+rv.Type().Field(i).Name, x)
		case string:
			a.Needles.add("csrf "+rv.Type().Field(i).Name, []byte(x))
		}
	}
	a.Needles.add("cookie_secret", []byte(m.Secret.Value))
	r.leakCheck(m, "csrf cookie "+a.Name+" of "+label, cks[0].Value, a.Needles)
	return a
}

// ---------------------------------------------------------------------------------------------
// loaders

func (r *c02Run) sessionLoader(m *c02Member) *c02Loader {
	return &c02Loader{ID: "session-store@" + m.Label, Kind: "session", Owner: m, Issuer: m.issuer("session"), Name: m.px.Opts.Cookie.Name, E2E: m.px,
		Load: func(req *http.Request) (any, error) { return verifSessionStore(m.px.P).Load(req) }}
}

func (r *c02Run) csrfLoader(m *c02Member, name string) *c02Loader {
	return &c02Loader{ID: "csrf-loader@" + m.Label + "[" + name + "]", Kind: "csrf", Owner: m, Issuer: m.issuer("csrf"), Name: name,
		Load: func(req *http.Request) (any, error) { return cookies.LoadCSRFCookie(req, name, &m.px.Opts.Cookie) }}
}

// siblingSession is the session store of a deployment that shares everything with m except the
// cookie name and/or the secret string: it has issued nothing.
func (r *c02Run) siblingSession(m *c02Member, name, secret string) *c02Loader {
	key := m.Label + "\x00" + name + "\x00" + secret
	if l := r.sibs[key]; l != nil {
		return l
	}
	cp := m.px.Opts.Cookie
	cp.Name, cp.Secret = name, secret
	var st sessions.SessionStore
	if mgr, ok := verifSessionStore(m.px.P).(*persistence.Manager); ok {
		st = &persistence.Manager{Store: mgr.Store, Options: &cp}
	} else {
		s, err := cookiestore.NewCookieSessionStore(&m.px.Opts.Session, &cp)
		if err != nil {
			r.c.Error("sibling store: %v", err)
			return nil
		}
		st = s
	}
	id := "sibling-of-" + m.Label + "(cookie-name=" + clip(name)
	if secret != m.Secret.Value {
		id += ",secret=sibling-string-same-aes-key"
	}
	l := &c02Loader{ID: id + ")", Kind: "session", Name: name, Load: func(req *http.Request) (any, error) { return st.Load(req) }}
	if len(r.sibs) < 4096 {
		r.sibs[key] = l
	}
	return l
}

func (r *c02Run) siblingCSRF(m *c02Member, name, secret string) *c02Loader {
	cp := m.px.Opts.Cookie
	cp.Secret = secret
	id := "sibling-csrf-of-" + m.Label + "[" + clip(name) + "]"
	if secret != m.Secret.Value {
		id += "(secret=sibling-string-same-aes-key)"
	}
	return &c02Loader{ID: id, Kind: "csrf", Name: name, Load: func(req *http.Request) (any, error) { return cookies.LoadCSRFCookie(req, name, &cp) }}
}

func (r *c02Run) ownLoader(a *c02Art) *c02Loader {
	if a.LoadKind == "csrf" {
		return r.csrfLoader(a.Owner, a.Name)
	}
	return r.sessionLoader(a.Owner)
}

// ---------------------------------------------------------------------------------------------
// alterations

func (a *c02Art) with(pi int, v string) []ck {
	out := append([]ck{}, a.Cookies...)
	out[pi].Value = v
	return out
}

// resplit distributes a joined value over cookies the way the artefact was issued.
func (a *c02Art) resplit(joined string) []ck {
	if len(a.Cookies) == 1 {
		return []ck{{a.Cookies[0].Name, joined}}
	}
	var out []ck
	for i, c := range a.Cookies {
		n := len(c.Value)
		if i == len(a.Cookies)-1 || n > len(joined) {
			n = len(joined)
		}
		out = append(out, ck{c.Name, joined[:n]})
		joined = joined[n:]
	}
	return out
}

func c02Sign(secret, name, value, ts string) string {
	h := hmac.New(sha256.New, []byte(secret))
	h.Write([]byte(name + value + ts))
	return base64.URLEncoding.EncodeToString(h.Sum(nil))
}

const c02B64Alphabet = "ABCDEFGHIJKLMNOPQRSTUVWXYZabcdefghijklmnopqrstuvwxyz0123456789-_"

var c02InsertClasses = []string{"A", "=", "|", ".", "7", "%", " ", "\n", "\r"}

func (r *c02Run) enumerate(a *c02Art, thorough bool) {
	own := []*c02Loader{r.ownLoader(a)}
	self := []*c02Art{a}
	m := a.Owner
	name := m.px.Opts.Cookie.Name
	positional := a.Full && (thorough || len(a.Cookies) <= 2)

	// converse: the artefact as a browser sends it
	r.block(a, "baseline")
	if r.always() {
		// every shard checks every baseline (not a partitioned case)
		r.try("unaltered", a.Cookies, own, self, true)
	}
	r.block(a, "header")
	if r.next() {
		r.try("unrelated cookie first", append([]ck{{"theme", "dark"}}, a.Cookies...), own, self, true)
	}
	if r.next() {
		r.try("unrelated cookies last", append(append([]ck{}, a.Cookies...), ck{"lang", "de"}, ck{name + "x", a.Joined}), own, self, true)
	}
	if r.next() {
		var rev []ck
		for i := len(a.Cookies) - 1; i >= 0; i-- {
			rev = append(rev, a.Cookies[i])
		}
		r.try("cookies in reverse header order", rev, own, self, false)
	}
	if r.next() {
		r.try("whole jar sent twice", append(append([]ck{}, a.Cookies...), a.Cookies...), own, self, false)
	}
	if r.next() {
		r.try("garbage duplicate first", append([]ck{{a.Cookies[0].Name, "AAAA|1|AAAA"}}, a.Cookies...), own, self, false)
	}
	if r.next() {
		r.try("garbage duplicate last", append(append([]ck{}, a.Cookies...), ck{a.Cookies[0].Name, "AAAA|1|AAAA"}), own, self, false)
	}
	if r.next() {
		r.try("quoted value", a.with(0, `"`+a.Cookies[0].Value+`"`), own, self, false)
	}
	if r.next() {
		r.try("joined value under the unsuffixed name", []ck{{a.Name, a.Joined}}, own, self, false)
	}

	if positional {
		// (a) single-position substitution, every position, one representative per class
		r.block(a, "subst")
		for pi, part := range a.Cookies {
			for pos := 0; pos < len(part.Value); pos++ {
				for _, cl := range mutClasses {
					if !r.next() {
						continue
					}
					v, ok := substituteAt(part.Value, pos, cl)
					if !ok {
						r.c.Inc("noop_substitutions_skipped")
						continue
					}
					r.try(fmt.Sprintf("part %d position %d -> %s", pi, pos, cl), a.with(pi, v), own, self, false)
				}
			}
		}
		// (b) truncation to every length, deletion of every single character
		r.block(a, "trunc")
		for pi, part := range a.Cookies {
			for l := 0; l < len(part.Value); l++ {
				if r.next() {
					r.try(fmt.Sprintf("part %d truncated to %d", pi, l), a.with(pi, part.Value[:l]), own, self, false)
				}
			}
		}
		r.block(a, "delete")
		for pi, part := range a.Cookies {
			for pos := 0; pos < len(part.Value); pos++ {
				if r.next() {
					r.try(fmt.Sprintf("part %d character %d deleted", pi, pos), a.with(pi, part.Value[:pos]+part.Value[pos+1:]), own, self, false)
				}
			}
		}
		// insertion of one character at every position (incl. CR/LF: lax base64 decoders skip them)
		if thorough || len(a.Cookies) == 1 {
			r.block(a, "insert")
			for pi, part := range a.Cookies {
				for pos := 0; pos <= len(part.Value); pos++ {
					for _, cl := range c02InsertClasses {
						if r.next() {
							r.try(fmt.Sprintf("part %d %q inserted at %d", pi, cl, pos), a.with(pi, part.Value[:pos]+cl+part.Value[pos:]), own, self, false)
						}
					}
				}
			}
		}
		// re-splitting a one-cookie artefact at every position (a second encoding of the same value)
		if len(a.Cookies) == 1 && a.LoadKind == "session" && (thorough || len(a.Joined) < 1200) {
			r.block(a, "resplit")
			for cut := 1; cut < len(a.Joined); cut++ {
				if r.next() {
					r.try(fmt.Sprintf("split in two at %d", cut), []ck{{name + "_0", a.Joined[:cut]}, {name + "_1", a.Joined[cut:]}}, own, self, false)
				}
			}
		}
	}

	// timestamp and signature region: every position x the whole alphabet
	r.block(a, "subst-full-ts-sig")
	from := len(a.V)
	alpha := c02B64Alphabet + "=|.%+ ~"
	for pos := from; pos < len(a.Joined); pos++ {
		for i := 0; i < len(alpha); i++ {
			if !r.next() {
				continue
			}
			if a.Joined[pos] == alpha[i] {
				r.c.Inc("noop_substitutions_skipped")
				continue
			}
			r.try(fmt.Sprintf("joined position %d (timestamp/signature region) -> %q", pos, alpha[i]), a.resplit(a.Joined[:pos]+string(alpha[i])+a.Joined[pos+1:]), own, self, false)
		}
	}
	// last data characters of value and signature: every alphabet character (non-canonical trailing bits)
	for _, f := range []struct {
		what string
		off  int
		s    string
	}{{"value", 0, a.V}, {"signature", len(a.V) + len(a.T) + 2, a.S}} {
		last := len(strings.TrimRight(f.s, "=")) - 1
		for i := 0; i < len(c02B64Alphabet) && last >= 0; i++ {
			if !r.next() {
				continue
			}
			if f.s[last] == c02B64Alphabet[i] {
				continue
			}
			pos := f.off + last
			r.try(fmt.Sprintf("last data character of the %s -> %q", f.what, c02B64Alphabet[i]), a.resplit(a.Joined[:pos]+string(c02B64Alphabet[i])+a.Joined[pos+1:]), own, self, false)
		}
	}

	// (b) extension by one character of each class, front and back of every part; padding games
	r.block(a, "extend")
	for pi, part := range a.Cookies {
		for _, cl := range mutClasses {
			ch := cl
			if cl == "b64" {
				ch = "A"
			} else if cl == "digit" {
				ch = "7"
			}
			if r.next() {
				r.try(fmt.Sprintf("part %d prefixed with %q", pi, ch), a.with(pi, ch+part.Value), own, self, false)
			}
			if r.next() {
				r.try(fmt.Sprintf("part %d extended by %q", pi, ch), a.with(pi, part.Value+ch), own, self, false)
			}
		}
	}
	for _, v := range []string{
		strings.TrimRight(a.V, "=") + "|" + a.T + "|" + a.S, a.V + "=|" + a.T + "|" + a.S, a.V + "|" + a.T + "|" + strings.TrimRight(a.S, "="),
		a.V + "|" + a.T + "|" + a.S + "=", a.V + "|" + a.T + "|" + a.S + "==", a.V + "|" + a.T + "|" + a.S + "|", "|" + a.Joined, a.Joined + "|" + a.S,
		strings.NewReplacer("-", "+", "_", "/").Replace(a.V) + "|" + a.T + "|" + a.S, a.V + "|" + a.T + "|" + strings.NewReplacer("-", "+", "_", "/").Replace(a.S),
		url.QueryEscape(a.Joined), strings.ToLower(a.Joined), strings.ToUpper(a.Joined),
	} {
		if r.next() {
			r.try("re-encoding: "+clipMid(v, 40), a.resplit(v), own, self, false)
		}
	}

	// (g) timestamp edits with the original signature
	r.block(a, "timestamp")
	ts, _ := strconv.ParseInt(a.T, 10, 64)
	var tsEdits []string
	for _, d := range []int64{-1, 1, -60, 60, -3600, 3600, -int64(m.Expire / time.Second), int64(m.Expire / time.Second), 86400 * 365} {
		if d != 0 {
			tsEdits = append(tsEdits, strconv.FormatInt(ts+d, 10))
		}
	}
	tsEdits = append(tsEdits, "", "0", "-1", "+"+a.T, "0"+a.T, " "+a.T, a.T+" ", "-"+a.T, a.T+"0", a.T[:len(a.T)-1], "0x"+strconv.FormatInt(ts, 16), a.T+".0", "99999999999999999999", strconv.FormatInt(world.Now().Unix(), 10)+"0")
	for _, t := range tsEdits {
		if t == a.T {
			continue
		}
		if r.next() {
			r.try(fmt.Sprintf("timestamp %q -> %q", a.T, t), a.resplit(a.V+"|"+t+"|"+a.S), own, self, false)
		}
	}

	// (f) re-signing with every other secret (the forger's own HMAC)
	r.block(a, "resign")
	if c02Sign(m.Secret.Value, a.Name, a.V, a.T) != a.S {
		r.c.Inc("info_forger_signature_scheme_differs_from_proxy")
	}
	keys := append([]string{}, r.secrets...)
	keys = append(keys, "", a.Name, "secret", strings.TrimRight(m.Secret.Value, "="), m.Secret.Value+"=")
	if raw, err := base64.RawURLEncoding.DecodeString(strings.TrimRight(m.Secret.Value, "=")); err == nil {
		keys = append(keys, string(raw)) // the decoded key bytes used as MAC key
	}
	nowS := strconv.FormatInt(world.Now().Unix(), 10)
	for _, k := range keys {
		if k == m.Secret.Value {
			continue
		}
		if r.next() {
			r.try("re-signed with another secret", a.resplit(a.V+"|"+a.T+"|"+c02Sign(k, a.Name, a.V, a.T)), own, self, false)
		}
		if r.next() {
			r.try("re-signed with another secret, timestamp now", a.resplit(a.V+"|"+nowS+"|"+c02Sign(k, a.Name, a.V, nowS)), own, self, false)
		}
	}
	// signatures a forger can compute without any secret
	plainSum := sha256.Sum256([]byte(a.Name + a.V + a.T))
	for _, s := range []string{"", "AAAA", base64.URLEncoding.EncodeToString(plainSum[:]), base64.URLEncoding.EncodeToString(make([]byte, 32)), a.V, a.T,
		c02Sign(m.Secret.Value, "", a.V, a.T), c02Sign(m.Secret.Value, a.Name, "", a.T), c02Sign(m.Secret.Value, a.Name, a.V, "")} {
		if s == a.S {
			r.c.Inc("info_signature_does_not_cover_all_of_name_value_timestamp")
		}
		if r.next() && s != a.S {
			r.try("signature replaced by "+clipMid(s, 24), a.resplit(a.V+"|"+a.T+"|"+s), own, self, false)
		}
	}

	// (c) splices of two artefacts of the same kind at the field separators
	if b := a.Partner; b != nil {
		r.block(a, "splice")
		fa, fb := []string{a.V, a.T, a.S}, []string{b.V, b.T, b.S}
		both := []*c02Art{a, b}
		for mask := 1; mask < 8; mask++ {
			var f [3]string
			for i := 0; i < 3; i++ {
				f[i] = fa[i]
				if mask&(1<<i) != 0 {
					f[i] = fb[i]
				}
			}
			if r.next() {
				r.try(fmt.Sprintf("fields value/timestamp/signature taken from A or B, mask %03b (1=B), under A's name", mask), a.resplit(strings.Join(f[:], "|")), own, both, false)
			}
		}
		for _, v := range []string{
			a.T + "|" + a.V + "|" + a.S, a.S + "|" + a.T + "|" + a.V, a.V + "|" + a.S + "|" + a.T, a.T + "|" + a.S + "|" + a.V, a.S + "|" + a.V + "|" + a.T,
			a.V + "|" + a.T, a.V + "|" + a.S, a.T + "|" + a.S, a.V + "|" + a.T + "|" + a.S + "|" + b.S, a.V + "|" + a.T + "|" + b.T + "|" + a.S, a.V + "|" + b.V + "|" + a.T + "|" + a.S,
			a.V + b.V + "|" + a.T + "|" + a.S, b.V + a.V + "|" + a.T + "|" + a.S, a.V + "|" + a.T + b.T + "|" + a.S, a.V + "|" + a.T + "|" + a.S + b.S,
			a.V[:len(a.V)/2] + b.V[len(b.V)/2:] + "|" + a.T + "|" + a.S, b.V[:len(b.V)/2] + a.V[len(a.V)/2:] + "|" + a.T + "|" + a.S,
		} {
			if r.next() {
				r.try("field permutation / recombination: "+clipMid(v, 40), a.resplit(v), own, both, false)
			}
		}
		// the first 16 bytes of the value are the IV of a stream cipher: IV of A with body of B and vice versa
		for _, k := range []int{4, 8, 16, 20, 24, 32, 44, 64} {
			if k < len(a.V) && k < len(b.V) && r.next() {
				r.try(fmt.Sprintf("first %d value characters of B + rest of A", k), a.resplit(b.V[:k]+a.V[k:]+"|"+a.T+"|"+a.S), own, both, false)
			}
		}
		// inside a ticket: version.id.secret
		if a.Kind == "ticket" {
			da, ea := base64.URLEncoding.DecodeString(a.V)
			db, eb := base64.URLEncoding.DecodeString(b.V)
			pa, pb := strings.Split(string(da), "."), strings.Split(string(db), ".")
			if ea == nil && eb == nil && len(pa) == 3 && len(pb) == 3 {
				if r.c.Shard == 0 {
					r.c.Inc("info_ticket_values_are_readable_dotted_triples")
				}
				for mask := 1; mask < 8; mask++ {
					var f [3]string
					for i := 0; i < 3; i++ {
						f[i] = pa[i]
						if mask&(1<<i) != 0 {
							f[i] = pb[i]
						}
					}
					nv := base64.URLEncoding.EncodeToString([]byte(strings.Join(f[:], ".")))
					for _, tsg := range [][2]string{{a.T, a.S}, {b.T, b.S}, {a.T, b.S}, {b.T, a.S}} {
						if r.next() {
							r.try(fmt.Sprintf("ticket pieces version/id/secret from A or B, mask %03b", mask), a.resplit(nv+"|"+tsg[0]+"|"+tsg[1]), own, both, false)
						}
					}
				}
				idA, _ := base64.RawURLEncoding.DecodeString(pa[1])
				idB, _ := base64.RawURLEncoding.DecodeString(pb[1])
				for _, inner := range []string{string(idA) + "." + pa[2], string(idB) + "." + pa[2], string(idA) + "." + pb[2], "v1." + pa[1] + "." + pa[2], "v2." + pa[1], pa[1] + "." + pa[2], "v2." + pa[1] + "." + pa[2] + ".x", "v2.." + pa[2], "v2." + pa[1] + "."} {
					nv := base64.URLEncoding.EncodeToString([]byte(inner))
					if r.next() {
						r.try("ticket re-encoded as "+clipMid(inner, 40)+" with A's timestamp and signature", a.resplit(nv+"|"+a.T+"|"+a.S), own, both, false)
					}
					if r.next() {
						r.try("ticket re-encoded as "+clipMid(inner, 40)+" signed with the empty secret", a.resplit(nv+"|"+a.T+"|"+c02Sign("", a.Name, nv, a.T)), own, both, false)
					}
				}
			}
		}
	}

	// (d) split cookies: every sequence of length <= parts+1 over the parts of A and B
	if len(a.Cookies) > 1 {
		r.block(a, "parts")
		var alpha []ck
		for i, c := range a.Cookies {
			alpha = append(alpha, ck{fmt.Sprintf("A%d", i), c.Value})
		}
		srcs := self
		if b := a.Partner; b != nil && len(b.Cookies) > 1 {
			for i, c := range b.Cookies {
				alpha = append(alpha, ck{fmt.Sprintf("B%d", i), c.Value})
			}
			srcs = []*c02Art{a, b}
		}
		maxLen := len(a.Cookies) + 1
		idx := make([]int, 0, maxLen)
		var rec func()
		rec = func() {
			if r.next() {
				var jar []ck
				var d []string
				for i, k := range idx {
					jar = append(jar, ck{fmt.Sprintf("%s_%d", name, i), alpha[k].Value})
					d = append(d, alpha[k].Name)
				}
				r.try("parts sequence ["+strings.Join(d, " ")+"]", jar, own, srcs, false)
			}
			if len(idx) == maxLen {
				return
			}
			for k := range alpha {
				idx = append(idx, k)
				rec()
				idx = idx[:len(idx)-1]
			}
		}
		rec()
		for _, p := range alpha {
			if r.next() {
				r.try("part "+p.Name+" alone under the unsuffixed name", []ck{{name, p.Value}}, own, srcs, false)
			}
			if r.next() {
				r.try("part "+p.Name+" under the unsuffixed name in front of all parts of A", append([]ck{{name, p.Value}}, a.Cookies...), own, srcs, false)
			}
			if r.next() {
				r.try("part "+p.Name+" under suffix _1 only", []ck{{name + "_1", p.Value}}, own, srcs, false)
			}
		}
		if r.next() {
			var jar []ck
			for _, c := range a.Cookies {
				jar = append(jar, ck{name, c.Value})
			}
			r.try("all parts under the unsuffixed name", jar, own, srcs, false)
		}
		if r.next() {
			jar := append([]ck{}, a.Cookies...)
			jar[len(jar)-1].Name = fmt.Sprintf("%s_%d", name, len(jar)) // gap in the numbering
			r.try("last part renumbered leaving a gap", jar, own, srcs, false)
		}
		if r.next() {
			var jar []ck
			for i, c := range a.Cookies {
				jar = append(jar, ck{fmt.Sprintf("%s_0%d", name, i), c.Value})
			}
			r.try("part numbers with a leading zero", jar, own, srcs, false)
		}
	}

	// (e) transplants: the artefact in front of every loader of every deployment, under its own
	// names and renamed to the names that loader reads
	r.block(a, "transplant")
	for _, t := range r.members {
		var lds []*c02Loader
		lds = append(lds, r.sessionLoader(t), r.csrfLoader(t, t.px.Opts.Cookie.Name+"_csrf"))
		if a.Kind == "csrf" {
			lds = append(lds, r.csrfLoader(t, a.Name))
		}
		for _, o := range t.arts {
			if o.Kind == "csrf" && o.Name != t.px.Opts.Cookie.Name+"_csrf" && o != a && len(lds) < 5 {
				lds = append(lds, r.csrfLoader(t, o.Name))
			}
		}
		if t == m && t.Secret.Sibling != "" {
			lds = append(lds, r.siblingSession(t, name, t.Secret.Sibling), r.siblingCSRF(t, name+"_csrf", t.Secret.Sibling), r.siblingCSRF(t, a.Name, t.Secret.Sibling))
		}
		for _, ld := range lds {
			if ld == nil {
				continue
			}
			isOwn := ld.Owner == m && ld.Kind == a.LoadKind && ld.Name == a.Name
			tn := ld.Name
			jars := []struct {
				d   string
				jar []ck
			}{
				{"as issued", a.Cookies},
				{"joined value renamed to " + tn, []ck{{tn, a.Joined}}},
				{"joined value renamed to " + tn + "_0", []ck{{tn + "_0", a.Joined}}},
				{"joined value renamed to " + tn + "_1", []ck{{tn + "_1", a.Joined}}},
			}
			if len(a.Cookies) > 1 {
				var jar []ck
				for i, c := range a.Cookies {
					jar = append(jar, ck{fmt.Sprintf("%s_%d", tn, i), c.Value})
				}
				jars = append(jars, struct {
					d   string
					jar []ck
				}{"parts renamed to " + tn + "_N", jar})
			}
			for ji, j := range jars {
				if isOwn && ji == 0 {
					continue // that is the baseline
				}
				if r.next() {
					r.judge("transplant: "+j.d, c02Header(j.jar), ld, c02Allowed(ld, a), false)
				}
			}
		}
	}

	// the value as it is under the cookie name of a deployment that shares the secret but not the name
	for _, on := range []string{"_oauth2", name + "2", name + "_", "x" + name, "other", strings.ToUpper(name), name + "_csrf", "other_csrf", a.Name + "x"} {
		if on == a.Name {
			continue
		}
		var lds []*c02Loader
		if strings.HasSuffix(on, "_csrf") {
			lds = append(lds, r.siblingCSRF(m, on, m.Secret.Value))
		}
		if a.LoadKind == "session" || !strings.HasSuffix(on, "_csrf") {
			lds = append(lds, r.siblingSession(m, on, m.Secret.Value))
		}
		for _, ld := range lds {
			if ld == nil {
				continue
			}
			if r.next() {
				r.judge("transplant: joined value renamed to "+on, c02Header([]ck{{on, a.Joined}}), ld, nil, false)
			}
			if len(a.Cookies) > 1 && r.next() {
				var jar []ck
				for i, c := range a.Cookies {
					jar = append(jar, ck{fmt.Sprintf("%s_%d", on, i), c.Value})
				}
				r.judge("transplant: parts renamed to "+on+"_N", c02Header(jar), ld, nil, false)
			}
		}
	}

	// (e)+(g) the MAC input is name ‖ value ‖ timestamp without separators: every way of moving
	// the two boundaries that keeps the concatenation (and so the signature) unchanged
	r.block(a, "boundary")
	cat := a.Name + a.V + a.T
	nl, vl := len(a.Name), len(a.V)
	for i := nl - 16; i <= nl+8; i++ {
		if i < 1 || i > len(cat) {
			continue
		}
		for j := nl + vl - 8; j <= nl+vl+8; j++ {
			if j < i || j > len(cat) {
				continue
			}
			if i == nl && j == nl+vl {
				continue
			}
			if !r.next() {
				continue
			}
			n2, v2, t2 := cat[:i], cat[i:j], cat[j:]
			hdr := c02Header([]ck{{n2, v2 + "|" + t2 + "|" + a.S}})
			desc := fmt.Sprintf("boundaries moved: name %+d, value|timestamp %+d (same MAC input)", i-nl, j-nl-vl)
			var lds []*c02Loader
			if n2 == a.Name {
				lds = append(lds, own[0])
			} else {
				// a deployment with that cookie name sharing the secret
				lds = append(lds, r.siblingSession(m, n2, m.Secret.Value))
				if strings.HasSuffix(n2, "_csrf") {
					lds = append(lds, r.siblingCSRF(m, n2, m.Secret.Value))
				}
			}
			if n2 == name && a.Name != name {
				lds = append(lds, r.sessionLoader(m)) // CSRF cookie folded onto the session cookie name of the same proxy
				for _, t := range r.members {
					if t != m && t.Secret.Value == m.Secret.Value && t.Expire == m.Expire {
						lds = append(lds, r.sessionLoader(t))
					}
				}
			}
			for _, ld := range lds {
				if ld != nil {
					r.judge(desc, hdr, ld, c02Allowed(ld, a), false)
				}
			}
		}
	}

	// fabricated values under every name the owner reads
	r.block(a, "fabricated")
	fab := []string{"", "x", "|", "||", "|||", "a|b|c", "QQ==|" + nowS + "|QQ==", "|" + nowS + "|", "AAAA|" + nowS + "|" + c02Sign("", a.Name, "AAAA", nowS),
		base64.URLEncoding.EncodeToString([]byte("v2.QQ.QQ")) + "|" + nowS + "|" + c02Sign("", name, base64.URLEncoding.EncodeToString([]byte("v2.QQ.QQ")), nowS),
		base64.URLEncoding.EncodeToString([]byte(`{"email":"root@corp.example.net","user":"root"}`)) + "|" + nowS + "|" + c02Sign("secret", name, "x", nowS),
		strings.Repeat("A", 64) + "|" + nowS + "|" + strings.Repeat("A", 43) + "="}
	for _, v := range fab {
		for _, n := range []string{a.Name, name + "_0"} {
			if r.next() {
				r.judge("fabricated value "+clipMid(v, 40)+" under "+n, c02Header([]ck{{n, v}}), own[0], nil, false)
			}
		}
	}
}

// revive: after the cookie lifetime, editing only the timestamp must not resurrect an artefact.
func (r *c02Run) revive(m *c02Member) {
	if m.Expire <= 0 {
		return
	}
	world.Advance(m.Expire + time.Second)
	now := world.Now().Unix()
	for _, a := range m.arts {
		if !a.Full || a.Kind == "ticket" {
			continue // store entries of tickets are gone with their TTL: nothing to resurrect
		}
		ld := r.ownLoader(a)
		r.block(a, "revive-by-timestamp")
		if _, ok, _ := r.observe(ld, c02Header(a.Cookies)); ok {
			r.c.Inc("info_expired_artefact_still_loads") // C09's subject, not alarmed here
			continue
		}
		ts, _ := strconv.ParseInt(a.T, 10, 64)
		for _, t := range []int64{now, now - 1, now + 1, now + 299, now - int64(m.Expire/time.Second) + 1, ts + 2, ts + int64(m.Expire/time.Second), now - 60, now + 60} {
			if !r.next() {
				continue
			}
			hdr := c02Header(a.resplit(a.V + "|" + strconv.FormatInt(t, 10) + "|" + a.S))
			desc := fmt.Sprintf("expired artefact, timestamp %s -> %d, original signature", a.T, t)
			eval := func() (string, bool) {
				if _, ok, _ := r.observe(ld, hdr); ok {
					return "C02/timestamp-edit-revives-expired-credential", true
				}
				return "", false
			}
			k, bad := eval()
			r.c.Inc("evaluations")
			r.c.Distinct("distinct_nontrivial", fmt.Sprintf("%s|%s|revive|%x", m.Label, a.Label, c02Hash(hdr)))
			if bad {
				cs := c02Case{Member: m.Label, Artefact: a.Label, Class: r.class, Ord: r.ord, Loader: ld.ID, Desc: desc, Cookie: clipMid(hdr, 160), Expected: "rejected (the issued cookie is expired; the edited one was never issued)", Observed: "accepted"}
				r.c.confirm(k, fmt.Sprintf("%s / %s: %s: accepted although the unedited cookie is rejected as expired", m.Label, a.Label, desc), len(desc), cs, eval)
			} else {
				r.c.Inc("rejected")
				r.c.Inc("class:" + r.class + ":rejected")
			}
		}
	}
}

// ---------------------------------------------------------------------------------------------
// the run

func (r *c02Run) build(thorough bool) bool {
	c := r.c
	r.redis = world.NewRedis()
	expires := []time.Duration{0, time.Hour}
	for _, s := range c02Secrets(!thorough) {
		r.secrets = append(r.secrets, s.Value)
		if s.Sibling != "" {
			r.secrets = append(r.secrets, s.Sibling)
		}
		for _, e := range expires {
			for _, store := range []string{"cookie", "redis"} {
				m := &c02Member{Label: fmt.Sprintf("%s/expire=%s/%s", s.Label, e, store), Secret: s, Expire: e, Store: store}
				flags := []string{
					"--provider=oidc", "--oidc-issuer-url=" + world.Issuer, "--client-id=" + world.ClientID, "--client-secret=" + world.ClientSecret,
					"--http-address=-", "--upstream=" + r.up.URL(), "--cookie-secret=" + s.Value, "--cookie-expire=" + e.String(), "--cookie-refresh=0",
					"--email-domain=*", "--cookie-secure=false",
				}
				cfg := &ProxyCfg{Flags: flags}
				if store == "redis" {
					cfg.Redis = r.redis
					cfg.Flags = append(cfg.Flags, "--cookie-csrf-per-request=true")
				} else {
					cfg.Flags = append(cfg.Flags, "--code-challenge-method=S256")
				}
				px, err := buildProxy(cfg)
				if err != nil {
					c.Error("member %s: %v", m.Label, err)
					return false
				}
				m.px = px
				r.members = append(r.members, m)
			}
		}
	}
	return true
}

func (r *c02Run) issueAll(m *c02Member, thorough bool) {
	pair := func(a, b *c02Art) {
		if a != nil && b != nil {
			a.Partner, b.Partner = b, a
			a.Full = true
		}
	}
	kinds := []string{"tiny", "oidc", "binary-nonce", "unicode", "empty-groups"}
	if m.Store == "cookie" {
		kinds = append(kinds, "two-part")
		if thorough {
			kinds = append(kinds, "three-part")
		}
	} else {
		kinds = append(kinds, "three-part") // size is irrelevant for the ticket cookie, relevant for the Redis value scan
	}
	for _, k := range kinds {
		a := r.issueSaved(m, k+"-A", c02Session(k, "anna"))
		b := r.issueSaved(m, k+"-B", c02Session(k, "bert"))
		pair(a, b)
		if a != nil && m.Store == "cookie" {
			want := map[string]int{"two-part": 2, "three-part": 3}[k]
			if want != 0 && len(a.Cookies) != want {
				r.c.Error("%s: the %s session was issued in %d cookies", m.Label, k, len(a.Cookies))
			}
		}
	}
	// a one-cookie session whose encoded value has no '=' padding (digits of the timestamp can
	// then be appended to the value without breaking base64)
	if m.Store == "cookie" {
		for i := 0; i < 6; i++ {
			s := c02Session("tiny", "anna")
			s.User += strings.Repeat("z", i)
			a := r.issueSaved(m, fmt.Sprintf("tiny-unpadded-try%d", i), s)
			if a != nil && !strings.HasSuffix(a.V, "=") {
				a.Label = "tiny-unpadded"
				a.Full = true
				a.Partner = m.arts[0]
				if r.c.Shard == 0 {
					r.c.Inc("info_unpadded_value_artefacts")
				}
				break
			}
		}
	}
	sa, ca := r.issueLogin(m, "login-alice", "alice")
	sb, cb := r.issueLogin(m, "login-bob", "bob")
	pair(sa, sb)
	pair(ca, cb)
	// the same session saved twice must not produce the same ciphertext
	r.issueSaved(m, "tiny-A-again", c02Session("tiny", "anna"))
	r.ivReuse(m)
}

func c02SelfTest(c *Ctx) {
	// the leak scanner must see a session that is only compressed / only encoded
	s := c02Session("oidc", "selftest")
	n := newNeedles()
	n.addSession(s)
	for _, compress := range []bool{true, false} {
		enc, err := s.EncodeSessionState(c02PlainCipher{}, compress)
		if err != nil {
			c.Error("self-test encode: %v", err)
			return
		}
		raw := base64.URLEncoding.EncodeToString(enc) + "|1700000000|" + base64.URLEncoding.EncodeToString(make([]byte, 32))
		if n.scan(raw) == "" {
			c.Error("self-test: leak scanner does not see an unencrypted session (compress=%v)", compress)
		}
		if n.scan(string(enc)) == "" {
			c.Error("self-test: leak scanner does not see a raw unencrypted store value (compress=%v)", compress)
		}
	}
	tick := base64.URLEncoding.EncodeToString([]byte("v2." + base64.RawURLEncoding.EncodeToString([]byte(s.Email)) + ".c2VjcmV0"))
	if n.scan(tick+"|1|x") == "" {
		c.Error("self-test: leak scanner does not look inside nested encodings")
	}
	if hit := n.scan(base64.URLEncoding.EncodeToString([]byte(c02Filler("noise", 3000)))); hit != "" {
		c.Error("self-test: leak scanner fires on noise: %s", hit)
	}
	// the comparison must tell two sessions apart and must ignore the helpers
	a, b := c02Session("oidc", "anna"), c02Session("oidc", "anna")
	b.Lock = &sessions.NoOpLock{}
	if c02Snap(a) != c02Snap(b) {
		c.Error("self-test: snapshot depends on Lock")
	}
	b.Groups = append(b.Groups, "x")
	if c02Snap(a) == c02Snap(b) {
		c.Error("self-test: snapshot does not see a changed group list")
	}
	t2 := a.CreatedAt.Add(time.Nanosecond)
	b = c02Session("oidc", "anna")
	b.CreatedAt = &t2
	if c02Snap(a) == c02Snap(b) {
		c.Error("self-test: snapshot does not see a changed timestamp")
	}
	if c.Shard == 0 {
		c.Inc("self_tests_run")
	}
}

func c02Main(c *Ctx, filter *c02Case) string {
	thorough := !c.Quick()
	r := &c02Run{c: c, filter: filter, seenKey: map[string]bool{}, sibs: map[string]*c02Loader{}, mine: map[string]int{}, sampledRej: map[string]bool{}}
	r.idp = world.NewIdP()
	r.up = world.NewUpstream("u")
	defer r.up.Close()
	// issue at a whole virtual hour so that all shard processes stamp the same second
	world.Advance(world.Now().Truncate(time.Hour).Add(time.Hour).Sub(world.Now()))
	if filter == nil {
		c02SelfTest(c)
		if c.Shard == 0 {
			c02TailForgery(c, r.up)
			c02KeystreamReuse(c, r.up)
		}
	}
	if !r.build(thorough) {
		return "world could not be built"
	}
	defer r.redis.Close()
	sizes := map[string]int{}
	nArts, nFull := 0, 0
	for _, m := range r.members {
		if c.Expired() {
			break
		}
		r.issueAll(m, thorough)
		for _, a := range m.arts {
			nArts++
			if !a.Full {
				continue
			}
			nFull++
			if _, ok := sizes[a.Kind+":"+a.Label]; !ok {
				sizes[a.Kind+":"+a.Label] = len(a.Joined)
			}
			r.enumerate(a, thorough)
			if c.Expired() {
				break
			}
		}
		// every issued artefact must still load after all of this (nothing above may have damaged state)
		for _, a := range m.arts {
			if a.Full {
				r.block(a, "baseline")
				r.ord = 1
				if r.always() {
					r.try("unaltered, after the enumeration", a.Cookies, []*c02Loader{r.ownLoader(a)}, []*c02Art{a}, true)
				}
			}
		}
		r.revive(m)
	}
	if filter != nil {
		return fmt.Sprintf("%d evaluations, %d violations", c.Counters["evaluations"], len(c.Violations))
	}
	var secrets, members []string
	for _, s := range c02Secrets(!thorough) {
		secrets = append(secrets, fmt.Sprintf("%s(%d chars)", s.Label, len(s.Value)))
	}
	for _, m := range r.members {
		members = append(members, m.Label)
	}
	c.Info["alphabet"] = map[string]any{
		"secrets": secrets, "cookie_expire": []string{"0", "1h"}, "stores": []string{"cookie (CSRF fixed name, PKCE)", "redis (CSRF per-request name)"},
		"members": len(members), "artefacts_issued_per_shard": nArts, "artefacts_fully_enumerated_per_shard": nFull,
		"substitution_classes": mutClasses, "insertion_classes": c02InsertClasses, "ts_sig_alphabet_size": len(c02B64Alphabet) + 7,
		"artefact_value_chars_first_member": sizes,
	}
	// non-vacuity, per shard
	if c.Counters["rejected"] == 0 {
		c.Error("vacuous: no alteration was rejected in shard %d", c.Shard)
	}
	if r.baselineOK < 2*nFull && c.Exhaustive {
		c.Error("vacuous: only %d of %d baseline loads of unaltered artefacts succeeded in shard %d", r.baselineOK, 2*nFull, c.Shard)
	}
	if r.scans[0] == 0 || r.scans[1] == 0 || r.scans[2] == 0 {
		c.Error("vacuous: leak scan did not run (scans %d, redis entries %d, iv pairs %d)", r.scans[0], r.scans[1], r.scans[2])
	}
	c.SetMax("cases_enumerated_per_shard_max", r.total)
	if c.Exhaustive {
		for cl, n := range r.mine {
			seen := c.Counters["class:"+cl+":rejected"] + c.Counters["class:"+cl+":accepted_same"] + c.Counters["class:"+cl+":violating"]
			if n >= 40 && seen == 0 {
				c.Error("vacuous: class %s had %d cases in shard %d but produced no outcome", cl, n, c.Shard)
			}
			if n >= 40 && cl != "header" && cl != "baseline" && c.Counters["class:"+cl+":rejected"] == 0 && c.Counters["class:"+cl+":violating"] == 0 {
				c.Error("vacuous: class %s never saw a rejection in shard %d (%d cases)", cl, c.Shard, n)
			}
		}
		for _, k := range []string{"session-cookie", "ticket", "csrf"} {
			found := false
			for _, m := range r.members {
				for _, a := range m.arts {
					if a.Full && a.Kind == k {
						found = true
					}
				}
			}
			if !found {
				c.Error("vacuous: no artefact of kind %s was enumerated", k)
			}
		}
	}
	return ""
}

func init() {
	register(&checkDef{
		id:    "C02",
		level: "exploration",
		rule:  "per (secret x cookie-expire x store) proxy: issued session cookies (tiny, OIDC-sized, binary nonce, Unicode, empty groups, unpadded, 2-part, thorough: 3-part, real logins), Redis ticket cookies, CSRF cookies (fixed / per-request name) x complete classes of alterations: substitution at every position x 8 character classes, whole alphabet at every timestamp/signature position, truncation to every length, deletion/insertion at every position, re-splitting at every position, extensions and re-encodings, timestamp edits, re-signing with every other secret, all field splices of two artefacts (and of ticket internals), all part sequences of length <= parts+1 over the parts of two artefacts, transplants to every loader of every deployment (other name, other secret string with the same AES key, other store, CSRF<->session), every MAC-input-preserving move of the name/value/timestamp boundaries, fabricated values; decided by SessionStore.Load / LoadCSRFCookie on a request parsed from raw bytes (accepted and every 53rd rejected case also through ServeHTTP /oauth2/userinfo); plus leak scan of every Set-Cookie value and raw Redis key/value and ciphertext-prefix reuse scan; plus save sequences (c02_save_test.go): per deployment every (saving request: login callback, refresh, htpasswd form login, SessionStore.Save 1-part/2-part, sign-out, callback with planted CSRF cookie) x (planted value: forged ticket with new / existing ID, credential of another deployment, live / expired credential of a bystander) x 7 timestamp ages x 7 signatures x placement (name, name_0, split) x header order, each a fresh sequence through ServeHTTP: the issued credential is the user's, shares no value / signature / ticket ID / ticket key with a planted cookie that does not load, no written store entry is named in or opens with a key-sized window of the planted cookie, the planted cookie still does not load alone or next to the issued one, a bystander's credential is unaffected, an unverifiable CSRF cookie completes no login. distinct_nontrivial = distinct (proxy, artefact, loader, altered Cookie header) that differ from the issued header and are non-empty, plus distinct save sequences in which a cookie that is not a live credential was presented while a credential or store entry was written (or a login with an unverifiable CSRF cookie was refused)",
		assumptions: []string{
			"sentence 1 governs alterations presented to the issuing proxy's loader of the same kind (rejected, or equal to the issued artefact); accepted-equal cases whose text differs from the issued cookie are counted as ambiguous (a literal reading of sentence 2 would forbid them) and cannot fail",
			"sentence 2 governs everything a loader did not issue: other kind, other cookie name, other secret string, fabricated values: any acceptance is a violation",
			"a deployment 'with another cookie name / secret string' is modelled by a session store constructed through the repository's exported constructors from a copy of the proxy's cookie options",
			"equality = all exported fields of the loaded value except Clock and Lock; times compared as instants; nil and empty lists equal",
			"a panic inside a loader counts as a rejection here (crashes are C19's subject) and is listed in the notes",
			"timestamp edits that are accepted while the unedited cookie is also acceptable are admissible (lifetime is C09's subject); only resurrection of an expired cookie by a timestamp edit is alarmed, under its own key",
			"RSA keys are generated per process, so token bytes differ between shard processes; case numbering depends on positions only, every shard enumerates its residue class on its own structurally identical artefacts",
			"save sequences: a planted cookie that is an unaltered credential of the same proxy inside its lifetime may be re-used by a save (documented: 'generate (or reuse an existing) ticket'): counted ambiguous, never alarmed; an unaltered but expired credential taken up again by a save is counted (save_takes_up_unaltered_credential_that_does_not_load) and not alarmed (lifetime is C09's subject); every other planted cookie was never produced by the proxy in that form and must leave no trace in what the proxy issues or stores",
			"save sequences: cookies planted by a third party stay in the browser next to the issued ones (another Domain/Path attribute), so both header orders of planted+issued are presented afterwards",
			"leak scan needles: every 12-byte window of every token, e-mail, user name, group, nonce, CSRF state/nonce/verifier and of the cookie secret (6..11-byte strings whole); strings shorter than 6 bytes are not searched",
		},
		shards: func(tier string) int { return 16 },
		run:    func(c *Ctx) { concRunFor(c, "C02"); c02Main(c, nil); c02SaveMain(c, nil) },
		post:   func(c *Ctx) { c02ForgeryNonVacuity(c); c02SaveNonVacuity(c) },
		replay: func(c *Ctx, raw json.RawMessage) string {
			if out, ok := concReplayFor(c, "C02", raw); ok {
				return out
			}
			if out, ok := c02SaveReplay(c, raw); ok {
				return out
			}
			var cs c02Case
			if err := json.Unmarshal(raw, &cs); err != nil || cs.Class == "" {
				return "the recorded case is not an alteration case (leak / reuse findings are re-found by re-running the check)"
			}
			return c02Main(c, &cs)
		},
	})
}
