//go:build verif

package main

import (
	"encoding/json"
	"fmt"
	"github.com/oauth2-proxy/oauth2-proxy/v7/providers"
	"net/url"
	"os"
	"path/filepath"
	"regexp"
	"sort"
	"strings"

	"github.com/oauth2-proxy/oauth2-proxy/v7/verifx/world"
)

// C08 — authorisation rules are enforced on every request, not only at login (PROD + SEQ).
//
// Every case is "a credential obtained under rules R1 is presented to a proxy running rules R2"
// (R1 = R2 for plain requests, R1 != R2 for rule changes); the observation is compared with a
// reference model written from the property statement and DESIGN.md Appendix B.

// ---------------------------------------------------------------------------------------------
// reference model

// c08Rules is one global rule configuration.
type c08Rules struct {
	Domains []string `json:"email_domains,omitempty"`
	File    []string `json:"emails_file_lines,omitempty"` // nil = no file configured
	HasFile bool     `json:"emails_file,omitempty"`
	Groups  []string `json:"allowed_groups,omitempty"`
	// GroupsVia names the configuration path of the allowed groups (and of the htpasswd user groups):
	// "" = command line flags, "struct" = the options structure, "toml" = configuration file,
	// "alpha" = alpha configuration file (see c08_inputs_test.go).
	GroupsVia    string `json:"allowed_groups_via,omitempty"`
	ReverseProxy bool   `json:"reverse_proxy,omitempty"`
}

func (r *c08Rules) String() string {
	s := "domains=" + strings.Join(r.Domains, ",")
	if r.HasFile {
		s += " file=[" + strings.Join(r.File, "|") + "]"
	}
	if r.GroupsVia != "" {
		s += fmt.Sprintf(" groups(via %s)=%q", r.GroupsVia, r.Groups)
	} else if len(r.Groups) > 0 {
		s += " groups=" + strings.Join(r.Groups, ",")
	}
	if r.ReverseProxy {
		s += " reverse-proxy"
	}
	return s
}

// c08V is a verdict under the strictest (S) and the loosest (L) reading the statement admits;
// S implies L. "must" = S, "must not" = !L, anything else is ambiguous and cannot fail.
type c08V struct{ S, L bool }

var c08Yes, c08No = c08V{true, true}, c08V{}

func c08B(b bool) c08V         { return c08V{b, b} }
func (a c08V) and(b c08V) c08V { return c08V{a.S && b.S, a.L && b.L} }
func (a c08V) or(b c08V) c08V  { return c08V{a.S || b.S, a.L || b.L} }
func (a c08V) String() string {
	switch {
	case a.S:
		return "allow"
	case !a.L:
		return "deny"
	}
	return "either"
}

// canonical lower-case address: the converse ("is served") is asserted only for these
var c08CanonRE = regexp.MustCompile(`^[a-z0-9][a-z0-9.+_-]*@[a-z0-9-]+(\.[a-z0-9-]+)*$`)

func c08Canonical(email string) bool { return c08CanonRE.MatchString(email) }

// c08LooseDomains lists every string that some admissible reading takes as "the domain" of the
// address: the text after the last '@' (the whole text when there is none), lower-cased, with or
// without trailing dots; for the auth-only constraint (documented with the host syntax of the
// whitelist, Appendix B) also without a numeric/empty ":port" and without brackets.
func c08LooseDomains(email string, hostSyntax bool) []string {
	l := strings.ToLower(email)
	d := l
	if i := strings.LastIndex(l, "@"); i >= 0 {
		d = l[i+1:]
	}
	out := []string{d}
	add := func(s string) {
		for _, o := range out {
			if o == s {
				return
			}
		}
		out = append(out, s)
	}
	add(strings.TrimRight(d, "."))
	if hostSyntax {
		h := d
		if i := strings.LastIndex(h, ":"); i >= 0 && strings.Trim(h[i+1:], "0123456789") == "" {
			h = h[:i]
		}
		h = strings.TrimSuffix(strings.TrimPrefix(h, "["), "]")
		add(h)
		add(strings.TrimRight(h, "."))
	}
	return out
}

// c08EntryMatch: entry `h` matches the domain h; `.h` and `*.h` match strict sub-domains of h
// (the apex h, and the degenerate ".h", only under the loose reading).
func c08EntryMatch(entry, dom string, loose bool) bool {
	base, wild := entry, false
	if strings.HasPrefix(entry, "*.") {
		base, wild = entry[2:], true
	} else if strings.HasPrefix(entry, ".") {
		base, wild = entry[1:], true
	}
	if base == "" {
		return false
	}
	if !wild {
		return dom == base
	}
	if strings.HasSuffix(dom, "."+base) && len(dom) > len(base)+1 {
		return true
	}
	return loose && (dom == base || dom == "."+base)
}

// c08EmailAllowed is the global e-mail rule (e-mail domains + authenticated-e-mails file).
func c08EmailAllowed(r *c08Rules, email string, atLogin bool) c08V {
	if email == "" {
		// never valid at a provider login; exempt afterwards (htpasswd sessions)
		return c08B(!atLogin)
	}
	for _, d := range r.Domains {
		if d == "*" {
			return c08Yes
		}
	}
	canon := c08Canonical(email)
	lower := strings.ToLower(email)
	v := c08No
	for _, line := range r.File { // documented: one e-mail per line
		t := strings.TrimSpace(line)
		if t == "" || strings.HasPrefix(t, "#") {
			continue
		}
		if strings.ToLower(t) == lower {
			v = v.or(c08V{canon, true})
		}
	}
	for _, d := range r.Domains {
		d = strings.ToLower(d)
		if canon && c08EntryMatch(d, lower[strings.LastIndex(lower, "@")+1:], false) {
			v = c08Yes
		}
		for _, ld := range c08LooseDomains(email, false) {
			if c08EntryMatch(d, ld, true) {
				v.L = true
			}
		}
	}
	return v
}

func c08Intersect(allowed, have []string) bool {
	for _, a := range allowed {
		for _, h := range have {
			if a == h {
				return true
			}
		}
	}
	return false
}

// c08GroupAllowed: no allowed groups configured, or exact-string intersection of whole names
// (a configured name is one name, whatever characters it is made of). Whether a configured empty
// name counts as a configured group is not said anywhere: both readings.
func c08GroupAllowed(allowed, have []string) c08V {
	var nonEmpty []string
	for _, a := range allowed {
		if a != "" {
			nonEmpty = append(nonEmpty, a)
		}
	}
	v1 := len(allowed) == 0 || c08Intersect(allowed, have)
	v2 := len(nonEmpty) == 0 || c08Intersect(nonEmpty, have)
	return c08V{v1 && v2, v1 || v2}
}

// c08QueryGroups: the allowed_groups items of the auth-only query against the session's groups.
// The documentation says "comma separated list of allowed groups": items are whole names compared
// verbatim; whether blanks around an item (or around a group) belong to the name is left open, so
// the readings verbatim / items trimmed / both trimmed are all admitted.
func c08QueryGroups(items, groups []string) c08V {
	trim := func(in []string, dropEmpty bool) (out []string) {
		for _, s := range in {
			if t := strings.TrimSpace(s); t != "" || !dropEmpty {
				out = append(out, t)
			}
		}
		return out
	}
	ti := trim(items, true)
	r1 := len(items) == 0 || c08Intersect(items, groups)
	r2 := len(ti) == 0 || c08Intersect(ti, groups)
	r3 := len(ti) == 0 || c08Intersect(ti, trim(groups, false))
	return c08V{r1 && r2 && r3, r1 || r2 || r3}
}

// c08Items: union of the comma-separated non-empty items of every occurrence of key.
// splitFirst chooses between the two readings of an encoded comma (%2C): separator or data.
// malformed reports a pair that cannot be decoded (its meaning is not defined anywhere).
func c08Items(rawQuery, key string, splitFirst bool) (items []string, malformed bool) {
	for _, pair := range strings.Split(rawQuery, "&") {
		if pair == "" {
			continue
		}
		if strings.Contains(pair, ";") {
			malformed = true
			continue
		}
		k, v, _ := strings.Cut(pair, "=")
		dk, err := url.QueryUnescape(k)
		if err != nil {
			malformed = true
			continue
		}
		if dk != key {
			if _, err := url.QueryUnescape(v); err != nil {
				malformed = true
			}
			continue
		}
		var parts []string
		if splitFirst {
			for _, p := range strings.Split(v, ",") {
				dp, err := url.QueryUnescape(p)
				if err != nil {
					malformed = true
					continue
				}
				parts = append(parts, dp)
			}
		} else {
			dv, err := url.QueryUnescape(v)
			if err != nil {
				malformed = true
				continue
			}
			parts = strings.Split(dv, ",")
		}
		for _, p := range parts {
			if p != "" {
				items = append(items, p)
			}
		}
	}
	return items, malformed
}

// c08AuthOnly evaluates the three query constraints of the auth-only endpoint; why names the
// constraints that fail under every reading.
func c08AuthOnly(rawQuery, email string, groups []string) (v c08V, why string) {
	v = c08V{true, false}
	failAll := map[string]bool{"groups": true, "emails": true, "domains": true}
	for _, splitFirst := range []bool{false, true} {
		r := c08Yes
		bad := false
		gi, m := c08Items(rawQuery, "allowed_groups", splitFirst)
		bad = bad || m
		g := c08QueryGroups(gi, groups)
		ei, m := c08Items(rawQuery, "allowed_emails", splitFirst)
		bad = bad || m
		e := c08Yes
		if len(ei) > 0 {
			e = c08No
			for _, it := range ei {
				if it == email {
					e = c08Yes
				} else if strings.EqualFold(it, email) {
					e.L = true
				}
			}
		}
		di, m := c08Items(rawQuery, "allowed_email_domains", splitFirst)
		bad = bad || m
		d := c08Yes
		if len(di) > 0 {
			d = c08No
			for _, it := range di {
				if c08Canonical(email) && c08EntryMatch(it, email[strings.LastIndex(email, "@")+1:], false) {
					d = c08Yes
				}
				if it == "*" { // not documented as a wildcard here, but a reader may expect it
					d.L = true
				}
				lit := strings.ToLower(it)
				if i := strings.LastIndex(lit, ":"); i >= 0 {
					lit = lit[:i]
				}
				for _, ld := range c08LooseDomains(email, true) {
					if c08EntryMatch(lit, ld, true) {
						d.L = true
					}
				}
			}
		}
		r = g.and(e).and(d)
		if bad {
			r.S = false // refusing an undecodable query is admissible
		}
		v.S = v.S && r.S
		v.L = v.L || r.L
		if g.L {
			failAll["groups"] = false
		}
		if e.L {
			failAll["emails"] = false
		}
		if d.L {
			failAll["domains"] = false
		}
	}
	var w []string
	for _, k := range []string{"groups", "emails", "domains"} {
		if failAll[k] {
			w = append(w, k)
		}
	}
	return v, strings.Join(w, "+")
}

// c08Exp is the expectation for one presentation of a credential.
type c08Exp struct {
	Email  c08V
	Groups c08V
	AO     c08V
	AOWhy  string
	Canon  bool
}

func (x c08Exp) global() c08V { return x.Email.and(x.Groups) }
func (x c08Exp) served() c08V { return x.global().and(x.AO) }
func (x c08Exp) why() string {
	switch {
	case !x.Email.L:
		return "email-rule"
	case !x.Groups.L:
		return "allowed-groups"
	case !x.AO.L:
		return "authonly-" + x.AOWhy
	}
	return "none"
}
func (x c08Exp) String() string {
	return fmt.Sprintf("email:%v groups:%v authonly:%v => %v", x.Email, x.Groups, x.AO, x.served())
}

func c08Expect(r *c08Rules, email string, groups []string, target string, atLogin bool) c08Exp {
	x := c08Exp{Email: c08EmailAllowed(r, email, atLogin), Groups: c08GroupAllowed(r.Groups, groups), AO: c08Yes,
		Canon: email == "" || c08Canonical(email)}
	if pathOf(target) == "/oauth2/auth" {
		if i := strings.Index(target, "?"); i >= 0 {
			x.AO, x.AOWhy = c08AuthOnly(target[i+1:], email, groups)
		}
	}
	return x
}

// ---------------------------------------------------------------------------------------------
// alphabets

func c08Emails(quick bool) []string {
	locals := []string{"alice", "alice+tag", "eve@example.com", "eve@sub.example.com", `"al ice"`}
	domains := []string{"example.com", "sub.example.com", "evilexample.com", "example.com.evil", "Example.COM",
		"example.com.", "", "other.org", "a.b.example.com", ".example.com"}
	specials := []string{"", "sub.example.com", "@example.com", "Alice@example.com", "bob@other.org"}
	if !quick {
		locals = append(locals, "ALICE", "a.b", `"eve@evil.org"`, "bob")
		domains = append(domains, "example.co", "ample.com", "com", "example.org", "sub.other.org", "EVILEXAMPLE.COM",
			"example.com..", "example.com:443", "[example.com]", "example.com:", "sub-example.com", "example.com@")
		specials = append(specials, "example.com", "alice", "@", "alice@@example.com")
	}
	seen := map[string]bool{}
	var out []string
	add := func(s string) {
		if !seen[s] {
			seen[s] = true
			out = append(out, s)
		}
	}
	for _, l := range locals {
		for _, d := range domains {
			add(l + "@" + d)
		}
	}
	for _, s := range specials {
		add(s)
	}
	return out
}

// c08GroupSet: the groups claim of an identity (NoClaim: claim absent).
type c08GroupSet struct {
	G       []string
	NoClaim bool
}

func c08SessionGroups(quick bool) []c08GroupSet {
	out := []c08GroupSet{{NoClaim: true}, {G: []string{}}, {G: []string{"staff"}}, {G: []string{"guests"}},
		{G: []string{"guests", "staff"}}, {G: []string{"staffx"}}, {G: []string{"Staff"}},
		// so many groups that the session needs several cookies (none of them under the bare cookie name)
		{G: append(c18BigGroups(), "outsiders")}}
	if !quick {
		out = append(out, c08GroupSet{G: []string{"admins"}}, c08GroupSet{G: []string{"staff,admins"}},
			c08GroupSet{G: []string{""}}, c08GroupSet{G: []string{"sta", "ff"}})
	}
	return out
}

func c08DomainSets(quick bool) [][]string {
	out := [][]string{nil, {"example.com"}, {".example.com"}, {"*.example.com"}, {"*"}, {"example.com", "other.org"},
		{"Example.COM"}, {"sub.example.com"}, {".example.com", "example.com"}, {"other.org", "*"}}
	if !quick {
		out = append(out, []string{"com"}, []string{".com"}, []string{"*.sub.example.com"}, []string{"evil"}, []string{".Example.Com", "OTHER.org"})
	}
	return out
}

func c08Files(quick bool) [][]string {
	out := [][]string{nil,
		{"alice@example.com"},
		{"# staff", "Alice@Example.COM", "", "bob@other.org", "alice+tag@sub.example.com"},
		{"eve@example.com@other.org", "alice@evilexample.com", "#alice@example.com.evil"}}
	if !quick {
		out = append(out, []string{}, []string{"alice@example.com.", "ALICE@OTHER.ORG", "a.b@example.org"})
	}
	return out
}

func c08AllowedGroups(quick bool) [][]string {
	out := [][]string{nil, {"staff"}, {"staff", "admins"}, {"guests"}}
	if !quick {
		out = append(out, []string{"Staff"}, []string{"sta"})
	}
	return out
}

func c08Configs(quick bool) []c08Rules {
	var out []c08Rules
	for _, d := range c08DomainSets(quick) {
		for _, f := range c08Files(quick) {
			for _, g := range c08AllowedGroups(quick) {
				out = append(out, c08Rules{Domains: d, File: f, HasFile: f != nil, Groups: g})
			}
		}
	}
	return out
}

var c08Endpoints = []string{"/page", "/oauth2/auth", "/oauth2/userinfo"}

func c08Queries(quick bool) (all []string, sizes map[string]int) {
	gq := []string{"", "allowed_groups=staff", "allowed_groups=guests", "allowed_groups=other&allowed_groups=staff",
		"allowed_groups=other,staff", "allowed_groups=,,staff,", "allowed_groups=", "allowed_groups=,", "allowed_groups=staffx",
		"allowed_groups=other%2Cstaff"}
	eq := []string{"", "allowed_emails=alice@example.com", "allowed_emails=bob@other.org,alice@example.com",
		"allowed_emails=&allowed_emails=alice%40example.com", "allowed_emails=Alice@Example.COM",
		"allowed_emails=alice%2Btag@example.com", "allowed_emails=alice+tag@example.com", "allowed_emails=example.com"}
	dq := []string{"", "allowed_email_domains=example.com", "allowed_email_domains=.example.com", "allowed_email_domains=*.example.com",
		"allowed_email_domains=other.org,example.com", "allowed_email_domains=&allowed_email_domains=sub.example.com",
		"allowed_email_domains=evil.org", "allowed_email_domains=EXAMPLE.COM", "allowed_email_domains=com",
		"allowed_email_domains=*", "allowed_email_domains=,"}
	extra := []string{"x=1&allowed_groups=staff", "allowed_groups=staff&rd=/x", "allowed_groups=staff%zz",
		"allowed_groups=other;allowed_groups=staff", "Allowed_Groups=staff"}
	seen := map[string]bool{}
	add := func(parts ...string) {
		var ne []string
		for _, p := range parts {
			if p != "" {
				ne = append(ne, p)
			}
		}
		q := strings.Join(ne, "&")
		if !seen[q] {
			seen[q] = true
			all = append(all, q)
		}
	}
	for _, g := range gq {
		add(g)
	}
	for _, e := range eq {
		add(e)
	}
	for _, d := range dq {
		add(d)
	}
	for _, x := range extra {
		add(x)
	}
	ng, ne, nd := 3, 3, 3
	if !quick {
		ng, ne, nd = len(gq), len(eq), len(dq)
	}
	for _, g := range gq[:ng] {
		for _, e := range eq[:ne] {
			for _, d := range dq[:nd] {
				add(g, e, d)
			}
		}
	}
	for _, g := range gq[:3] { // parameter order must not matter
		for _, e := range eq[:3] {
			for _, d := range dq[:3] {
				add(d, g, e)
			}
		}
	}
	return all, map[string]int{"allowed_groups_forms": len(gq), "allowed_emails_forms": len(eq), "allowed_email_domains_forms": len(dq),
		"other_forms": len(extra), "product": ng * ne * nd, "reordered_product": 27, "queries": len(all)}
}

// the 6-rule alphabet of the rule-change histories
var c08HistoryRules = []c08Rules{
	{Domains: []string{"*"}},
	{Domains: []string{"example.com"}},
	{Domains: []string{".example.com"}, Groups: []string{"staff"}},
	{File: []string{"alice@example.com", "bob@other.org"}, HasFile: true},
	{Domains: []string{"sub.example.com"}, File: []string{"bob@other.org"}, HasFile: true},
	{Domains: []string{"example.com", "other.org"}, Groups: []string{"guests"}},
}

var c08SmallEmails = []string{"alice@example.com", "alice@sub.example.com", "alice@evilexample.com", "alice@example.com.evil",
	"eve@example.com@other.org", "bob@other.org", "alice@Example.COM", "alice+tag@example.com", "sub.example.com", "alice@a.b.example.com"}
var c08SmallGroups = []c08GroupSet{{NoClaim: true}, {G: []string{"staff"}}, {G: []string{"guests"}}}

// ---------------------------------------------------------------------------------------------
// cases and their execution

// c08Case is one case, complete enough to be replayed from nothing.
type c08Case struct {
	Part     string    `json:"part"`
	Source   string    `json:"source"` // oidc-cookie | htpasswd-form | htpasswd-basic | bearer
	Login    *c08Rules `json:"rules_at_login,omitempty"`
	Rules    c08Rules  `json:"rules_at_request"`
	Email    string    `json:"email"`
	Groups   []string  `json:"groups"`
	NoClaim  bool      `json:"groups_claim_absent,omitempty"`
	HtGroups []string  `json:"htpasswd_user_groups,omitempty"`
	Target   string    `json:"target"` // "" = the case is the login itself
	// the request that presents the credential (defaults: GET, no body, no further headers)
	Method   string      `json:"method,omitempty"`
	Body     string      `json:"body,omitempty"`
	Hdr      [][2]string `json:"extra_headers,omitempty"`
	Variant  string      `json:"variant,omitempty"`
	Redis    bool        `json:"redis,omitempty"`
	Expected string      `json:"expected"`
	Observed string      `json:"observed"`
}

func (cs *c08Case) key() string {
	l := ""
	if cs.Login != nil {
		l = cs.Login.String()
	}
	k := fmt.Sprintf("%s|%s|%s|%s|%q|%q|%v|%q|%s|%v", cs.Part, cs.Source, l, cs.Rules.String(), cs.Email, cs.Groups, cs.NoClaim, cs.HtGroups, cs.Target, cs.Redis)
	if cs.Method != "" || cs.Body != "" || len(cs.Hdr) > 0 {
		k += fmt.Sprintf("|%s|%q|%q", cs.Method, cs.Body, cs.Hdr)
	}
	return k
}

func (cs *c08Case) reqLine() string {
	m := cs.Method
	if m == "" {
		m = "GET"
	}
	s := m + " " + cs.Target
	if cs.Variant != "" {
		s += " [" + cs.Variant + "]"
	}
	if len(cs.Hdr) > 0 {
		s += fmt.Sprintf(" headers %q", cs.Hdr)
	}
	if cs.Body != "" {
		s += fmt.Sprintf(" body %q", cs.Body)
	}
	return s
}

const c08Host = "app.example.com"

var c08PartRE = regexp.MustCompile(`^_oauth2_proxy(_\d+)?$`)

func c08HasSession(b *Browser) bool {
	for _, ck := range b.Jar.For(b.Scheme, b.Host, "/page") {
		if c08PartRE.MatchString(ck.Name) {
			return true
		}
	}
	return false
}

type c08Env struct {
	c      *Ctx
	idp    *world.IdP
	up     *world.Upstream
	n      int
	file   string
	htfile string
	users  map[string]string
	seen   map[string]int
	redis  *world.Redis
	last   c08Obs // observation of the most recent presentation (exec)
}

func newC08Env(c *Ctx) *c08Env {
	e := &c08Env{c: c, idp: world.NewIdP(), up: world.NewUpstream("u"), users: map[string]string{}, seen: map[string]int{}}
	e.file = filepath.Join(scratch(), fmt.Sprintf("c08-emails-%d", c.Shard))
	e.htfile = writeHtpasswd(map[string]string{"hal": "pw1"})
	return e
}

func (e *c08Env) close() {
	e.up.Close()
	if e.redis != nil {
		e.redis.Close()
	}
}

func (e *c08Env) mine() bool { e.n++; return e.c.Mine(e.n) }

func (e *c08Env) trim() {
	e.idp.Calls, e.idp.AuthLog = nil, nil
	e.idp.Auths = map[string]*world.AuthRequest{}
	e.up.Take()
}

func (e *c08Env) user(cs *c08Case) string {
	k := fmt.Sprintf("%q|%q|%v", cs.Email, cs.Groups, cs.NoClaim)
	if n, ok := e.users[k]; ok {
		return n
	}
	n := fmt.Sprintf("u%d", len(e.users))
	u := &world.User{Sub: n + "-sub", Email: cs.Email, EmailVerified: true}
	if !cs.NoClaim {
		g := cs.Groups
		if g == nil {
			g = []string{}
		}
		u.Groups = g
	}
	e.idp.Users[n] = u
	e.users[k] = n
	return n
}

// build constructs a proxy for rule set r (the e-mails file is always the same path, rewritten).
func (e *c08Env) build(r *c08Rules, cs *c08Case) (*Proxy, error) {
	flags := append(baseFlags(e.up.URL()), "--cookie-secure=false")
	for _, d := range r.Domains {
		flags = append(flags, "--email-domain="+d)
	}
	if r.HasFile {
		if err := os.WriteFile(e.file, []byte(strings.Join(r.File, "\n")+"\n"), 0o600); err != nil {
			return nil, err
		}
		flags = append(flags, "--authenticated-emails-file="+e.file)
	}
	if r.ReverseProxy {
		flags = append(flags, "--reverse-proxy=true")
	}
	ht := strings.HasPrefix(cs.Source, "htpasswd")
	if ht {
		flags = append(flags, "--htpasswd-file="+e.htfile)
	}
	if cs.Source == "bearer" {
		flags = append(flags, "--skip-jwt-bearer-tokens=true")
	}
	if r.GroupsVia != "" {
		var htg []string
		if ht {
			htg = cs.HtGroups
		}
		return c08BuildVia(r.GroupsVia, flags, r.Groups, htg)
	}
	for _, g := range r.Groups {
		flags = append(flags, "--allowed-group="+g)
	}
	if ht {
		for _, g := range cs.HtGroups {
			flags = append(flags, "--htpasswd-user-group="+g)
		}
	}
	cfg := &ProxyCfg{Flags: flags}
	if cs.Redis {
		if e.redis == nil {
			e.redis = world.NewRedis()
		}
		cfg.Redis = e.redis
	}
	return buildProxy(cfg)
}

type c08Obs struct {
	Status, Hits             int
	Served, Refused, Cleared bool
	Panic                    string
}

func (o c08Obs) String() string {
	return fmt.Sprintf("status=%d upstream_hits=%d served=%v session_cookie_left=%v panic=%q", o.Status, o.Hits, o.Served, !o.Cleared, o.Panic)
}

func (e *c08Env) request(px *Proxy, jar *world.Jar, target string, hdr [][2]string) c08Obs {
	return e.requestAs(px, jar, &c08Case{Target: target}, hdr)
}

// requestAs presents the credential with the method, body and further headers of the case.
func (e *c08Env) requestAs(px *Proxy, jar *world.Jar, cs *c08Case, hdr [][2]string) c08Obs {
	b := newBrowser(px, "http", c08Host)
	if jar != nil {
		b.Jar = jar.Clone()
	}
	e.up.Take()
	method := cs.Method
	if method == "" {
		method = "GET"
	}
	r := b.Req(method, cs.Target, append(append([][2]string{}, hdr...), cs.Hdr...)...)
	r.Body = cs.Body
	resp := b.Do(r)
	o := c08Obs{Status: resp.Status, Hits: len(e.up.Take())}
	if resp.Panic != nil {
		o.Panic = fmt.Sprint(resp.Panic)
	}
	o.Served = o.Hits > 0 || (resp.Status >= 200 && resp.Status < 300)
	o.Refused = o.Hits == 0 && (resp.Status == 401 || resp.Status == 403)
	o.Cleared = !c08HasSession(b)
	return o
}

// c08Pre carries what the bulk enumeration has already built (nil fields are built from the case).
type c08Pre struct {
	loginPx, px *Proxy
	jar         *world.Jar
}

// exec runs one case and returns the finding key ("" = consistent with the reference), a
// message, and the expectation class.
func (e *c08Env) exec(cs *c08Case, pre *c08Pre) (key, msg, class string) {
	if pre == nil {
		pre = &c08Pre{}
	}
	ht := strings.HasPrefix(cs.Source, "htpasswd")
	email, groups := cs.Email, cs.Groups
	if ht {
		email, groups = "", cs.HtGroups
	}
	jar := pre.jar
	var hdr [][2]string
	switch cs.Source {
	case "oidc-cookie", "htpasswd-form", "synthetic-provider-cookie":
		if jar != nil {
			break
		}
		lp := pre.loginPx
		if lp == nil {
			var err error
			if lp, err = e.build(cs.Login, cs); err != nil {
				return "", "build(login rules): " + err.Error(), "invalid-config"
			}
		}
		b := newBrowser(lp, "http", c08Host)
		var lresp *world.Resp
		if ht {
			lresp = b.PostForm("/oauth2/sign_in", url.Values{"username": {"hal"}, "password": {"pw1"}, "rd": {"/page"}})
		} else {
			var err error
			user := e.user(cs)
			if cs.Source == "synthetic-provider-cookie" {
				// the identity comes straight from a provider (see c08_synth_test.go); the browser still goes
				// through start, the provider's authorisation endpoint and the callback
				restore, serr := verifSetProvider(lp.P, func(real providers.Provider) providers.Provider {
					return &c08SynthProvider{Provider: real, email: email, groups: groups}
				})
				if serr != nil {
					return "", serr.Error(), "harness-error"
				}
				defer restore()
				user = "alice"
			}
			if lresp, _, err = b.Login(e.idp, user, "/page"); err != nil {
				return "", "login could not be started: " + err.Error(), "harness-error"
			}
		}
		has := c08HasSession(b)
		if cs.Target == "" {
			return e.judgeLogin(cs, lp, b, lresp, has, c08Expect(cs.Login, email, groups, "", !ht), ht)
		}
		if !has {
			return "", "", "no-session"
		}
		jar = b.Jar
	case "htpasswd-basic":
		hdr = [][2]string{{"Authorization", basicAuth("hal", "pw1")}}
	case "bearer":
		hdr = [][2]string{{"Authorization", "Bearer " + e.idp.MintIDToken(e.idp.Users[e.user(cs)], nil)}}
	}
	px := pre.px
	if px == nil {
		var err error
		if px, err = e.build(&cs.Rules, cs); err != nil {
			return "", "build(request rules): " + err.Error(), "invalid-config"
		}
	}
	o := e.requestAs(px, jar, cs, hdr)
	e.last = o
	x := c08Expect(&cs.Rules, email, groups, cs.Target, false)
	cs.Expected, cs.Observed = x.String(), o.String()
	sv := x.served()
	switch {
	case o.Panic != "":
		return "C08/panic", "request panicked: " + o.Panic, "panic"
	case !sv.L:
		class = "refuse"
		if !x.global().L {
			class = "refuse-global"
		}
		switch {
		case o.Served:
			key = "C08/served-despite-" + x.why()
		case !o.Refused:
			key = "C08/refusal-not-401-403"
		case !x.global().L && jar != nil && !o.Cleared:
			key = "C08/cookie-not-cleared"
		}
	case sv.S && x.Canon:
		class = "serve"
		if !o.Served {
			key = "C08/valid-session-refused"
		}
	default:
		class = "ambiguous"
	}
	if key != "" {
		msg = fmt.Sprintf("%s session e-mail %q groups %q presented to [%s] on %s: expected %s, observed %s", cs.Source, email, groups, cs.Rules.String(), cs.reqLine(), cs.Expected, cs.Observed)
	}
	return key, msg, class
}

func (e *c08Env) judgeLogin(cs *c08Case, lp *Proxy, b *Browser, lresp *world.Resp, has bool, x c08Exp, ht bool) (key, msg, class string) {
	sv := x.global()
	cs.Expected = x.String()
	cs.Observed = fmt.Sprintf("login status=%d session_cookie=%v", lresp.Status, has)
	follow := func() c08Obs { return e.request(lp, b.Jar, "/page", nil) }
	switch {
	case lresp.Panic != nil:
		return "C08/panic", fmt.Sprintf("login panicked: %v", lresp.Panic), "panic"
	case !sv.L:
		class = "login-refuse"
		if has {
			o := follow()
			cs.Observed += "; then GET /page: " + o.String()
			switch {
			case o.Served:
				key = "C08/served-despite-" + x.why()
			case ht:
				key = "C08/htpasswd-login-session-despite-" + x.why()
			default:
				key = "C08/login-session-despite-" + x.why()
			}
		}
	case sv.S && x.Canon:
		class = "login-ok"
		if !has {
			key = "C08/valid-login-refused"
		} else if o := follow(); !o.Served {
			cs.Observed += "; then GET /page: " + o.String()
			key = "C08/valid-session-refused"
		}
	default:
		class = "ambiguous"
	}
	if key != "" {
		msg = fmt.Sprintf("%s login of e-mail %q groups %q (htpasswd groups %q) under [%s]: expected %s, observed %s", cs.Source, cs.Email, cs.Groups, cs.HtGroups, cs.Login.String(), cs.Expected, cs.Observed)
	}
	return key, msg, class
}

// run executes a case inside the enumeration: counters, samples, confirmation of failures.
func (e *c08Env) run(cs *c08Case, pre *c08Pre) string {
	c := e.c
	key, msg, class := e.exec(cs, pre)
	switch class {
	case "invalid-config":
		c.Inc("configs_rejected_by_validation")
		return class
	case "harness-error":
		c.Error("%s: %s", cs.key(), msg)
		return class
	case "no-session":
		c.Inc("skipped_no_session_to_present")
		return class
	}
	c.Inc("evaluations")
	c.Inc("part_" + cs.Part)
	c.Inc("expect_" + class)
	if class == "ambiguous" {
		c.Inc("ambiguous")
	}
	if strings.HasPrefix(class, "refuse") || class == "login-refuse" {
		c.Distinct("distinct_nontrivial", cs.key())
		if cs.Login != nil && cs.Target != "" && cs.Login.String() != cs.Rules.String() {
			c.Inc("revoked_by_rule_change")
		}
	}
	if n := e.seen["sample-"+class]; n < 1 && class != "ambiguous" {
		e.seen["sample-"+class] = n + 1
		c.Sample(6, *cs)
	}
	if key != "" {
		size := len(cs.Email) + len(cs.Target) + len(cs.Rules.String()) + 8*len(cs.Groups)
		if cs.Login != nil {
			size += len(cs.Login.String())
		}
		e.seen[key]++
		if e.seen[key] <= 3 {
			c.confirm(key, msg, size, *cs, func() (string, bool) {
				cp := *cs
				k, _, _ := e.exec(&cp, pre)
				return k, k != ""
			})
		} else {
			c.Violate(key, msg, size, *cs)
		}
	}
	return class
}

// ---------------------------------------------------------------------------------------------
// the enumeration

type c08Ident struct {
	Email string
	GS    c08GroupSet
	gi    int
	jar   *world.Jar
}

func (e *c08Env) c08Main() {
	c := e.c
	quick := c.Quick()
	emails := c08Emails(quick)
	gsets := c08SessionGroups(quick)
	configs := c08Configs(quick)
	queries, qsizes := c08Queries(quick)
	// bounds of the two expensive products in the thorough tier (quick: full group alphabet)
	loginSets, aoSets := len(gsets), len(gsets)
	if !quick {
		loginSets, aoSets = 5, 7
	}
	c.Info["bounds"] = map[string]int{"group_sets_in_login_product": loginSets, "group_sets_in_authonly_product": aoSets}
	c.Info["alphabet"] = map[string]any{"emails": len(emails), "session_group_sets": len(gsets), "identities": len(emails) * len(gsets),
		"domain_rule_sets": len(c08DomainSets(quick)), "email_files": len(c08Files(quick)), "allowed_group_sets": len(c08AllowedGroups(quick)),
		"rule_configurations": len(configs), "endpoints": len(c08Endpoints), "authonly": qsizes,
		"history_rules": len(c08HistoryRules), "history_ordered_pairs": len(c08HistoryRules) * len(c08HistoryRules)}

	// sessions minted once per process under allow-all rules; every later presentation to a
	// differently configured proxy (same cookie secret) is a rule change after login
	star := c08Rules{Domains: []string{"*"}}
	pxStar, err := e.build(&star, &c08Case{Source: "oidc-cookie"})
	if err != nil {
		c.Error("allow-all proxy: %v", err)
		return
	}
	var idents []*c08Ident
	for _, em := range emails {
		for gi, gs := range gsets {
			id := &c08Ident{Email: em, GS: gs, gi: gi}
			idents = append(idents, id)
			cs := &c08Case{Source: "oidc-cookie", Email: em, Groups: gs.G, NoClaim: gs.NoClaim}
			b := newBrowser(pxStar, "http", c08Host)
			if _, _, err := b.Login(e.idp, e.user(cs), "/page"); err != nil {
				c.Error("minting session for %q: %v", em, err)
				continue
			}
			if c08HasSession(b) {
				id.jar = b.Jar
				if c.Shard == 0 {
					c.Inc("sessions_minted")
					if !c08Canonical(em) {
						c.Inc("sessions_minted_noncanonical_email")
					}
				}
			} else if em != "" && c.Shard == 0 {
				c.Inc("identities_without_session_under_allow_all")
			}
		}
		e.trim()
	}

	// Part A (sessions x rule configurations x endpoints) and part B (logins under each configuration)
	for ci := range configs {
		r := configs[ci]
		if !e.mine() {
			continue
		}
		if c.Expired() {
			return
		}
		px, err := e.build(&r, &c08Case{Source: "oidc-cookie"})
		if err != nil {
			c.Inc("configs_rejected_by_validation")
			continue
		}
		c.Inc("configs_built")
		for _, id := range idents {
			if id.jar != nil {
				for _, t := range c08Endpoints {
					e.run(&c08Case{Part: "sessions", Source: "oidc-cookie", Login: &star, Rules: r, Email: id.Email, Groups: id.GS.G, NoClaim: id.GS.NoClaim, Target: t},
						&c08Pre{px: px, jar: id.jar})
				}
			}
			if id.gi < loginSets {
				e.run(&c08Case{Part: "login", Source: "oidc-cookie", Login: &r, Rules: r, Email: id.Email, Groups: id.GS.G, NoClaim: id.GS.NoClaim},
					&c08Pre{loginPx: px})
			}
			if id.gi < 2 {
				// the same identity handed over by a provider that requires nothing of it
				e.run(&c08Case{Part: "login-synthetic", Source: "synthetic-provider-cookie", Login: &r, Rules: r, Email: id.Email, Groups: id.GS.G, NoClaim: id.GS.NoClaim},
					&c08Pre{loginPx: px})
			}
		}
		e.trim()
	}

	// Part C: auth-only query constraints
	aoCfgs := []c08Rules{{Domains: []string{"*"}}, {Domains: []string{".example.com", "other.org"}, Groups: []string{"staff", "guests"}}}
	if !quick {
		aoCfgs = append(aoCfgs, c08Rules{File: []string{"alice@example.com", "bob@other.org"}, HasFile: true})
	}
	for ci := range aoCfgs {
		r := aoCfgs[ci]
		px, err := e.build(&r, &c08Case{Source: "oidc-cookie"})
		if err != nil {
			c.Error("auth-only configuration %s: %v", r.String(), err)
			continue
		}
		for _, id := range idents {
			if id.jar == nil || id.gi >= aoSets || !e.mine() {
				continue
			}
			if c.Expired() {
				return
			}
			for _, q := range queries {
				if q == "" {
					continue
				}
				e.run(&c08Case{Part: "authonly", Source: "oidc-cookie", Login: &star, Rules: r, Email: id.Email, Groups: id.GS.G, NoClaim: id.GS.NoClaim, Target: "/oauth2/auth?" + q},
					&c08Pre{px: px, jar: id.jar})
			}
		}
	}

	// Part D: rule changes between login and later requests, all ordered pairs, both stores
	for _, redis := range []bool{false, true} {
		for i := range c08HistoryRules {
			r1 := c08HistoryRules[i]
			if !e.mine() {
				continue
			}
			proto := &c08Case{Source: "oidc-cookie", Redis: redis}
			px1, err := e.build(&r1, proto)
			if err != nil {
				c.Error("history rules %s: %v", r1.String(), err)
				continue
			}
			type sess struct {
				em  string
				gs  c08GroupSet
				jar *world.Jar
			}
			var ss []sess
			for _, em := range c08SmallEmails {
				for _, gs := range c08SmallGroups {
					e.run(&c08Case{Part: "history", Source: "oidc-cookie", Login: &r1, Rules: r1, Email: em, Groups: gs.G, NoClaim: gs.NoClaim, Redis: redis}, &c08Pre{loginPx: px1})
					cs := &c08Case{Source: "oidc-cookie", Email: em, Groups: gs.G, NoClaim: gs.NoClaim}
					b := newBrowser(px1, "http", c08Host)
					if _, _, err := b.Login(e.idp, e.user(cs), "/page"); err == nil && c08HasSession(b) {
						ss = append(ss, sess{em, gs, b.Jar})
					}
				}
			}
			for j := range c08HistoryRules {
				r2 := c08HistoryRules[j]
				px2, err := e.build(&r2, proto) // rewrites the e-mails file; px1 keeps what it loaded
				if err != nil {
					c.Error("history rules %s: %v", r2.String(), err)
					continue
				}
				for _, s := range ss {
					for _, t := range append(c08Endpoints, "/oauth2/auth?allowed_groups=staff&allowed_email_domains=example.com") {
						pre := &c08Pre{px: px2, jar: s.jar}
						if redis {
							// a refusal deletes the stored session, so a ticket cannot be presented twice:
							// every presentation gets its own login at the first proxy
							pre = &c08Pre{loginPx: px1, px: px2}
						}
						e.run(&c08Case{Part: "history", Source: "oidc-cookie", Login: &r1, Rules: r2, Email: s.em, Groups: s.gs.G, NoClaim: s.gs.NoClaim, Target: t, Redis: redis}, pre)
					}
				}
			}
			// the proxy the user logged in at still serves them (its own rules did not change)
			for _, s := range ss {
				pre := &c08Pre{px: px1, jar: s.jar}
				if redis {
					pre = &c08Pre{loginPx: px1, px: px1}
				}
				e.run(&c08Case{Part: "history", Source: "oidc-cookie", Login: &r1, Rules: r1, Email: s.em, Groups: s.gs.G, NoClaim: s.gs.NoClaim, Target: "/page", Redis: redis}, pre)
			}
			e.trim()
		}
	}

	// Part E: htpasswd sessions (no e-mail: exempt from the e-mail rules, not from the groups)
	htTargets := append(append([]string{}, c08Endpoints...), "/oauth2/auth?allowed_groups=staff", "/oauth2/auth?allowed_groups=other",
		"/oauth2/auth?allowed_emails=hal", "/oauth2/auth?allowed_email_domains=example.com", "/oauth2/auth?allowed_groups=,")
	for _, hg := range [][]string{nil, {"staff"}, {"guests"}, {"guests", "staff"}} {
		for _, ag := range c08AllowedGroups(quick) {
			for _, dom := range [][]string{nil, {"example.com"}, {"*"}} {
				if !e.mine() {
					continue
				}
				r := c08Rules{Domains: dom, Groups: ag}
				proto := &c08Case{Source: "htpasswd-form", HtGroups: hg}
				px, err := e.build(&r, proto)
				if err != nil {
					c.Error("htpasswd configuration %s: %v", r.String(), err)
					continue
				}
				e.run(&c08Case{Part: "htpasswd", Source: "htpasswd-form", Login: &r, Rules: r, HtGroups: hg}, &c08Pre{loginPx: px})
				for _, t := range htTargets {
					e.run(&c08Case{Part: "htpasswd", Source: "htpasswd-basic", Rules: r, HtGroups: hg, Target: t}, &c08Pre{px: px})
					e.run(&c08Case{Part: "htpasswd", Source: "htpasswd-form", Login: &r, Rules: r, HtGroups: hg, Target: t}, &c08Pre{loginPx: px, px: px})
				}
			}
		}
	}

	// Part F: sessions made from bearer tokens are subject to the same rules
	for i := range c08HistoryRules {
		r := c08HistoryRules[i]
		if !e.mine() {
			continue
		}
		proto := &c08Case{Source: "bearer"}
		px, err := e.build(&r, proto)
		if err != nil {
			c.Error("bearer configuration %s: %v", r.String(), err)
			continue
		}
		for _, em := range c08SmallEmails {
			for _, gs := range c08SmallGroups {
				for _, t := range append(c08Endpoints, "/oauth2/auth?allowed_groups=staff", "/oauth2/auth?allowed_emails=alice@example.com") {
					e.run(&c08Case{Part: "bearer", Source: "bearer", Rules: r, Email: em, Groups: gs.G, NoClaim: gs.NoClaim, Target: t}, &c08Pre{px: px})
				}
			}
		}
		e.trim()
	}
}

func init() {
	register(&checkDef{
		id:    "C08",
		level: "exploration",
		rule:  "full product identities (e-mail local parts x domains incl. look-alikes, case, trailing dot, several '@'; group lists) x rule configurations (e-mail domain sets x e-mails files x allowed-group sets) x {proxied, auth-only, userinfo} with sessions minted under allow-all rules and presented to every configuration (= rule change after login), a login attempt of every identity under every configuration, auth-only query forms x identities, all ordered pairs of a 6-rule alphabet (cookie and Redis store, e-mails file rewritten), htpasswd (form and Basic) and bearer-token sessions; auth-only requests as methods {GET,HEAD,POST,PUT,PATCH,DELETE} x carriers (form, multipart, text, JSON bodies; forwarded-URI headers) x payloads that widen / narrow / erase each constraint key with values derived from the identity x query constraints x identities x configurations, judged by the reference predicate of the query AND by equality of the answer class with the plain GET of the same query; group names as opaque strings: name alphabet (commas, blanks, '=', quotes, case, empty, prefixes, distinguished names and their components) configured x carried by the session x configuration path {options structure, configuration file, alpha configuration file, flag} x {login, later request, htpasswd form login / Basic, auth-only allowed_groups item}; reference model from the statement and DESIGN Appendix B with strictest/loosest admissible readings; non-trivial = distinct case in which a valid credential (or a completed provider login) must be refused because a rule bites",
		assumptions: []string{
			"the converse (a passing credential is served / a passing login gets a session) is asserted only for canonical lower-case addresses with exactly one '@'",
			"apex under '.d'/'*.d', trailing dots, addresses without '@', case in auth-only items, '%2C' in auth-only items, undecodable query pairs, '*' as auth-only domain: both readings admissible, counted as ambiguous",
			"a rule change is modelled by a second proxy built with the same cookie secret and the other rules (the e-mails file is the same path, rewritten before the rebuild); an in-process reload of the e-mails file is covered by C20",
			"refused = no upstream hit and status 401 or 403; served = upstream hit or 2xx; cookie cleared = no _oauth2_proxy / _oauth2_proxy_N cookie left in an RFC 6265 jar after the response",
			"a configured empty group name (counts as a configured group or is ignored), blanks around an item of the auth-only allowed_groups list (part of the name or not): both readings admissible, counted as ambiguous; group lists whose names contain a comma, a double quote or a backslash are not given through the flag (the flag is a comma list with its own quoting)",
			"the answer class of an auth-only request (served / refused, cookie cleared or not) must not depend on the method, the body or on headers carrying look-alike parameters; the status code inside a class is not compared",
			"e-mails file contents are restricted to documented forms (one address per line, comment and blank lines); addresses with quoted local parts are not put into the file",
		},
		shards: func(tier string) int { return 16 },
		run: func(c *Ctx) {
			{
				up := world.NewUpstream("c08conc")
				concExplore(c, "C08", c08ConcScenarios(up), 1, 2, concEvery["C08"]...)
				up.Close()
			}
			e := newC08Env(c)
			defer e.close()
			e.c08Main()
			e.c08Inputs()
			e.c08GroupNames()
		},
		post: func(c *Ctx) {
			need := []string{"expect_serve", "expect_refuse-global", "expect_refuse", "expect_login-ok", "expect_login-refuse", "ambiguous",
				"part_sessions", "part_login", "part_login-synthetic", "part_authonly", "part_history", "part_htpasswd", "part_bearer",
				"revoked_by_rule_change", "sessions_minted_noncanonical_email", "configs_rejected_by_validation", "distinct_nontrivial"}
			need = append(need, c08InputsNeed...)
			sort.Strings(need)
			for _, k := range need {
				if c.Counters[k] == 0 {
					c.Error("vacuous: counter %s is zero", k)
				}
			}
		},
		replay: func(c *Ctx, raw json.RawMessage) string {
			var cr0 concReplay
			if json.Unmarshal(raw, &cr0) == nil && cr0.Kind == concKind {
				up := world.NewUpstream("c08conc")
				defer up.Close()
				return concReplayOne(c, "C08", c08ConcScenarios(up), cr0, concEvery["C08"]...)
			}
			var cs c08Case
			if err := json.Unmarshal(raw, &cs); err != nil || cs.Source == "" {
				return "not a C08 case"
			}
			e := newC08Env(c)
			defer e.close()
			key, msg, class := e.exec(&cs, nil)
			if key != "" {
				c.Violate(key, msg, 1, cs)
			}
			if cs.Part == "authonly-inputs" {
				if rk, rmsg := e.execRel(&cs, nil); rk != "" {
					c.Violate(rk, rmsg, 1, cs)
					msg += " " + rmsg
				}
			}
			return fmt.Sprintf("class=%s expected{%s} observed{%s} %s", class, cs.Expected, cs.Observed, msg)
		},
	})
}
