//go:build verif

package main

import (
	"bytes"
	"encoding/hex"
	"encoding/json"
	"fmt"
	"html"
	"math/rand"
	"net/http"
	"net/http/httptest"
	"net/url"
	"sort"
	"strconv"
	"strings"
	"time"

	"github.com/oauth2-proxy/oauth2-proxy/v7/pkg/app/redirect"
	"github.com/oauth2-proxy/oauth2-proxy/v7/pkg/logger"
	"github.com/oauth2-proxy/oauth2-proxy/v7/verifx/whatwg"
	"github.com/oauth2-proxy/oauth2-proxy/v7/verifx/world"
)

// C06 — redirects derived from request data never leave the allowed origins (PROD).
//
// Layer 1 (validator): every concatenation of up to L tokens of the adversarial alphabet (plus an
//   absolute-URL grammar product) x every whitelist through redirect.NewValidator(..).IsValidRedirect;
//   every accepted string through the real http.Redirect, the real header serialisation and the
//   independent browser-side resolver (engine/whatwg, DESIGN.md Appendix C).
// Layer 2 (endpoints): every string up to a smaller L through every real entry point of a built proxy
//   (rd on start -> provider -> callback, state modified on the way back, sign-in form POST with
//   htpasswd, sign-out GET/POST, X-Auth-Request-Redirect, X-Forwarded-* in reverse-proxy mode, the
//   values rendered into sign-in and error pages, the router's own clean-path redirect).
// Layer 3 (positive clause): every plain path+query over a segment alphabet requested before login is
//   the Location after login, byte for byte (sign-in page + provider, skip-provider-button, htpasswd form).
//
// Reference: whitelist semantics from docs/docs/configuration/overview.md (footnote on
// --whitelist-domain) and DESIGN.md Appendix B; nothing is taken from the validator's code.

const (
	c06Host    = "good.example"
	c06IdPHost = "idp.example"
)

var c06Tokens = []string{
	"/", "\\", "//", ".", "..", "\t", "\n", "\r", " ", "\v", "\f", "\x00", "\u00a0", "\u3000", "\u2028",
	"%2f", "%5c", "%09", "%2e", "@", ":", ":80", ":8080", "?", "#",
	"http:", "https:", "HtTp:", "javascript:",
	"good.example", "evil.example", "sub.allowed.example", "allowed.example", "xallowed.example", "[::1]", "a",
}

// ---- whitelist configurations and their reference semantics (documentation, Appendix B)

type c06RefEntry struct {
	host string
	sub  bool   // ".h" or "*.h": every host ending in ".h"
	port string // "" = default port only, "*" = any, digits = that port
}

type c06WL struct {
	Name    string
	Entries []string
	ref     []c06RefEntry
}

func c06MakeWL(name string, entries ...string) *c06WL {
	w := &c06WL{Name: name, Entries: entries}
	for _, e := range entries {
		r := c06RefEntry{}
		if i := strings.LastIndexByte(e, ':'); i >= 0 {
			r.port, e = e[i+1:], e[:i]
		}
		switch {
		case strings.HasPrefix(e, "*."):
			r.sub, e = true, e[2:]
		case strings.HasPrefix(e, "."):
			r.sub, e = true, e[1:]
		}
		r.host = strings.ToLower(e)
		w.ref = append(w.ref, r)
	}
	return w
}

func c06Whitelists() []*c06WL {
	return []*c06WL{
		c06MakeWL("none"),
		c06MakeWL("exact", "allowed.example"),
		c06MakeWL("leading-dot", ".allowed.example"),
		c06MakeWL("wildcard", "*.allowed.example"),
		c06MakeWL("port", "allowed.example:8080"),
		c06MakeWL("any-port", "allowed.example:*"),
		c06MakeWL("dot-any-port", ".allowed.example:*"),
		c06MakeWL("wildcard-port", "*.allowed.example:8080"),
		// entries without a host part (an empty templated value, a trailing comma): they name no host
		c06MakeWL("blank-entries", "", ":*", "sub.allowed.example"),
	}
}

// permits: is the resolved origin allowed by the whitelist? strict = under every admissible reading,
// lenient = under at least one (the apex of a ".h"/"*.h" entry is not pinned down by the documentation).
func (w *c06WL) permits(r whatwg.Result) (strict, lenient bool) {
	if r.Kind != whatwg.Resolved {
		return false, false
	}
	for _, e := range w.ref {
		portOK := e.port == "*" || (e.port == "" && r.Port == "") || (e.port != "" && e.port == r.EffectivePort())
		if !portOK {
			continue
		}
		if e.sub {
			if strings.HasSuffix(r.Host, "."+e.host) {
				strict, lenient = true, true
			} else if r.Host == e.host {
				lenient = true
			}
		} else if r.Host == e.host {
			strict, lenient = true, true
		}
	}
	return
}

// ---- the oracle

// c06Wire returns the header value as a user agent receives it: the real net/http header
// serialisation, one field line, optional whitespace around the value removed.
func c06Wire(v string) (string, bool) {
	var buf bytes.Buffer
	_ = http.Header{"Location": {v}}.Write(&buf)
	line := buf.String()
	if strings.Count(line, "\n") != 1 || !strings.HasSuffix(line, "\r\n") || !strings.HasPrefix(line, "Location:") {
		return line, false
	}
	line = strings.TrimSuffix(strings.TrimPrefix(line, "Location:"), "\r\n")
	return strings.Trim(line, " \t"), true
}

const (
	c06Same      = "same-host"
	c06White     = "whitelisted"
	c06WhiteAmb  = "whitelisted-under-one-reading"
	c06FwdHost   = "forwarded-host"
	c06Failure   = "failure"
	c06Unres     = "unresolvable"
	c06OffOrigin = "off-origin"
	c06Foreign   = "foreign-scheme"
)

func c06Bad(class string) bool { return class == c06OffOrigin || class == c06Foreign }

var c06Rank = map[string]int{c06Same: 0, c06White: 1, c06FwdHost: 2, c06WhiteAmb: 3, c06Failure: 4, c06Unres: 5, c06OffOrigin: 6, c06Foreign: 7}

var c06Bases = []whatwg.Base{whatwg.NewBase("http", c06Host), whatwg.NewBase("https", c06Host)}

// c06Classify resolves value against the request origin (both schemes: the proxy cannot know which one
// the browser used) and returns the worst class plus a description. fwdHost is the literal
// X-Forwarded-Host of a reverse-proxy request ("the host the request was made to" under one reading).
func c06Classify(wl *c06WL, value, fwdHost string) (class, detail string, root bool) {
	rank := c06Rank
	class, root = c06Same, true
	for _, b := range c06Bases {
		r := whatwg.Resolve(b, value)
		var cl string
		switch r.Kind {
		case whatwg.Foreign:
			cl = c06Foreign
		case whatwg.Failure:
			cl = c06Failure
		case whatwg.Unresolvable:
			cl = c06Unres
		default:
			strict, lenient := wl.permits(r)
			switch {
			case r.Relative || r.Host == b.Host:
				cl = c06Same
			case strict:
				cl = c06White
			case fwdHost != "" && (r.Host == strings.ToLower(fwdHost) || r.Host+":"+r.EffectivePort() == strings.ToLower(fwdHost) || (r.Port != "" && r.Host+":"+r.Port == strings.ToLower(fwdHost))):
				cl = c06FwdHost
			case lenient:
				cl = c06WhiteAmb
			default:
				cl = c06OffOrigin
			}
		}
		if !(r.Kind == whatwg.Resolved && r.IsRoot() && (r.Relative || r.Host == b.Host)) {
			root = false
		}
		if rank[cl] >= rank[class] {
			class = cl
			detail = fmt.Sprintf("from %s a browser resolves %q to %s", b.String(), value, r.Origin())
		}
	}
	return
}

// ---- case record (evidence samples, replay files)

type c06Case struct {
	Layer     string   `json:"layer"` // validator | endpoint | positive
	Entry     string   `json:"entry"`
	WLName    string   `json:"whitelist_name"`
	Whitelist []string `json:"whitelist"`
	Input     string   `json:"input_quoted"`
	InputHex  string   `json:"input_hex"`
	Target    string   `json:"target_kind,omitempty"`
	Observed  string   `json:"observed"`
	Expected  string   `json:"expected"`
}

func c06NewCase(layer, entry string, wl *c06WL, s string) c06Case {
	return c06Case{Layer: layer, Entry: entry, WLName: wl.Name, Whitelist: wl.Entries, Input: strconv.Quote(s), InputHex: hex.EncodeToString([]byte(s))}
}

// ---- string universe

func c06Hash(b []byte) int {
	h := uint32(2166136261)
	for _, c := range b {
		h ^= uint32(c)
		h *= 16777619
	}
	// final avalanche so that the low bits used by Mine() depend on every byte
	h ^= h >> 15
	h *= 2246822519
	h ^= h >> 13
	return int(h & 0x7fffffff)
}

// c06Enumerate calls fn for every concatenation of 0..L tokens.
func c06Enumerate(tokens []string, L int, fn func(b []byte, ntok int) bool) {
	buf := make([]byte, 0, 256)
	var rec func(depth int) bool
	rec = func(depth int) bool {
		if !fn(buf, depth) {
			return false
		}
		if depth == L {
			return true
		}
		n := len(buf)
		for _, t := range tokens {
			buf = append(buf[:n], t...)
			if !rec(depth + 1) {
				return false
			}
		}
		buf = buf[:n]
		return true
	}
	rec(0)
}

func c06UniverseSize(T, L int) int64 {
	var total, p int64 = 0, 1
	for k := 0; k <= L; k++ {
		total += p
		p *= int64(T)
	}
	return total
}

// c06Product is a relative-escape grammar product plus the absolute-URL grammar product: scheme x
// userinfo x host x host-suffix x port x tail.
// It makes the port and any-port whitelist classes reachable at every bound (with the token alphabet an
// accepted URL with a port needs 4 tokens).
func c06Product(size int) []string {
	schemes := []string{"http://", "https://"}
	userinfos := []string{"", "allowed.example@"}
	hosts := []string{"allowed.example", "sub.allowed.example", "xallowed.example", "evil.example", "good.example"}
	suffixes := []string{""}
	ports := []string{"", ":80", ":8080", ":443"}
	tails := []string{"", "/p?q=1", "\\@allowed.example"}
	if size == 1 {
		schemes = []string{"http://", "https://", "//"}
		userinfos = []string{"", "allowed.example@", "allowed.example:8080@"}
		hosts = []string{"allowed.example", "sub.allowed.example", "xallowed.example", "evil.example", "good.example", "ALLOWED.example", "allowed.example.evil.example"}
		suffixes = []string{"", "."}
		ports = []string{"", ":", ":80", ":8080", ":443", ":08080"}
		tails = []string{"", "/p?q=1", "\\@allowed.example", "@evil.example", "/..//evil.example"}
	}
	if size == 2 {
		schemes = []string{"http://", "https://", "http:/", "http:\\\\", "HTTP://", "//", "https:", "https:///", "http:////"}
		userinfos = []string{"", "a@", "allowed.example@", "allowed.example:8080@"}
		hosts = []string{"allowed.example", "sub.allowed.example", "xallowed.example", "evil.example", "good.example", "ALLOWED.example", "allowed.example.evil.example", "[::1]", "127.1"}
		suffixes = []string{"", ".", "%2e", "\u3002"}
		ports = []string{"", ":", ":80", ":8080", ":443", ":08080", ":80:8080", ":*", ":8080x"}
		tails = []string{"", "/", "/p?q=1", "?", "#", "\\@allowed.example", "@evil.example", "/..//evil.example", "\t.evil.example", ".evil.example"}
	}
	var out []string
	// relative-escape grammar: slash, something a parser may skip, slash, host, tail. With the token
	// alphabet alone the shortest string of this shape that names a host needs 4 tokens.
	for _, a := range []string{"/", "\\"} {
		for _, mid := range []string{"", "\t", "\n", "\r", " ", "\v", "\f", "\x00", "\u00a0", ".", "..", "%09", "%2f", "\t\n", ".\t"} {
			for _, b := range []string{"/", "\\"} {
				for _, h := range []string{"evil.example", "allowed.example", "good.example"} {
					for _, t := range []string{"", "/x"} {
						out = append(out, a+mid+b+h+t)
					}
				}
			}
		}
	}
	// cleaning gadgets: net/http.Redirect cleans everything before the first '?' as a path (dot
	// segments removed), the fragment included — a segment the validator may regard as inert (it never
	// leaves the browser, or it is a plain name) followed by ".." disappears together with it and what
	// follows moves to the front
	for _, pre := range []string{"/#", "/a", "/.", "/#a", "/a#", "/%23", "/;", "/a;b", "/#/a"} {
		for _, dots := range []string{"/..", "/../..", "/./.."} {
			for _, b := range []string{"/", "\\", "//", "/\\", "\\/", "\\\\"} {
				for _, h := range []string{"evil.example", "allowed.example"} {
					for _, t := range []string{"", "/"} {
						out = append(out, pre+dots+b+h+t)
					}
				}
			}
		}
	}
	for _, sc := range schemes {
		for _, ui := range userinfos {
			for _, h := range hosts {
				for _, sf := range suffixes {
					for _, p := range ports {
						for _, t := range tails {
							out = append(out, sc+ui+h+sf+p+t)
						}
					}
				}
			}
		}
	}
	return out
}

// ---- layer 1: validator + real http.Redirect + resolver

type c06L1 struct {
	c    *Ctx
	wls  []*c06WL
	vals []redirect.Validator
	req  *http.Request
}

func c06NewL1(c *Ctx) *c06L1 {
	logger.SetStandardEnabled(false)
	l := &c06L1{c: c, wls: c06Whitelists()}
	for _, w := range l.wls {
		l.vals = append(l.vals, redirect.NewValidator(w.Entries))
	}
	l.req = httptest.NewRequest("GET", "http://"+c06Host+"/oauth2/callback", nil)
	return l
}

// realRedirect runs the real http.Redirect and returns the Location value on the wire.
func (l *c06L1) realRedirect(s string) (string, bool) {
	rec := httptest.NewRecorder()
	http.Redirect(rec, l.req, s, http.StatusFound)
	locs := rec.Header()["Location"]
	if len(locs) != 1 {
		return fmt.Sprintf("%d Location headers", len(locs)), false
	}
	return c06Wire(locs[0])
}

// eval runs one string through every whitelist. prefix labels the counters (the random supplement is
// counted separately and never as coverage).
func (l *c06L1) eval(s string, prefix string, counted bool) {
	c := l.c
	wire, wireOK, haveWire := "", false, false
	acceptedAny := false
	for wi, wl := range l.wls {
		if counted {
			c.Inc("evaluations")
		}
		c.Inc(prefix + "validator_calls")
		ok := l.vals[wi].IsValidRedirect(s)
		if !ok {
			c.Inc(prefix + "rejected")
			continue
		}
		c.Inc(prefix + "accepted")
		acceptedAny = true
		if !haveWire {
			wire, wireOK = l.realRedirect(s)
			haveWire = true
		}
		cs := c06NewCase("validator", "IsValidRedirect+http.Redirect", wl, s)
		cs.Observed = "accepted; Location on the wire: " + strconv.Quote(wire)
		if !wireOK {
			c.Violate("C06/validator/location-not-one-field-line", fmt.Sprintf("whitelist %v: accepted %q is serialised as %q", wl.Entries, s, wire), len(s), cs)
			continue
		}
		class, detail, _ := c06Classify(wl, wire, "")
		c.Inc(prefix + "class_" + class)
		abs := strings.HasPrefix(s, "http")
		if abs {
			c.Inc(prefix + "abs_accepted_" + wl.Name)
		}
		if class == c06WhiteAmb {
			c.Inc("ambiguous")
		}
		if class == c06White || class == c06WhiteAmb {
			c.Sample(2, cs)
		}
		if c06Bad(class) {
			key := "C06/validator/relative-" + class
			if abs {
				key = "C06/validator/absolute-" + class
			}
			cs.Expected = "rejected, or a target on " + c06Host + " / permitted by the whitelist"
			val := l.vals[wi]
			c.confirm(key, fmt.Sprintf("whitelist %v: IsValidRedirect(%q)=true, http.Redirect sends Location %q; %s", wl.Entries, s, wire, detail), len(s), cs,
				func() (string, bool) {
					w2, ok2 := l.realRedirect(s)
					cl, _, _ := c06Classify(wl, w2, "")
					return key, val.IsValidRedirect(s) && ok2 && cl == class
				})
		}
	}
	if acceptedAny && counted {
		c.Distinct("distinct_nontrivial", "L1|"+s)
		c.Inc(prefix + "accepted_strings")
	}
}

func c06Layer1(c *Ctx, L int, product []string) {
	l := c06NewL1(c)
	c06Enumerate(c06Tokens, L, func(b []byte, ntok int) bool {
		if !c.Mine(c06Hash(b)) {
			return true
		}
		if ntok == L && c.Expired() {
			return false
		}
		c.Inc(fmt.Sprintf("l1_strings_len%d", ntok))
		l.eval(string(b), "l1_", true)
		return true
	})
	for _, s := range product {
		if !c.Mine(c06Hash([]byte(s))) {
			continue
		}
		c.Inc("l1_strings_product")
		l.eval(s, "l1_", true)
	}
}

// c06Random is the labelled supplement of the thorough tier: seeded random longer token strings through
// layer 1. Never counted as coverage.
func c06Random(c *Ctx, n int) {
	l := c06NewL1(c)
	rng := rand.New(rand.NewSource(c.Seed*1000 + int64(c.Shard)))
	for i := 0; i < n; i++ {
		k := 6 + rng.Intn(7)
		var b strings.Builder
		for j := 0; j < k; j++ {
			b.WriteString(c06Tokens[rng.Intn(len(c06Tokens))])
		}
		l.eval(b.String(), "supplement_random_", false)
	}
}

// ---- layer 2: the real entry points

type c06Target struct {
	Kind  string // location | login-start | action | hidden-rd | link | clean-redirect
	Value string
}

type c06Obs struct {
	Delivered bool
	Note      string
	FwdHost   string
	Targets   []c06Target
}

type c06Env struct {
	wl       *c06WL
	val      redirect.Validator // only used to attribute a violation to its root cause (finding key), never to decide
	px       *Proxy             // plain, htpasswd form enabled
	rp       *Proxy             // --reverse-proxy
	skip     *Proxy             // --skip-provider-button (positive clause)
	idp      *world.IdP
	logins   int
	baseline map[string]bool
}

var c06Htpasswd string

func c06NewEnv(wl *c06WL, up *world.Upstream) *c06Env {
	if c06Htpasswd == "" {
		c06Htpasswd = writeHtpasswd(map[string]string{"hu": "hp"})
	}
	// logging switched off through the proxy's own options: formatting a log line per refused string
	// would dominate the run time
	flags := append(baseFlags(up.URL()), "--email-domain=*", "--cookie-secure=false", "--htpasswd-file="+c06Htpasswd,
		"--standard-logging=false", "--auth-logging=false", "--request-logging=false")
	for _, e := range wl.Entries {
		flags = append(flags, "--whitelist-domain="+e)
	}
	e := &c06Env{wl: wl, idp: world.NewIdP(), val: redirect.NewValidator(wl.Entries)}
	e.px = mustProxy(&ProxyCfg{Flags: flags})
	e.rp = mustProxy(&ProxyCfg{Flags: append(append([]string{}, flags...), "--reverse-proxy=true")})
	e.skip = mustProxy(&ProxyCfg{Flags: append(append([]string{}, flags...), "--skip-provider-button=true")})
	e.baseline = map[string]bool{}
	for _, t := range []string{"/oauth2/sign_in", "/oauth2/callback?error=x", "/c06-baseline"} {
		r := world.Serve(e.px.H, &world.Req{Method: "GET", Target: t, Host: c06Host})
		for _, a := range c06LinkAttrs {
			for _, v := range c06Attrs(r.Body, a) {
				e.baseline[v] = true
			}
		}
	}
	return e
}

func (e *c06Env) freshIdP() {
	e.logins++
	if e.logins%1000 == 0 {
		e.idp = world.NewIdP()
	} else {
		e.idp.Install()
	}
}

// c06Attrs returns the values of every attr="..." occurrence (attr given with the opening quote,
// e.g. ` action="`), raw (still HTML-escaped). html/template always writes double-quoted attributes
// and escapes '"' inside values.
func c06Attrs(body, attr string) []string {
	var out []string
	for {
		i := strings.Index(body, attr)
		if i < 0 {
			return out
		}
		body = body[i+len(attr):]
		j := strings.IndexByte(body, '"')
		if j < 0 {
			return out
		}
		out = append(out, body[:j])
		body = body[j+1:]
	}
}

const c06HiddenRD = `name="rd" value="`

var c06LinkAttrs = []string{` action="`, ` href="`, ` src="`, ` formaction="`}

// collect turns a response into targets.
func (e *c06Env) collect(o *c06Obs, resp *world.Resp, locKind string) {
	if resp.Panic != nil {
		o.Note = fmt.Sprintf("panic: %v", resp.Panic)
		return
	}
	if resp.Status >= 300 && resp.Status < 400 {
		for _, l := range resp.Header.Values("Location") {
			o.Targets = append(o.Targets, c06Target{locKind, l})
		}
		return
	}
	if !strings.Contains(resp.Body, "<") {
		return
	}
	for _, v := range c06Attrs(resp.Body, c06HiddenRD) {
		o.Targets = append(o.Targets, c06Target{"hidden-rd", html.UnescapeString(v)})
	}
	for _, a := range c06LinkAttrs {
		for _, v := range c06Attrs(resp.Body, a) {
			// values that are also on the page for a neutral request are static template text
			// (stylesheet, footer link, the forms' own /oauth2/start and /oauth2/sign_in), except "/"
			// which is the fallback of the request-derived "Go back" action
			if e.baseline[v] && v != "/" {
				continue
			}
			kind := "link"
			if a == ` action="` {
				kind = "action"
			}
			o.Targets = append(o.Targets, c06Target{kind, html.UnescapeString(v)})
		}
	}
}

// validFieldValue: what net/http's server lets through as a header value (RFC 7230 field-content).
func c06ValidFieldValue(v string) bool {
	for i := 0; i < len(v); i++ {
		if c := v[i]; (c < 0x20 && c != '\t') || c == 0x7f {
			return false
		}
	}
	return true
}

func c06Hdrs(kv ...string) ([][2]string, bool) {
	var out [][2]string
	for i := 0; i+1 < len(kv); i += 2 {
		if !c06ValidFieldValue(kv[i+1]) {
			return nil, false
		}
		out = append(out, [2]string{kv[i], kv[i+1]})
	}
	return out, true
}

// finishLogin: the response of /oauth2/start (or of a page that starts the login) -> provider -> callback.
// mod, if set, rewrites the state on the way back (an attacker or a hostile provider).
func (e *c06Env) finishLogin(o *c06Obs, b *Browser, start *world.Resp, mod func(state string) string) {
	if start.Status != http.StatusFound {
		e.collect(o, start, "location")
		return
	}
	loginURL := start.Location()
	o.Targets = append(o.Targets, c06Target{"login-start", loginURL})
	cb, _, err := e.idp.Authorize(loginURL, "alice")
	if err != nil {
		o.Note = "provider refused the authorization request: " + err.Error()
		return
	}
	if mod != nil {
		u, err := url.Parse(cb)
		if err != nil {
			o.Note = err.Error()
			return
		}
		q := u.Query()
		q.Set("state", mod(q.Get("state")))
		u.RawQuery = q.Encode()
		cb = u.String()
	}
	resp := b.Callback(cb)
	if resp.Status == http.StatusFound {
		o.Note = "logged-in"
	}
	e.collect(o, resp, "location")
}

type c06EntryDef struct {
	Name   string
	Login  bool // costs a provider round trip
	Heavy  bool // a second route into code that a cheaper entry already drives: thorough tier runs it one token shorter
	Raw    bool // the input is the request target itself: only relative targets can come out
	NoRoot bool // the fallback of this entry is a fixed non-root path (X-Forwarded-Uri: /x)
	Fails  bool // the request always ends in an error page (a callback that fails)
	Direct bool // s is the only candidate and the path is under the proxy prefix: a refused s must become exactly "/"
	Run    func(e *c06Env, s string) *c06Obs
}

func c06Simple(px func(e *c06Env) *Proxy, method, target string, form url.Values, locKind string, hdr func(s string) ([]string, string)) func(e *c06Env, s string) *c06Obs {
	return func(e *c06Env, s string) *c06Obs {
		o := &c06Obs{}
		b := newBrowser(px(e), "http", c06Host)
		t := strings.ReplaceAll(target, "{rd}", url.QueryEscape(s))
		var hs [][2]string
		if hdr != nil {
			kv, fwd := hdr(s)
			var ok bool
			if hs, ok = c06Hdrs(kv...); !ok {
				o.Note = "header value cannot reach a handler (control character)"
				return o
			}
			o.FwdHost = fwd
		}
		var resp *world.Resp
		if method == "POST" {
			f := url.Values{}
			for k, v := range form {
				f.Set(k, strings.ReplaceAll(v[0], "{s}", s))
			}
			resp = b.PostForm(t, f, hs...)
		} else {
			resp = b.Get(t, hs...)
		}
		if resp.ParseErr != nil {
			o.Note = "request does not parse: " + resp.ParseErr.Error()
			return o
		}
		o.Delivered = true
		e.collect(o, resp, locKind)
		return o
	}
}

func c06LoginEntry(px func(e *c06Env) *Proxy, target string, hdr func(s string) ([]string, string), mod func(s string) func(string) string) func(e *c06Env, s string) *c06Obs {
	return func(e *c06Env, s string) *c06Obs {
		o := &c06Obs{}
		e.freshIdP()
		b := newBrowser(px(e), "http", c06Host)
		var hs [][2]string
		if hdr != nil {
			kv, fwd := hdr(s)
			var ok bool
			if hs, ok = c06Hdrs(kv...); !ok {
				o.Note = "header value cannot reach a handler (control character)"
				return o
			}
			o.FwdHost = fwd
		}
		start := b.Get(strings.ReplaceAll(target, "{rd}", url.QueryEscape(s)), hs...)
		if start.ParseErr != nil {
			o.Note = "request does not parse: " + start.ParseErr.Error()
			return o
		}
		o.Delivered = true
		var m func(string) string
		if mod != nil {
			m = mod(s)
		}
		e.finishLogin(o, b, start, m)
		return o
	}
}

// c06FailingCallback: a login is started by the browser, the provider's redirect comes back with the
// redirect component of the state replaced by s, and the callback fails: the provider refuses the
// code ("code") or the state carries a nonce that is not this login's ("nonce").
func c06FailingCallback(px func(e *c06Env) *Proxy, how string) func(e *c06Env, s string) *c06Obs {
	return func(e *c06Env, s string) *c06Obs {
		o := &c06Obs{}
		e.freshIdP()
		b := newBrowser(px(e), "http", c06Host)
		start := b.Get("/oauth2/start")
		if start.Status != http.StatusFound {
			o.Note = fmt.Sprintf("login does not start: %d", start.Status)
			return o
		}
		cb, _, err := e.idp.Authorize(start.Location(), "alice")
		if err != nil {
			o.Note = "provider refused the authorization request: " + err.Error()
			return o
		}
		u, err := url.Parse(cb)
		if err != nil {
			o.Note = err.Error()
			return o
		}
		q := u.Query()
		nonce := q.Get("state")
		if i := strings.IndexByte(nonce, ':'); i >= 0 {
			nonce = nonce[:i]
		}
		switch how {
		case "code":
			q.Set("code", "never-issued")
		case "nonce":
			nonce = "bm9uY2Utb2Ytbm9ib2R5"
		}
		q.Set("state", nonce+":"+s)
		u.RawQuery = q.Encode()
		o.Delivered = true
		resp := b.Callback(u.String())
		if resp.Status == http.StatusFound {
			o.Note = "logged-in"
		}
		e.collect(o, resp, "location")
		return o
	}
}

func c06Entries() []*c06EntryDef {
	plain := func(e *c06Env) *Proxy { return e.px }
	rp := func(e *c06Env) *Proxy { return e.rp }
	creds := url.Values{"username": {"hu"}, "password": {"hp"}}
	credsRD := url.Values{"username": {"hu"}, "password": {"hp"}, "rd": {"{s}"}}
	xauth := func(s string) ([]string, string) { return []string{"X-Auth-Request-Redirect", s}, "" }
	xfURI := func(s string) ([]string, string) { return []string{"X-Forwarded-Uri", s}, "" }
	xfHost := func(s string) ([]string, string) {
		return []string{"X-Forwarded-Proto", "http", "X-Forwarded-Host", s, "X-Forwarded-Uri", "/x"}, strings.TrimSpace(s)
	}
	xfProto := func(s string) ([]string, string) {
		return []string{"X-Forwarded-Proto", s, "X-Forwarded-Host", "sub.allowed.example", "X-Forwarded-Uri", "/x"}, "sub.allowed.example"
	}
	xfHostURI := func(s string) ([]string, string) {
		return []string{"X-Forwarded-Proto", "https", "X-Forwarded-Host", "sub.allowed.example", "X-Forwarded-Uri", s}, "sub.allowed.example"
	}
	return []*c06EntryDef{
		{Name: "start-rd-callback", Login: true, Direct: true, Run: c06LoginEntry(plain, "/oauth2/start?rd={rd}", nil, nil)},
		{Name: "callback-modified-state", Login: true, Direct: true, Run: c06LoginEntry(plain, "/oauth2/start", nil, func(s string) func(string) string {
			return func(state string) string {
				nonce := state
				if i := strings.IndexByte(state, ':'); i >= 0 {
					nonce = state[:i]
				}
				return nonce + ":" + s
			}
		})},
		// callbacks that FAIL, each at another point of the handler (the state the provider echoes back is
		// request data from the first line on, long before the handler validates it for the final redirect):
		// no CSRF cookie at all; code the provider refuses; state nonce of nobody's login
		{Name: "callback-state-without-cookie", Fails: true, Direct: true, Run: c06Simple(plain, "GET", "/oauth2/callback?code=c0de&state=bm9uY2U:{rd}", nil, "location", nil)},
		{Name: "callback-state-refused-code", Fails: true, Login: true, Direct: true, Run: c06FailingCallback(plain, "code")},
		{Name: "callback-state-foreign-nonce", Fails: true, Login: true, Direct: true, Run: c06FailingCallback(plain, "nonce")},
		{Name: "start-xauth-callback", Login: true, Heavy: true, Direct: true, Run: c06LoginEntry(plain, "/oauth2/start", xauth, nil)},
		{Name: "rp-start-xf-uri-callback", Login: true, Heavy: true, Run: c06LoginEntry(rp, "/oauth2/start", xfURI, nil)},
		{Name: "sign-in-post-body-rd", Direct: true, Run: c06Simple(plain, "POST", "/oauth2/sign_in", credsRD, "location", nil)},
		{Name: "sign-in-post-query-rd", Direct: true, Run: c06Simple(plain, "POST", "/oauth2/sign_in?rd={rd}", creds, "location", nil)},
		{Name: "sign-in-post-xauth", Direct: true, Run: c06Simple(plain, "POST", "/oauth2/sign_in", creds, "location", xauth)},
		{Name: "sign-out-get-rd", Direct: true, Run: c06Simple(plain, "GET", "/oauth2/sign_out?rd={rd}", nil, "location", nil)},
		{Name: "sign-out-post-rd", Direct: true, Run: c06Simple(plain, "POST", "/oauth2/sign_out", url.Values{"rd": {"{s}"}}, "location", nil)},
		{Name: "sign-out-xauth", Direct: true, Run: c06Simple(plain, "GET", "/oauth2/sign_out", nil, "location", xauth)},
		{Name: "sign-in-page-rd", Direct: true, Run: c06Simple(plain, "GET", "/oauth2/sign_in?rd={rd}", nil, "location", nil)},
		{Name: "sign-in-page-xauth", Direct: true, Run: c06Simple(plain, "GET", "/oauth2/sign_in", nil, "location", xauth)},
		{Name: "error-page-rd", Direct: true, Run: c06Simple(plain, "GET", "/oauth2/callback?error=access_denied&rd={rd}", nil, "location", nil)},
		{Name: "error-page-xauth", Direct: true, Run: c06Simple(plain, "GET", "/oauth2/callback?error=access_denied", nil, "location", xauth)},
		{Name: "raw-request-target", Raw: true, Run: func(e *c06Env, s string) *c06Obs {
			o := &c06Obs{}
			if !strings.HasPrefix(s, "/") {
				o.Note = "not an origin-form request target"
				return o
			}
			resp := world.Serve(e.px.H, &world.Req{Method: "GET", Target: s, Host: c06Host})
			if resp.ParseErr != nil {
				o.Note = "request does not parse: " + resp.ParseErr.Error()
				return o
			}
			o.Delivered = true
			e.collect(o, resp, "clean-redirect")
			return o
		}},
		{Name: "skip-button-raw-target-callback", Login: true, Raw: true, Run: func(e *c06Env, s string) *c06Obs {
			o := &c06Obs{}
			if !strings.HasPrefix(s, "/") {
				o.Note = "not an origin-form request target"
				return o
			}
			e.freshIdP()
			b := newBrowser(e.skip, "http", c06Host)
			start := b.Get(s)
			if start.ParseErr != nil {
				o.Note = "request does not parse: " + start.ParseErr.Error()
				return o
			}
			o.Delivered = true
			if start.Status != http.StatusFound || !strings.HasPrefix(start.Location(), world.Issuer) {
				e.collect(o, start, "clean-redirect")
				return o
			}
			e.finishLogin(o, b, start, nil)
			return o
		}},
		{Name: "rp-sign-out-xf-uri", Run: c06Simple(rp, "GET", "/oauth2/sign_out", nil, "location", xfURI)},
		{Name: "rp-sign-out-xf-host", NoRoot: true, Run: c06Simple(rp, "GET", "/oauth2/sign_out", nil, "location", xfHost)},
		{Name: "rp-sign-out-xf-proto", NoRoot: true, Run: c06Simple(rp, "GET", "/oauth2/sign_out", nil, "location", xfProto)},
		{Name: "rp-sign-out-xf-host-uri", Run: c06Simple(rp, "GET", "/oauth2/sign_out", nil, "location", xfHostURI)},
		{Name: "rp-sign-in-post-xf-host-uri", Run: c06Simple(rp, "POST", "/oauth2/sign_in", creds, "location", xfHostURI)},
		{Name: "rp-sign-in-page-xf-uri", Run: c06Simple(rp, "GET", "/oauth2/sign_in", nil, "location", xfURI)},
		{Name: "rp-error-page-xf-host", NoRoot: true, Run: c06Simple(rp, "GET", "/oauth2/callback?error=access_denied", nil, "location", xfHost)},
		{Name: "rp-error-page-xf-host-uri", Run: c06Simple(rp, "GET", "/oauth2/callback?error=access_denied", nil, "location", xfHostURI)},
	}
}

// c06JudgeObs applies the oracle to everything one entry produced. It returns the first failing
// (key, message) or "" and updates counters when count is set.
func c06JudgeObs(c *Ctx, ent *c06EntryDef, e *c06Env, s string, o *c06Obs, count bool) (key, msg, tkind string) {
	inc := func(n string) {
		if count {
			c.Inc(n)
		}
	}
	carried := false
	for _, t := range o.Targets {
		if t.Kind == "login-start" {
			inc("e2e_login_start_checked")
			wire, ok := c06Wire(t.Value)
			r := whatwg.Resolve(c06Bases[0], wire)
			if !ok || r.Kind != whatwg.Resolved || r.Scheme != "https" || r.Host != c06IdPHost || r.Port != "" || !(r.Rest == "/authorize" || strings.HasPrefix(r.Rest, "/authorize?")) {
				if key == "" {
					key, tkind = "C06/"+ent.Name+"/login-start-target", t.Kind
					msg = fmt.Sprintf("login start redirect %q does not target the configured authorization endpoint %s/authorize (resolves to %s%s)", wire, world.Issuer, r.Origin(), r.Rest)
				}
			}
			continue
		}
		value := t.Value
		if t.Kind == "location" || t.Kind == "clean-redirect" {
			w, ok := c06Wire(t.Value)
			if !ok {
				if key == "" {
					key, msg, tkind = "C06/"+ent.Name+"/location-not-one-field-line", fmt.Sprintf("Location %q is serialised as %q", t.Value, w), t.Kind
				}
				continue
			}
			value = w
		}
		class, detail, root := c06Classify(e.wl, value, o.FwdHost)
		inc("e2e_class_" + class)
		inc("e2e_kind_" + t.Kind + "_" + class)
		if !root {
			carried = true
			inc("e2e_" + ent.Name + "_carried")
		} else {
			inc("e2e_" + ent.Name + "_root")
		}
		if class == c06WhiteAmb || class == c06FwdHost {
			inc("ambiguous")
		}
		if class == c06White || class == c06WhiteAmb || class == c06FwdHost {
			inc("e2e_" + ent.Name + "_offsite_allowed")
			if count {
				c.Sample(3, map[string]any{"layer": "endpoint", "entry": ent.Name, "whitelist": e.wl.Entries, "input_quoted": strconv.Quote(s), "target_kind": t.Kind, "target": value, "class": class})
			}
		}
		if c06Bad(class) {
			if key == "" {
				key, tkind = e.attribute(ent, s, t, t.Kind+"-"+class), t.Kind
				msg = fmt.Sprintf("whitelist %v, entry %s, input %q: %s %q; %s", e.wl.Entries, ent.Name, s, t.Kind, value, detail)
			}
			continue
		}
		// "anything else is replaced by /": a refused input must come out as exactly the root
		if ent.Direct && !root && t.Kind != "link" {
			if in, _, _ := c06Classify(e.wl, s, ""); c06Bad(in) {
				if key == "" {
					key, tkind = e.attribute(ent, s, t, "not-replaced-by-root"), t.Kind
					msg = fmt.Sprintf("whitelist %v, entry %s: input %q is not an allowed target (%s) but the %s is %q, not \"/\"", e.wl.Entries, ent.Name, s, in, t.Kind, value)
				}
			}
		}
	}
	if count && carried {
		c.Distinct("distinct_nontrivial", "L2|"+ent.Name+"|"+e.wl.Name+"|"+s)
	}
	return
}

// attribute chooses the finding key: if the validator itself lets the string through, the root cause is
// the validator (one key for all entry points); otherwise this entry point emitted something the
// validator refuses, and the entry point is the root cause.
func (e *c06Env) attribute(ent *c06EntryDef, s string, t c06Target, what string) string {
	if e.val.IsValidRedirect(s) || e.val.IsValidRedirect(t.Value) {
		return "C06/validator-accepts/" + what
	}
	return "C06/" + ent.Name + "/" + what
}

func c06RunEntry(c *Ctx, ent *c06EntryDef, e *c06Env, s string) {
	o := ent.Run(e, s)
	c.Inc("evaluations")
	c.Inc("e2e_cases")
	if strings.HasPrefix(o.Note, "panic") {
		c.Inc("e2e_panics")
		c.Note("C06 saw a panic (C19's concern): entry %s input %q: %s", ent.Name, s, o.Note)
	}
	if !o.Delivered {
		c.Inc("e2e_undeliverable")
		return
	}
	c.Inc("e2e_" + ent.Name + "_delivered")
	if o.Note == "logged-in" {
		c.Inc("e2e_logins_completed")
	}
	key, msg, tkind := c06JudgeObs(c, ent, e, s, o, true)
	if key == "" {
		return
	}
	cs := c06NewCase("endpoint", ent.Name, e.wl, s)
	cs.Target = tkind
	cs.Observed = msg
	cs.Expected = "a target on " + c06Host + " or permitted by the whitelist, otherwise \"/\"; login start on " + world.Issuer + "/authorize"
	c.confirm(key, msg, len(s), cs, func() (string, bool) {
		k, _, _ := c06JudgeObs(c, ent, e, s, ent.Run(e, s), false)
		return k, k != ""
	})
}

type c06Str struct {
	s    string
	ntok int // number of tokens, 0 for product strings
}

func c06Layer2(c *Ctx, up *world.Upstream, L, heavyL int, product []string, wls []*c06WL) {
	entries := c06Entries()
	var mine []c06Str
	c06Enumerate(c06Tokens, L, func(b []byte, ntok int) bool {
		if c.Mine(c06Hash(b)) {
			mine = append(mine, c06Str{string(b), ntok})
		}
		return true
	})
	for _, s := range product {
		if c.Mine(c06Hash([]byte(s))) {
			mine = append(mine, c06Str{s, 0})
		}
	}
	seen := map[string]bool{}
	for _, wl := range wls {
		e := c06NewEnv(wl, up)
		for k := range seen {
			delete(seen, k)
		}
		for _, m := range mine {
			if seen[m.s] {
				c.Inc("e2e_duplicate_strings_skipped")
				continue
			}
			seen[m.s] = true
			if c.Expired() {
				return
			}
			c.Inc("e2e_strings")
			for _, ent := range entries {
				if ent.Heavy && m.ntok > heavyL {
					continue
				}
				c06RunEntry(c, ent, e, m.s)
			}
		}
		up.Take()
	}
}

// ---- layer 3: the positive clause

var c06Segments = []string{"a", "B9", "-._~", "%41", "%2F", "+", ";", "=", "&", "%C3%A9"}
var c06Queries = []string{"", "?x=1", "?a=%2F&b=+c", "?q=%C3%A9&r==", "?k", "?from=10%3A30&title=a%26b%3Dc", "?return_to=https%3A%2F%2Fapp.example.com%2Fx%3Fy%3D1", "?p=100%25&c=%3a"}

func c06PlainPaths(depth int) []string {
	var out []string
	var rec func(prefix string, d int)
	rec = func(prefix string, d int) {
		for _, sg := range c06Segments {
			p := prefix + "/" + sg
			out = append(out, p, p+"/")
			if d+1 < depth {
				rec(p, d+1)
			}
		}
	}
	rec("", 0)
	// application paths that merely begin with the characters of one of the proxy's own paths
	// (no segment boundary after them): they are the application's, not the proxy's
	out = append(out, "/oauth2-proxy-docs/x", "/oauth2.html", "/oauth2demo/", "/oauth2x", "/oauth", "/oauth2_/a", "/pingpong", "/ready-set", "/robots.txt.bak", "/oauth2%2Fsign_in")
	return out
}

func c06PositiveFlow(e *c06Env, flow, page string) (landed string, note string) {
	switch flow {
	case "sign-in-page+provider", "sign-in-page+htpasswd":
		b := newBrowser(e.px, "http", c06Host)
		r := b.Get(page)
		if r.ParseErr != nil {
			return "", "unparseable"
		}
		rds := c06Attrs(r.Body, c06HiddenRD)
		if len(rds) == 0 {
			return "", fmt.Sprintf("no sign-in page for the unauthenticated request (status %d)", r.Status)
		}
		for _, m := range rds {
			if v := html.UnescapeString(m); v != page {
				return "", fmt.Sprintf("sign-in page carries rd=%q", v)
			}
		}
		rd := html.UnescapeString(rds[0])
		if flow == "sign-in-page+htpasswd" {
			resp := b.PostForm("/oauth2/sign_in", url.Values{"rd": {rd}, "username": {"hu"}, "password": {"hp"}})
			if resp.Status != http.StatusFound {
				return "", fmt.Sprintf("form login answered %d", resp.Status)
			}
			w, _ := c06Wire(resp.Location())
			return w, ""
		}
		e.freshIdP()
		start := b.Get("/oauth2/start?rd=" + url.QueryEscape(rd))
		return c06FinishPositive(e, b, start)
	case "skip-provider-button":
		e.freshIdP()
		b := newBrowser(e.skip, "http", c06Host)
		return c06FinishPositive(e, b, b.Get(page))
	}
	return "", "unknown flow"
}

func c06FinishPositive(e *c06Env, b *Browser, start *world.Resp) (string, string) {
	if start.Status != http.StatusFound {
		return "", fmt.Sprintf("login start answered %d", start.Status)
	}
	cb, _, err := e.idp.Authorize(start.Location(), "alice")
	if err != nil {
		return "", err.Error()
	}
	resp := b.Callback(cb)
	if resp.Status != http.StatusFound {
		return "", fmt.Sprintf("callback answered %d", resp.Status)
	}
	w, _ := c06Wire(resp.Location())
	return w, ""
}

var c06Flows = []string{"sign-in-page+provider", "sign-in-page+htpasswd", "skip-provider-button"}

func c06Layer3(c *Ctx, up *world.Upstream, depth int) {
	paths := c06PlainPaths(depth)
	c.Info["positive_alphabet"] = map[string]int{"segments": len(c06Segments), "depth": depth, "paths": len(paths), "queries": len(c06Queries), "flows": len(c06Flows)}
	wls := c06Whitelists()
	envs := map[int]*c06Env{}
	n := 0
	for _, p := range paths {
		for _, q := range c06Queries {
			page := p + q
			n++
			if !c.Mine(c06Hash([]byte(page))) {
				continue
			}
			if c.Expired() {
				return
			}
			wi := []int{0, 2}[n%2]
			e := envs[wi]
			if e == nil {
				e = c06NewEnv(wls[wi], up)
				envs[wi] = e
			}
			for _, flow := range c06Flows {
				c.Inc("evaluations")
				c.Inc("positive_cases")
				landed, note := c06PositiveFlow(e, flow, page)
				if landed == page {
					c.Inc("positive_landed_exactly")
					c.Distinct("distinct_nontrivial", "L3|"+flow+"|"+page)
					continue
				}
				cs := c06NewCase("positive", flow, e.wl, page)
				cs.Expected = "Location after login == the requested path+query, byte for byte"
				cs.Observed = fmt.Sprintf("Location %q %s", landed, note)
				key := "C06/positive/" + flow
				c.confirm(key, fmt.Sprintf("flow %s: requested %q before login, landed on %q %s", flow, page, landed, note), len(page), cs,
					func() (string, bool) { l, _ := c06PositiveFlow(e, flow, page); return key, l != page })
			}
		}
	}
	// a query with ';' is not "plain": net/http refuses semicolon separators unless the documented
	// --allow-query-semicolons option is set. Both outcomes are admissible; they are counted, never alarmed.
	for _, sg := range c06Segments {
		page := "/" + sg + "?x=1;y=2"
		if !c.Mine(c06Hash([]byte(page))) {
			continue
		}
		e := envs[0]
		if e == nil {
			e = c06NewEnv(wls[0], up)
			envs[0] = e
		}
		for _, flow := range c06Flows {
			c.Inc("ambiguous")
			if landed, _ := c06PositiveFlow(e, flow, page); landed == page {
				c.Inc("positive_semicolon_query_landed_exactly")
			} else if landed == "" {
				c.Inc("positive_semicolon_query_refused")
			} else {
				c.Inc("positive_semicolon_query_landed_elsewhere")
				if cl, _, _ := c06Classify(e.wl, landed, ""); c06Bad(cl) {
					c.Violate("C06/positive/semicolon-query-off-origin", fmt.Sprintf("flow %s: requested %q, landed on %q", flow, page, landed), len(page), c06NewCase("positive", flow, e.wl, page))
				}
			}
		}
	}
	up.Take()
}

// ---- registration

func c06SelfTest(c *Ctx) bool {
	bad := whatwg.SelfTest()
	for _, m := range bad {
		c.Error("%s", m)
	}
	// the reference whitelist model on the documented examples
	type row struct {
		wl     *c06WL
		url    string
		strict bool
	}
	for _, r := range []row{
		{c06MakeWL("t", ".example.com"), "https://a.example.com/", true},
		{c06MakeWL("t", "*.example.com"), "https://a.b.example.com/", true},
		{c06MakeWL("t", ".example.com"), "https://xexample.com/", false},
		{c06MakeWL("t", ".example.com"), "https://a.example.com:8080/", false},
		{c06MakeWL("t", "example.com:8080"), "https://example.com:8080/", true},
		{c06MakeWL("t", "example.com:8080"), "https://example.com/", false},
		{c06MakeWL("t", "example.com:*"), "http://example.com:1234/", true},
		{c06MakeWL("t", "example.com"), "http://example.com:80/", true},
		{c06MakeWL("t", "example.com"), "http://example.com.evil.example/", false},
		{c06MakeWL("t"), "http://example.com/", false},
	} {
		s, _ := r.wl.permits(whatwg.Resolve(c06Bases[0], r.url))
		if s != r.strict {
			c.Error("reference whitelist self-test: %v permits %s = %v, want %v", r.wl.Entries, r.url, s, r.strict)
			bad = append(bad, "wl")
		}
	}
	return len(bad) == 0
}

type c06Bound struct {
	L1, L2, HeavyL2, Depth, Random int
	ProductE2E                     int
}

func c06Bounds(quick bool) c06Bound {
	if quick {
		return c06Bound{L1: 4, L2: 2, HeavyL2: 2, Depth: 2, Random: 0, ProductE2E: 0}
	}
	return c06Bound{L1: 5, L2: 3, HeavyL2: 2, Depth: 3, Random: 20000, ProductE2E: 1}
}

func init() {
	register(&checkDef{
		id:    "C06",
		level: "exploration",
		rule: "layer 1: every concatenation of <= L1 tokens (+ absolute-URL grammar product) x 8 whitelists through IsValidRedirect, accepted strings through the real http.Redirect + header serialisation + independent WHATWG resolver; " +
			"layer 2: every concatenation of <= L2 tokens (+ product) x 9 whitelists x 27 real entry points of a built proxy (Location of every 3xx, action/hidden rd/links of sign-in and error pages, login-start target); " +
			"layer 3: every plain path (<= depth segments) x query x 3 login flows must land byte for byte. " +
			"non-trivial = layer 1: distinct string the validator accepted under some whitelist; layer 2: distinct (entry, whitelist, string) whose observed target is not the fallback \"/\"; layer 3: distinct (flow, page) that landed exactly",
		assumptions: []string{
			"browser behaviour = WHATWG URL Standard basic URL parser for http/https (engine/whatwg, self-tested against the table of DESIGN.md Appendix C before every run); non-ASCII hosts are 'unresolvable' (no IDNA tables) and never alarm",
			"the request origin is good.example over http or https (both are tried for every target; the worse verdict counts); same host on another scheme/port counts as 'the host the request was made to'",
			"whitelist reference: h = exact host; .h / *.h = every host ending in .h (apex admissible either way, counted as ambiguous); no port = default port of the scheme, :p = that port, :* = any",
			"in reverse-proxy mode the literal X-Forwarded-Host is also admissible as 'the host the request was made to' (counted as ambiguous when it decides)",
			"header-borne inputs (X-Auth-Request-Redirect, X-Forwarded-*) are only delivered when net/http's server would let the value through (no control characters); request targets only in origin form",
			"random longer strings (thorough) are a seeded supplement reported under supplement_random_*, never counted in evaluations or distinct_nontrivial",
		},
		shards: func(tier string) int { return 16 },
		run: func(c *Ctx) {
			if !c06SelfTest(c) {
				return
			}
			c.Inc("resolver_selftest_rows_passed")
			bd := c06Bounds(c.Quick())
			l1, l2, depth, random := bd.L1, bd.L2, bd.Depth, bd.Random
			product := c06Product(2)
			productE2E := c06Product(bd.ProductE2E)
			wls := c06Whitelists()
			c.Info["alphabet"] = map[string]any{
				"tokens": len(c06Tokens), "whitelists": len(wls), "entry_points": len(c06Entries()),
				"L_validator": l1, "L_endpoints": l2, "L_endpoints_second_route_logins": bd.HeavyL2,
				"strings_validator": c06UniverseSize(len(c06Tokens), l1) + int64(len(product)),
				"strings_endpoints": c06UniverseSize(len(c06Tokens), l2) + int64(len(productE2E)),
				"product_validator": len(product), "product_endpoints": len(productE2E),
				"resolver_selftest_rows": whatwg.SelfTestSize(),
			}
			world.NewIdP()
			up := world.NewUpstream("u")
			defer up.Close()
			t0 := time.Now()
			lap := func(name string) {
				c.SetMax("slowest_shard_ms_"+name, time.Since(t0).Milliseconds())
				t0 = time.Now()
			}
			concExplore(c, "C06", c06ConcScenarios(up), 1, 2, concEvery["C06"]...)
			lap("concurrent")
			c06Layer1(c, l1, product)
			lap("layer1")
			c06Layer2(c, up, l2, bd.HeavyL2, productE2E, wls)
			lap("layer2")
			c06Layer3(c, up, depth)
			lap("layer3")
			if random > 0 {
				c06Random(c, random)
				lap("random")
			}
		},
		finish: func(c *Ctx) {
			if len(c.Errors) > 0 || !c.Exhaustive {
				return
			}
			need := func(names ...string) {
				for _, n := range names {
					if c.Counters[n] == 0 {
						c.Error("vacuous: counter %s is 0 (an outcome class that must appear never appeared)", n)
					}
				}
			}
			need("resolver_selftest_rows_passed", "l1_accepted", "l1_rejected", "l1_class_"+c06Same, "l1_class_"+c06White)
			for _, w := range c06Whitelists() {
				if len(w.Entries) > 0 {
					need("l1_abs_accepted_" + w.Name)
				}
			}
			for _, ent := range c06Entries() {
				need("e2e_" + ent.Name + "_delivered")
				if !ent.NoRoot {
					need("e2e_" + ent.Name + "_root")
				}
				if ent.Fails {
					continue // nothing is ever carried by a callback that fails: every page points at "/"
				}
				need("e2e_" + ent.Name + "_carried")
				if !ent.Raw {
					need("e2e_" + ent.Name + "_offsite_allowed")
				}
			}
			need("e2e_login_start_checked", "e2e_logins_completed", "e2e_class_"+c06White,
				"e2e_kind_hidden-rd_"+c06Same, "e2e_kind_action_"+c06Same, "e2e_kind_hidden-rd_"+c06White, "e2e_kind_action_"+c06White,
				"e2e_kind_location_"+c06White, "e2e_kind_clean-redirect_"+c06Same, "positive_landed_exactly")
			if c.Tier == "thorough" {
				need("supplement_random_validator_calls")
			}
		},
		replay: c06Replay,
	})
}

func c06Replay(c *Ctx, raw json.RawMessage) string {
	var cr0 concReplay
	if json.Unmarshal(raw, &cr0) == nil && cr0.Kind == concKind {
		world.NewIdP()
		up := world.NewUpstream("u")
		defer up.Close()
		return concReplayOne(c, "C06", c06ConcScenarios(up), cr0, concEvery["C06"]...)
	}
	var cs c06Case
	if err := json.Unmarshal(raw, &cs); err != nil {
		return "unreadable case: " + err.Error()
	}
	b, err := hex.DecodeString(cs.InputHex)
	if err != nil {
		return "unreadable input: " + err.Error()
	}
	s := string(b)
	wl := c06MakeWL(cs.WLName, cs.Whitelist...)
	if !c06SelfTest(c) {
		return "resolver self-test failed"
	}
	switch cs.Layer {
	case "validator":
		l := c06NewL1(c)
		ok := redirect.NewValidator(wl.Entries).IsValidRedirect(s)
		if !ok {
			return fmt.Sprintf("IsValidRedirect(%q)=false", s)
		}
		wire, _ := l.realRedirect(s)
		class, detail, _ := c06Classify(wl, wire, "")
		if c06Bad(class) {
			c.Violate("C06/validator/"+class, detail, len(s), cs)
		}
		return fmt.Sprintf("IsValidRedirect(%q)=true, Location %q: %s (%s)", s, wire, class, detail)
	case "endpoint":
		world.NewIdP()
		up := world.NewUpstream("u")
		defer up.Close()
		e := c06NewEnv(wl, up)
		for _, ent := range c06Entries() {
			if ent.Name != cs.Entry {
				continue
			}
			o := ent.Run(e, s)
			key, msg, _ := c06JudgeObs(c, ent, e, s, o, false)
			if key != "" {
				c.Violate(key, msg, len(s), cs)
				return msg
			}
			var ts []string
			for _, t := range o.Targets {
				ts = append(ts, t.Kind+"="+strconv.Quote(t.Value))
			}
			sort.Strings(ts)
			return "no violation; targets: " + strings.Join(ts, " ") + " " + o.Note
		}
		return "unknown entry " + cs.Entry
	case "positive":
		world.NewIdP()
		up := world.NewUpstream("u")
		defer up.Close()
		e := c06NewEnv(wl, up)
		landed, note := c06PositiveFlow(e, cs.Entry, s)
		if landed != s {
			c.Violate("C06/positive/"+cs.Entry, fmt.Sprintf("requested %q, landed on %q %s", s, landed, note), len(s), cs)
		}
		return fmt.Sprintf("requested %q, landed on %q %s", s, landed, note)
	}
	return "unknown layer " + cs.Layer
}
