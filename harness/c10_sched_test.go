//go:build verif

package main

import (
	"fmt"
	"net/http/httptest"
	"os"
	"strings"

	"github.com/oauth2-proxy/oauth2-proxy/v7/pkg/apis/sessions"
	"github.com/oauth2-proxy/oauth2-proxy/v7/verifx/explore"
	"github.com/oauth2-proxy/oauth2-proxy/v7/verifx/sched"
	"github.com/oauth2-proxy/oauth2-proxy/v7/verifx/vatomic"
	"github.com/oauth2-proxy/oauth2-proxy/v7/verifx/vrt"
	"github.com/oauth2-proxy/oauth2-proxy/v7/verifx/world"
)

// C10, concurrent browsers: "a browser ... presents on its next request exactly that session"
// must also hold while another browser saves and loads at the same time. Two controlled threads,
// each with its own jar, run save(s_i); load; save(s_i'); load through the real store; every
// synchronisation operation of the session encoding / store packages (sync.Mutex, sync.Pool ...,
// swapped for the scheduler's shims at build time) and every Redis call is a scheduling point, and
// all interleavings are explored. On a tree whose session path shares nothing between requests
// there is nothing to interleave and the part costs a handful of executions; a cache or pool
// introduced there makes its operations scheduling points at once.
func c10Concurrent(c *Ctx, up *world.Upstream) {
	vatomic.Hooks = true
	// With the wide instrumentation (check.sh) every statement of the session encoding, encryption
	// and store packages that touches shared data is a scheduling point as well; the exploration is
	// then bounded by preemptions instead of running to exhaustion.
	wide := os.Getenv("VERIF_WIDE") == "1"
	maxCost := 1000
	if wide {
		vrt.Enabled = true
		// the session path's packages at statement level: a shared object may be reached through a local
		// variable (a hasher or buffer taken out of a shared container and used over several statements)
		vrt.AllStatements = map[string]bool{"pkg/encryption": true, "pkg/sessions/cookie": true, "pkg/sessions/persistence": true, "pkg/sessions/redis": true,
			"pkg/apis/sessions": true, "pkg/cookies": true}
		defer func() { vrt.Enabled = false; vrt.AllStatements = nil }()
		maxCost = 1
		if !c.Quick() {
			maxCost = 2
		}
	}
	c.Info["concurrent_part"] = map[string]any{"wide_instrumentation": wide, "preemption_bound": maxCost}
	for _, store := range []string{"cookie", "redis"} {
		cfg := &ProxyCfg{Flags: append(baseFlags(up.URL()), "--email-domain=*", "--cookie-secure=false")}
		if store == "redis" {
			cfg.Redis = world.NewRedis()
		}
		px := mustProxy(cfg)
		mk := func(who string, n int) *sessions.SessionState {
			return &sessions.SessionState{Email: who + "@example.com", User: who, PreferredUsername: who + "-pu", AccessToken: who + "-" + c02Incompressible(n, int64(len(who)+n))}
		}
		type result struct {
			ok  bool
			msg string
		}
		body := func(x *explore.Exec) (out *sched.Outcome, results [2][]result) {
			world.ResetClock()
			world.SeedRandom(c.Seed, 0)
			if cfg.Redis != nil {
				cfg.Redis.M.FlushAll()
			}
			s := sched.New(x, sched.Options{Horizon: 400, MaxSteps: 50000})
			for t := 0; t < 2; t++ {
				t := t
				who := []string{"anna", "bert"}[t]
				s.Go(who, func() {
					jar := world.NewJar()
					for round, n := range []int{900, 5200} {
						want := mk(who, n+round)
						rec := httptest.NewRecorder()
						req, _ := (&world.Req{Method: "GET", Target: "/", Host: "app.example.com", Headers: cookieHdr(jar)}).Parse()
						if err := verifSessionStore(px.P).Save(rec, req, want); err != nil {
							results[t] = append(results[t], result{false, fmt.Sprintf("%s: save %d failed: %v", who, round, err)})
							continue
						}
						jar.SetCookies("http", "app.example.com", "/", rec.Header())
						req2, _ := (&world.Req{Method: "GET", Target: "/", Host: "app.example.com", Headers: cookieHdr(jar)}).Parse()
						got, err := verifSessionStore(px.P).Load(req2)
						switch {
						case err != nil || got == nil:
							results[t] = append(results[t], result{false, fmt.Sprintf("%s: the session saved a moment ago does not load (%v)", who, err)})
						case got.Email != want.Email || got.User != want.User || got.AccessToken != want.AccessToken || got.PreferredUsername != want.PreferredUsername:
							results[t] = append(results[t], result{false, fmt.Sprintf("%s: loaded a different session than the one saved: e-mail %q user %q (token equal: %v)", who, got.Email, got.User, got.AccessToken == want.AccessToken)})
						default:
							results[t] = append(results[t], result{true, ""})
						}
					}
				})
			}
			return s.Run(), results
		}
		stats := explore.Run(explore.Config{Stop: schedStuck, MaxCost: maxCost, Deadline: c.Deadline, MaxExecs: 2000000, Shard: c.Shard, Shards: c.Shards, ShardDepth: 2, TolerateDivergence: wide, MaxDivergences: 16}, func(x *explore.Exec, own bool) {
			out, results := body(x)
			if !own {
				return
			}
			c.Inc("evaluations")
			c.Inc("concurrent_executions")
			c.Add("transitions", int64(out.Steps))
			c.Inc("traces_validated_against_impl")
			c.Distinct("distinct_nontrivial", "conc|"+store+"|"+sched.DescribeOrder(out.Order))
			cs := map[string]any{"kind": "concurrent-browsers", "store": store, "thread_order": sched.DescribeOrder(out.Order), "choices": x.Choices()}
			if concInconclusive(c, concAbortText(out)) {
				return
			}
			if out.Aborted != "" {
				c.Violate("C10/concurrent/"+out.Aborted, fmt.Sprintf("%s store: two browsers saving and loading concurrently: %s (%v)", store, out.Aborted, out.Blocked), 50, cs)
				return
			}
			for _, p := range out.Panics {
				c.Violate("C10/concurrent/panic", fmt.Sprintf("%s store: %s", store, p), 50, cs)
			}
			for t := range results {
				for _, r := range results[t] {
					if !r.ok {
						choices := x.Choices()
						c.confirm("C10/concurrent/other-browser-interferes", fmt.Sprintf("%s store, thread order %s: %s", store, sched.DescribeOrder(out.Order), strings.TrimSpace(r.msg)), len(choices), cs,
							func() (string, bool) {
								_, res2 := body(explore.Replay(choices, nil))
								for t2 := range res2 {
									for _, r2 := range res2[t2] {
										if !r2.ok {
											return "C10/concurrent/other-browser-interferes", true
										}
									}
								}
								return "", false
							})
						return
					}
				}
			}
		})
		c.Add("states", int64(stats.States))
		if !stats.Exhaustive {
			c.Exhaustive = false
			c.Note("concurrent part (%s): not exhaustive", store)
		}
		if cfg.Redis != nil {
			cfg.Redis.Close()
		}
	}
}

func cookieHdr(j *world.Jar) [][2]string {
	if h := j.Header("http", "app.example.com", "/"); h != "" {
		return [][2]string{{"Cookie", h}}
	}
	return nil
}
