//go:build verif

package main

import (
	"encoding/json"
	"fmt"
	"net/url"
	"os"
	"path/filepath"
	"regexp"
	"sort"
	"strconv"
	"strings"
	"syscall"
	"time"

	"github.com/oauth2-proxy/oauth2-proxy/v7/pkg/cookies"
	"github.com/oauth2-proxy/oauth2-proxy/v7/verifx/world"
)

// C03, second history search: what the first one (c03_test.go) leaves out.
//
//   stores      the Redis session store: the CSRF cookie stays a cookie, the session becomes a ticket
//               (a key in the store plus a signed ticket cookie)
//   lifetimes   --cookie-expire=0 (session cookies, signed values never expire on the server side),
//               --cookie-csrf-expire=1m, and a --cookie-expire shorter than --cookie-csrf-expire; the
//               virtual clock advances by 20 s / 7 min / 16 min between start and callback
//   replays     a callback sent again: the browser re-sends its last callback URL (same code), and a
//               recorded request (state + CSRF cookie of the login) is replayed with the code of the
//               browser's own callback (spent if that callback reached the provider) or with a code
//               freshly issued for the same login
//   instances   a second proxy instance (other cookie secret / other cookie name / both) at another
//               port of the same host: one cookie jar serves both, every callback is sent to either
//
// Operations: start(browser, instance), advance(kind), complete(sender, instance, login x, state
// variant, cookie variant, code). Breadth-first over histories, every history replayed on a fresh
// world (proxies, jars, provider, stores, clock, random stream); states de-duplicated on decrypted
// jar contents + model flags + code status + sessions + clock.
//
// Oracle — the biconditional of c03_test.go with "same login" spelled out for this world:
//   only-if   session cookie in the answer  =>  the request went to the instance that started login x,
//             carried x's unmodified state nonce and x's unmodified CSRF cookie (name and value), and —
//             for requests a browser sends from its jar — x's CSRF lifetime had not passed.
//   error     every other request gets an error page (status >= 400), no session cookie, and leaves
//             no new session in either store.
//   if        a browser that sends, from its jar, to the instance that started x, the unmodified
//             state with a fresh code while the model says x is outstanding (started here, not
//             superseded under a shared cookie name, no callback sent for it since, CSRF lifetime and
//             the signed-value window both not passed) gets a session cookie — and with the Redis
//             store exactly one new key in that instance's store.
//   state     an outstanding login's CSRF cookie (both lifetimes not passed) is still sent by its browser.
// Left open by the statement, admitted both ways and counted (class_ambiguous-*):
//   * a hand-made request presenting the CSRF cookie after its browser lifetime (Max-Age =
//     cookie-csrf-expire) has passed: the statement does not say that the proxy itself has to
//     enforce that lifetime; it must reject once cookie-expire (> 0) has passed as well;
//   * the same state + CSRF cookie presented again after the login was completed, with a fresh
//     code: the proxy keeps no record of completed logins, the statement does not ask for one;
//   * a jar-sent callback inside the CSRF lifetime but after a shorter cookie-expire: may fail.
// A session out of a replay whose code the provider had already redeemed is reported under its own
// key (C03/session-from-spent-code): the provider refuses such a code, so the session cannot stem
// from the login the callback claims to complete.
//
// Knobs: VERIF_C03X_ONLY (one configuration), VERIF_C03X_DEPTH, VERIF_C03X_OFF=1 (skip this part).

const (
	c03xSecondName = "_verif_q"
	c03xHostP      = "app.example.com"
	c03xHostQ      = "app.example.com:8080"
)

type c03xCfg struct {
	Store      string `json:"store"`              // cookie | redis
	Expire     string `json:"cookie_expire"`      // flag value
	CSRFExpire string `json:"cookie_csrf_expire"` // flag value
	Second     string `json:"second_instance"`    // "" | secret | name | both
	PerRequest bool   `json:"csrf_per_request"`
	Encode     bool   `json:"encode_state"`
	PKCE       bool   `json:"pkce_s256"`
	MaxA       int    `json:"logins_in_A"`
	MaxB       int    `json:"logins_in_B"`
	MaxOps     int    `json:"max_operations"`          // history length including the final operation
	MaxAdv     int    `json:"clock_steps_per_history"` // at most one of each kind
}

func (k c03xCfg) String() string {
	s := k.Second
	if s == "" {
		s = "none"
	}
	return fmt.Sprintf("store=%s,expire=%s,csrf=%s,second=%s,perreq=%v,encode=%v,pkce=%v,bound=%d+%d/%d/%d", k.Store, k.Expire, k.CSRFExpire, s, k.PerRequest, k.Encode, k.PKCE, k.MaxA, k.MaxB, k.MaxOps, k.MaxAdv)
}

func (k c03xCfg) durations() (expire, csrf time.Duration) {
	expire, _ = time.ParseDuration(k.Expire)
	csrf, _ = time.ParseDuration(k.CSRFExpire)
	return
}

func (k c03xCfg) flags(inst int) []string {
	secret, name := cookieSecret32, ""
	if inst == 1 {
		switch k.Second {
		case "secret":
			secret = c03Secret2
		case "name":
			name = c03xSecondName
		case "both":
			secret, name = c03Secret2, c03xSecondName
		}
	}
	f := []string{
		"--provider=oidc",
		"--oidc-issuer-url=" + world.Issuer,
		"--client-id=" + world.ClientID,
		"--client-secret=" + world.ClientSecret,
		"--cookie-secret=" + secret,
		"--http-address=-",
		"--upstream=static://200",
		"--email-domain=*",
		"--cookie-secure=false",
		"--cookie-expire=" + k.Expire,
		"--cookie-csrf-expire=" + k.CSRFExpire,
		"--cookie-csrf-per-request=" + strconv.FormatBool(k.PerRequest),
		"--encode-state=" + strconv.FormatBool(k.Encode),
	}
	if name != "" {
		f = append(f, "--cookie-name="+name)
	}
	if k.PKCE {
		f = append(f, "--code-challenge-method=S256")
	}
	return f
}

// the three clock steps; which of them a configuration uses follows from its lifetimes
var c03xAdvance = map[string]time.Duration{"20s": 20 * time.Second, "7m": 7 * time.Minute, "16m": 16 * time.Minute}
var c03xAdvanceOrder = []string{"20s", "7m", "16m"}

// advKinds: quick keeps one step per region {inside both lifetimes, past cookie-expire only, past the
// CSRF lifetime}; thorough keeps all three.
func (k c03xCfg) advKinds(quick bool) []string {
	if !quick {
		return c03xAdvanceOrder
	}
	expire, csrf := k.durations()
	seen := map[string]bool{}
	var out []string
	for _, n := range c03xAdvanceOrder {
		d := c03xAdvance[n]
		region := fmt.Sprintf("%v/%v", d >= csrf, expire > 0 && d >= expire)
		if !seen[region] {
			seen[region] = true
			out = append(out, n)
		}
	}
	if k.Expire == "168h" && k.CSRFExpire == "15m" && len(out) > 1 {
		// the default lifetimes are the first search's subject: only the step across the CSRF lifetime
		out = out[len(out)-1:]
	}
	return out
}

type c03xLifetime struct{ Expire, CSRF string }

// c03xConfigs: quick = three groups (Redis with the default lifetimes and a second browser; every
// other lifetime pair on both stores; every kind of second instance on both stores), 32 configurations;
// thorough = the full product store x lifetimes x second instance x per-request with a second browser
// (histories of <= 6 operations with one instance, <= 4 with two), 78 configurations.
// encode-state / PKCE rotate over the list (their product is the first search's subject).
func c03xConfigs(quick bool) []c03xCfg {
	var out []c03xCfg
	rot := 0
	add := func(k c03xCfg) {
		// all four encode-state/PKCE pairs on either side of the inner per-request loop
		i := (rot + rot/2) % 4
		k.Encode, k.PKCE = i == 1 || i == 2, i >= 2
		rot++
		if d := int(envInt("VERIF_C03X_DEPTH", 0)); d > 0 {
			k.MaxOps = d
		}
		out = append(out, k)
	}
	lifetimes := []c03xLifetime{{"0s", "15m"}, {"0s", "1m"}, {"168h", "1m"}, {"5m", "15m"}}
	if quick {
		for _, pr := range []bool{true, false} {
			for i := 0; i < 2; i++ {
				add(c03xCfg{Store: "redis", Expire: "168h", CSRFExpire: "15m", PerRequest: pr, MaxA: 2, MaxB: 1, MaxOps: 5, MaxAdv: 1})
			}
		}
		for _, lt := range lifetimes {
			for _, st := range []string{"cookie", "redis"} {
				for _, pr := range []bool{true, false} {
					add(c03xCfg{Store: st, Expire: lt.Expire, CSRFExpire: lt.CSRF, PerRequest: pr, MaxA: 2, MaxOps: 5, MaxAdv: 2})
				}
			}
		}
		for _, sec := range []string{"secret", "name", "both"} {
			for _, st := range []string{"cookie", "redis"} {
				for _, pr := range []bool{true, false} {
					add(c03xCfg{Store: st, Expire: "168h", CSRFExpire: "15m", Second: sec, PerRequest: pr, MaxA: 2, MaxOps: 4, MaxAdv: 1})
				}
			}
		}
		return out
	}
	for _, st := range []string{"cookie", "redis"} {
		for _, lt := range append([]c03xLifetime{{"168h", "15m"}}, lifetimes...) {
			for _, sec := range []string{"", "secret", "name", "both"} {
				for _, pr := range []bool{true, false} {
					if st == "cookie" && lt.Expire == "168h" && lt.CSRF == "15m" && sec == "" {
						continue // the first search
					}
					depth := 6
					if sec != "" {
						depth = 4 // twice the requests per state, and every start doubles the successors
					}
					add(c03xCfg{Store: st, Expire: lt.Expire, CSRFExpire: lt.CSRF, Second: sec, PerRequest: pr, MaxA: 2, MaxB: 1, MaxOps: depth, MaxAdv: 2})
				}
			}
		}
	}
	return out
}

type c03xBound struct {
	Full  bool // full product of state variants x cookie variants x codes x instances
	Quick bool
}

func c03xBounds(quick bool) c03xBound {
	return c03xBound{Full: !quick, Quick: quick}
}

// ---------------------------------------------------------------------------------------------
// operations

type c03xOp struct {
	Kind    string `json:"op"`                // start | advance | complete
	Browser int    `json:"browser"`           // start: 0=A 1=B; complete: sender 0=A's jar, 1=B's jar, 2=hand-made
	Inst    int    `json:"instance"`          // 0 = P, 1 = Q: the instance the request is sent to
	Adv     string `json:"advance,omitempty"` // advance: 20s | 7m | 16m
	Login   int    `json:"login,omitempty"`   // complete: login x (1-based, start order)
	State   string `json:"state,omitempty"`   // state variant of x
	Cookies string `json:"cookies,omitempty"` // hand-made header: own | none | all | renamed | own+renamed
	Code    string `json:"code,omitempty"`    // fresh | last (the code of the last callback x's browser sent with x's unmodified state)
}

func (o c03xOp) String() string {
	in := "PQ"[o.Inst : o.Inst+1]
	switch o.Kind {
	case "start":
		return "start(" + "AB"[o.Browser:o.Browser+1] + "@" + in + ")"
	case "advance":
		return "advance(" + o.Adv + ")"
	}
	s := []string{"jarA", "jarB", "crafted"}[o.Browser]
	c := ""
	if o.Browser == c03Crafted {
		c = ",cookies=" + o.Cookies
	}
	return fmt.Sprintf("complete(%s->%s,login=%d,state=%s%s,code=%s)", s, in, o.Login, o.State, c, o.Code)
}

func c03xHistString(h []c03xOp) string {
	var p []string
	for _, o := range h {
		p = append(p, o.String())
	}
	return strings.Join(p, " ")
}

// state variants of this search: the unmodified state, a nonce changed where the per-request cookie
// name comes from, a nonce changed where it does not, no state at all
var c03xStateVariants = []c03SV{{"exact", "exact"}, {"nonce-first-char", "changed"}, {"nonce-last-char", "changed"}, {"absent", "changed"}}

type c03xSim struct {
	browser []int
	inst    []int
	hasLast []bool // x's browser sent a callback with x's unmodified state
	advUsed map[string]bool
	advs    int
}

func c03xSimulate(hist []c03xOp) c03xSim {
	s := c03xSim{advUsed: map[string]bool{}}
	for _, o := range hist {
		switch o.Kind {
		case "start":
			s.browser = append(s.browser, o.Browser)
			s.inst = append(s.inst, o.Inst)
			s.hasLast = append(s.hasLast, false)
		case "advance":
			s.advUsed[o.Adv] = true
			s.advs++
		case "complete":
			if o.Browser < c03Crafted && o.State == "exact" && o.Browser == s.browser[o.Login-1] {
				s.hasLast[o.Login-1] = true
			}
		}
	}
	return s
}

func (s c03xSim) count(b int) int {
	n := 0
	for _, x := range s.browser {
		if x == b {
			n++
		}
	}
	return n
}

// c03xEnumerate lists every operation applicable after hist.
func c03xEnumerate(cfg c03xCfg, bd c03xBound, hist []c03xOp) []c03xOp {
	sim := c03xSimulate(hist)
	insts := 1
	if cfg.Second != "" {
		insts = 2
	}
	var ops []c03xOp
	for b, max := range []int{cfg.MaxA, cfg.MaxB} {
		if sim.count(b) < max {
			for in := 0; in < insts; in++ {
				ops = append(ops, c03xOp{Kind: "start", Browser: b, Inst: in})
			}
		}
	}
	L := len(sim.browser)
	if L > 0 && sim.advs < cfg.MaxAdv {
		for _, k := range cfg.advKinds(bd.Quick) {
			if !sim.advUsed[k] {
				ops = append(ops, c03xOp{Kind: "advance", Adv: k})
			}
		}
	}
	codes := func(x int) []string {
		if sim.hasLast[x-1] {
			return []string{"fresh", "last"}
		}
		return []string{"fresh"}
	}
	renamedApplies := cfg.Second == "name" || cfg.Second == "both"
	for x := 1; x <= L; x++ {
		for in := 0; in < insts; in++ {
			own := in == sim.inst[x-1]
			for _, sv := range c03xStateVariants {
				// what a browser sends from its jar
				for sender := 0; sender < 2; sender++ {
					if sim.count(sender) == 0 {
						continue // a browser without any login of its own: the first search
					}
					if !bd.Full && sv.Class != "exact" && (!own || sender != sim.browser[x-1]) {
						continue
					}
					for _, code := range codes(x) {
						if !bd.Full && sv.Class != "exact" && code != "fresh" {
							continue
						}
						ops = append(ops, c03xOp{Kind: "complete", Browser: sender, Inst: in, Login: x, State: sv.Name, Code: code})
					}
				}
				// hand-made headers
				cvs := []string{"own", "none", "all"}
				if !own && renamedApplies {
					cvs = append(cvs, "renamed", "own+renamed")
				}
				for _, cv := range cvs {
					if !bd.Full && sv.Class != "exact" && (cv != "own" || !own) {
						continue
					}
					for _, code := range codes(x) {
						if !bd.Full && sv.Class != "exact" && code != "fresh" {
							continue
						}
						ops = append(ops, c03xOp{Kind: "complete", Browser: c03Crafted, Inst: in, Login: x, State: sv.Name, Cookies: cv, Code: code})
					}
				}
			}
		}
	}
	return ops
}

// ---------------------------------------------------------------------------------------------
// one execution on a fresh world

type c03xInst struct {
	px     *Proxy
	host   string
	name   string // cookie name option (session cookie name, base of the CSRF cookie names)
	sessRE *regexp.Regexp
}

type c03xLogin struct {
	Idx         int
	Browser     int
	Inst        int
	Target      string
	LoginURL    string
	State       string
	Nonce       string
	Redirect    string
	CookieName  string
	CookieValue string
	Started     time.Duration
	MustHold    bool   // model: no later start under the same cookie name, no callback sent for it
	LastCode    string // code of the last callback the login's browser sent with the unmodified state
	Done        bool   // a callback sent by the login's browser established a session
}

type c03xWorld struct {
	seed   int64
	cfg    c03xCfg
	expire time.Duration
	csrf   time.Duration
	idp    *world.IdP
	inst   []*c03xInst
	jar    [2]*world.Jar
	br     [2][]*Browser // [browser][instance]
	logins []*c03xLogin
	fail   string
}

// One miniredis per instance and process, served on a unix-domain socket (no TCP ports) and reset
// between worlds.
var c03xRedis [2]*world.Redis

// c03xStoreTimeouts counts proxy constructions repeated because the store client timed out in real time.
var c03xStoreTimeouts int

func c03xFreshRedis(i int) *world.Redis {
	if c03xRedis[i] == nil {
		c03xRedis[i] = world.NewRedis()
		if err := c03xRedis[i].ListenUnix(filepath.Join(scratch(), fmt.Sprintf("c03x-redis-%d-%d.sock", i, os.Getpid()))); err != nil {
			panic(err)
		}
	} else {
		c03xRedis[i].Reset()
	}
	return c03xRedis[i]
}

func (w *c03xWorld) close() {
	if w == nil {
		return
	}
	for _, in := range w.inst {
		if in.px != nil && in.px.Redis != nil {
			in.px.Redis.CloseClients()
		}
	}
	world.ClearAdvanceHooks()
}

func newC03xWorld(seed int64, cfg c03xCfg) (*c03xWorld, error) {
	world.ClearAdvanceHooks()
	world.ResetClock()
	world.SeedRandom(seed, 0)
	w := &c03xWorld{seed: seed, cfg: cfg}
	w.expire, w.csrf = cfg.durations()
	w.idp = world.NewIdP()
	hosts := []string{c03xHostP}
	if cfg.Second != "" {
		hosts = append(hosts, c03xHostQ)
	}
	for i, h := range hosts {
		pc := &ProxyCfg{Flags: cfg.flags(i)}
		if cfg.Store == "redis" {
			pc.Redis = c03xFreshRedis(i)
		}
		px, err := buildProxy(pc)
		for try := 0; err != nil && pc.Redis != nil && try < 4 && strings.Contains(err.Error(), "timeout"); try++ {
			// the store client's real-time dial/read deadline passed while the machine was busy with
			// other things (validation pings the store): nothing of the world exists yet, build it again
			pc.Redis.CloseClients()
			c03xStoreTimeouts++
			px, err = buildProxy(pc)
		}
		if err != nil {
			if pc.Redis != nil {
				pc.Redis.CloseClients()
			}
			w.close()
			return nil, err
		}
		w.inst = append(w.inst, &c03xInst{px: px, host: h, name: px.Opts.Cookie.Name,
			sessRE: regexp.MustCompile("^" + regexp.QuoteMeta(px.Opts.Cookie.Name) + `(_\d+)?$`)})
	}
	for b := 0; b < 2; b++ {
		w.jar[b] = world.NewJar()
		for _, in := range w.inst {
			br := newBrowser(in.px, "http", in.host)
			br.Jar = w.jar[b] // one jar per browser, whichever instance it talks to
			if b == 1 {
				br.Remote = "192.0.2.2:40000"
			}
			w.br[b] = append(w.br[b], br)
		}
	}
	return w, nil
}

func (w *c03xWorld) sameName(i, j int) bool { return w.inst[i].name == w.inst[j].name }

func (w *c03xWorld) start(b, in, n int) {
	k := len(w.logins) + 1
	if k > 1 {
		world.Advance(2 * time.Second) // see c03World.start
	}
	l := &c03xLogin{Idx: k, Browser: b, Inst: in, Started: world.Offset()}
	l.Target = w.inst[in].px.Opts.ProxyPrefix + "/start?rd=" + url.QueryEscape(fmt.Sprintf("/p%d", k))
	world.SeedRandom(w.seed, uint64(n+1))
	var err error
	l.LoginURL, l.State, l.CookieName, l.CookieValue, err = (&c03World{}).startOn(w.br[b][in], l.Target)
	if err != nil {
		w.fail = err.Error()
		return
	}
	var ok bool
	l.Nonce, l.Redirect, ok = c03SplitState(l.State, w.cfg.Encode)
	if !ok || len(l.Nonce) < 20 {
		w.fail = fmt.Sprintf("start %s: state %q has no nonce:redirect form", l.Target, l.State)
		return
	}
	if !strings.HasPrefix(l.CookieName, w.inst[in].name+"_") {
		w.fail = fmt.Sprintf("start %s: CSRF cookie %q is not named after the cookie name option %q", l.Target, l.CookieName, w.inst[in].name)
		return
	}
	// model: under a single CSRF cookie name a later start of the same browser at an instance with
	// the same cookie name replaces the cookie
	l.MustHold = true
	if !w.cfg.PerRequest {
		for _, o := range w.logins {
			if o.Browser == b && w.sameName(o.Inst, in) {
				o.MustHold = false
			}
		}
	}
	w.logins = append(w.logins, l)
}

// lifetimes of login l now: past the CSRF cookie's browser lifetime / past the signed-value window
func (w *c03xWorld) expired(l *c03xLogin) (csrfPassed, windowPassed bool) {
	el := world.Offset() - l.Started
	for _, lim := range []time.Duration{w.csrf, w.expire} {
		if lim > 0 && el > lim-3*time.Second && el < lim+3*time.Second {
			w.fail = fmt.Sprintf("login %d is %v old, at the edge of the lifetime %v: the clock steps are meant to stay clear of it", l.Idx, el, lim)
		}
	}
	return el >= w.csrf, w.expire > 0 && el >= w.expire
}

type c03xObs struct {
	Status       int    `json:"status"`
	Session      bool   `json:"session_cookie"`
	Location     string `json:"location,omitempty"`
	Panic        string `json:"panic,omitempty"`
	StateClass   string `json:"state_class"`
	OwnPresented bool   `json:"own_csrf_presented"`
	OwnInstance  bool   `json:"sent_to_the_instance_that_started_the_login"`
	Age          string `json:"login_age"`
	CSRFPassed   bool   `json:"csrf_lifetime_passed"`
	WindowPassed bool   `json:"cookie_expire_passed"`
	CodeSpent    bool   `json:"code_already_redeemed"`
	Replay       bool   `json:"login_already_completed"`
	MustSucceed  bool   `json:"must_succeed"`
	HadSession   bool   `json:"request_carried_a_session_cookie"`
	StoreDelta   int    `json:"store_keys_added"`
	OtherDelta   int    `json:"other_store_keys_added"`
	panicSite    string
}

func (o *c03xObs) outcome() string {
	return fmt.Sprintf("status=%d session=%v panic=%v keys=%+d/%+d", o.Status, o.Session, o.Panic != "", o.StoreDelta, o.OtherDelta)
}

func (w *c03xWorld) keys(in int) int {
	if in >= len(w.inst) || w.inst[in].px.Redis == nil {
		return 0
	}
	return len(w.inst[in].px.Redis.SessionKeys())
}

func (w *c03xWorld) complete(op c03xOp, n int) *c03xObs {
	if op.Login < 1 || op.Login > len(w.logins) || op.Inst >= len(w.inst) {
		w.fail = "operation refers to a login or instance that does not exist: " + op.String()
		return nil
	}
	x := w.logins[op.Login-1]
	target := w.inst[op.Inst]
	obs := &c03xObs{OwnInstance: op.Inst == x.Inst}
	for _, sv := range c03xStateVariants {
		if sv.Name == op.State {
			obs.StateClass = sv.Class
		}
	}
	if obs.StateClass == "" {
		w.fail = "unknown state variant " + op.State
		return nil
	}
	obs.CSRFPassed, obs.WindowPassed = w.expired(x)
	if w.fail != "" {
		return nil
	}
	obs.Age = (world.Offset() - x.Started).String()
	obs.Replay = x.Done
	// the code
	code := ""
	switch op.Code {
	case "fresh":
		world.SeedRandom(w.seed, uint64(1000+n))
		loginURL := x.LoginURL
		if op.Inst != x.Inst {
			// a callback meant for the other instance: the code comes from an authorization request with
			// x's parameters and the addressed instance's redirect URI (both are registered with the
			// provider for the one client), so that the provider's redirect-URI check does not stand in
			// for the proxy's own
			lu, err := url.Parse(loginURL)
			if err != nil {
				w.fail = err.Error()
				return nil
			}
			lq := lu.Query()
			ru, err := url.Parse(lq.Get("redirect_uri"))
			if err != nil || ru.Host != w.inst[x.Inst].host {
				w.fail = fmt.Sprintf("login %d: redirect_uri %q does not name the host of its instance", x.Idx, lq.Get("redirect_uri"))
				return nil
			}
			ru.Host = target.host
			lq.Set("redirect_uri", ru.String())
			lu.RawQuery = lq.Encode()
			loginURL = lu.String()
		}
		cb, _, err := w.idp.Authorize(loginURL, c03User(x.Browser))
		if err != nil {
			w.fail = "provider refused the authorization request: " + err.Error()
			return nil
		}
		u, err := url.Parse(cb)
		if err != nil {
			w.fail = err.Error()
			return nil
		}
		code = u.Query().Get("code")
	case "last":
		code = x.LastCode
		if code == "" {
			w.fail = "no earlier callback of login " + strconv.Itoa(x.Idx) + " to replay"
			return nil
		}
	default:
		w.fail = "unknown code variant " + op.Code
		return nil
	}
	if a := w.idp.Auths[code]; a != nil {
		obs.CodeSpent = a.Used
	}
	q := url.Values{}
	q.Set("code", code)
	if v, present := c03MakeState(&c03Login{State: x.State, Nonce: x.Nonce, Redirect: x.Redirect}, op.State, w.cfg.Encode); present {
		q.Set("state", v)
		if obs.StateClass != "exact" && v == x.State {
			w.fail = "state variant " + op.State + " did not change the state"
			return nil
		}
	}
	reqTarget := target.px.Opts.ProxyPrefix + "/callback?" + q.Encode()

	before, beforeOther := w.keys(op.Inst), w.keys(1-op.Inst)
	world.SeedRandom(w.seed, uint64(2000+n))
	hdr := ""
	var resp *world.Resp
	if op.Browser < c03Crafted {
		b := w.br[op.Browser][op.Inst]
		req := b.Req("GET", reqTarget)
		for _, h := range req.Headers {
			if h[0] == "Cookie" {
				hdr = h[1]
			}
		}
		obs.MustSucceed = x.Browser == op.Browser && obs.OwnInstance && obs.StateClass == "exact" && x.MustHold &&
			op.Code == "fresh" && !obs.CSRFPassed && !obs.WindowPassed
		// model: the request may consume x's cookie, and under a single name whatever cookie the
		// browser holds under the name the addressed instance uses
		for _, l := range w.logins {
			if l.Browser != op.Browser {
				continue
			}
			if l == x || (!w.cfg.PerRequest && w.sameName(l.Inst, op.Inst)) {
				l.MustHold = false
			}
		}
		if x.Browser == op.Browser && obs.StateClass == "exact" {
			x.LastCode = code
		}
		resp = b.Do(req)
	} else {
		renamed := strings.Replace(x.CookieName, w.inst[x.Inst].name, target.name, 1)
		var cs []c03Pair
		switch op.Cookies {
		case "own":
			cs = []c03Pair{{x.CookieName, x.CookieValue}}
		case "none":
		case "all":
			for _, l := range w.logins {
				cs = append(cs, c03Pair{l.CookieName, l.CookieValue})
			}
		case "renamed":
			cs = []c03Pair{{renamed, x.CookieValue}}
		case "own+renamed":
			cs = []c03Pair{{x.CookieName, x.CookieValue}, {renamed, x.CookieValue}}
		default:
			w.fail = "unknown cookie variant " + op.Cookies
			return nil
		}
		if strings.Contains(op.Cookies, "renamed") && renamed == x.CookieName {
			w.fail = "cookie variant " + op.Cookies + " did not change the name"
			return nil
		}
		hdr = c03Header(cs)
		r := &world.Req{Method: "GET", Target: reqTarget, Host: target.host, Remote: "198.51.100.7:40000"}
		if hdr != "" {
			r.Headers = append(r.Headers, [2]string{"Cookie", hdr})
		}
		resp = world.Serve(target.px.H, r)
	}
	obs.OwnPresented = c03HeaderHas(hdr, x.CookieName, x.CookieValue)
	for _, p := range strings.Split(hdr, ";") {
		if i := strings.Index(p, "="); i > 0 && target.sessRE.MatchString(strings.TrimSpace(p[:i])) {
			obs.HadSession = true
		}
	}
	obs.Status = resp.Status
	obs.Location = resp.Location()
	if resp.Panic != nil {
		obs.Panic = fmt.Sprint(resp.Panic)
		obs.panicSite = resp.PanicSite()
	}
	for _, c := range resp.Cookies() {
		if target.sessRE.MatchString(c.Name) && c.Value != "" && c.MaxAge >= 0 {
			obs.Session = true
		}
	}
	obs.StoreDelta, obs.OtherDelta = w.keys(op.Inst)-before, w.keys(1-op.Inst)-beforeOther
	if op.Browser < c03Crafted && op.Browser == x.Browser && obs.Session {
		x.Done = true
	}
	return obs
}

// c03xJudge applies the oracle to one callback. Keys shared with the first search name the same mechanism.
func c03xJudge(cfg c03xCfg, op c03xOp, o *c03xObs) (key, msg, class string) {
	cookieClass := "jar"
	if op.Browser == c03Crafted {
		cookieClass = op.Cookies
	}
	mode := "single-name"
	if cfg.PerRequest {
		mode = "per-request"
	}
	if o.Panic != "" {
		return "C03/panic@" + o.panicSite, "callback panicked: " + o.Panic, "panic"
	}
	if o.OtherDelta != 0 {
		return "C03/callback-wrote-to-the-other-instances-store", fmt.Sprintf("the callback changed the number of sessions in the store of the instance it was not sent to by %+d", o.OtherDelta), "violation"
	}
	same := o.StateClass == "exact" && o.OwnPresented && o.OwnInstance
	if o.Session {
		switch {
		case !o.OwnInstance:
			how := "cookie-under-its-own-name"
			if !o.OwnPresented {
				how = "cookie-renamed-or-absent"
			}
			return "C03/session-at-instance-that-did-not-start-the-login/" + how,
				fmt.Sprintf("an instance that never started login %d established a session from that login's state and cookies (cookies: %s, second instance differs by: %s): status %d", op.Login, cookieClass, cfg.Second, o.Status), "violation"
		case !o.OwnPresented:
			return "C03/session-without-own-csrf-cookie/" + cookieClass,
				fmt.Sprintf("callback established a session although the CSRF cookie of login %d was not presented unmodified (cookies: %s, state variant %s, code %s): status %d", op.Login, cookieClass, op.State, op.Code, o.Status), "violation"
		case o.StateClass != "exact":
			return "C03/session-with-modified-state/" + op.State,
				fmt.Sprintf("callback established a session although the state nonce was modified (%s): status %d", op.State, o.Status), "violation"
		case o.CodeSpent:
			return "C03/session-from-spent-code",
				fmt.Sprintf("a replayed callback (state and CSRF cookie of login %d, the code the provider had already redeemed) established a session: status %d", op.Login, o.Status), "violation"
		case o.CSRFPassed && op.Browser < c03Crafted:
			return "C03/session-after-csrf-lifetime/jar",
				fmt.Sprintf("login %d was completed from the browser's jar %s after it was started, cookie-csrf-expire is %s: the browser still held and sent the CSRF cookie and the proxy accepted it", op.Login, o.Age, cfg.CSRFExpire), "violation"
		case o.CSRFPassed && o.WindowPassed:
			return "C03/session-after-csrf-lifetime/every-lifetime-passed",
				fmt.Sprintf("a recorded CSRF cookie of login %d was accepted %s after the login was started: cookie-csrf-expire %s and cookie-expire %s have both passed", op.Login, o.Age, cfg.CSRFExpire, cfg.Expire), "violation"
		case o.CSRFPassed:
			return "", "", "ambiguous-accepted-past-csrf-lifetime"
		case o.Replay:
			return "", "", "ambiguous-accepted-replay-after-completion"
		}
		// the session becomes a ticket: one new key, or — the request carried a ticket of this instance,
		// which the store may use again — none
		if cfg.Store == "redis" && o.StoreDelta != 1 && !(o.StoreDelta == 0 && o.HadSession) {
			return "C03/ticket-without-stored-session", fmt.Sprintf("the callback set a ticket cookie but the store gained %d keys", o.StoreDelta), "violation"
		}
		return "", "", "accepted"
	}
	// no session cookie
	if o.StoreDelta > 0 {
		return "C03/rejected-callback-stored-a-session", fmt.Sprintf("the callback was answered with status %d and no session cookie, but the store gained %d key(s)", o.Status, o.StoreDelta), "violation"
	}
	if o.MustSucceed {
		lost := ""
		if !o.OwnPresented {
			lost = "; the browser's jar no longer held the CSRF cookie of this login"
		}
		return "C03/own-login-rejected/" + mode,
			fmt.Sprintf("the browser that started login %d (%s ago) sent its unmodified state and its jar's cookies with a fresh code to the instance that started it, but got status %d and no session cookie (store %s, cookie-expire %s, cookie-csrf-expire %s)%s", op.Login, o.Age, o.Status, cfg.Store, cfg.Expire, cfg.CSRFExpire, lost), "violation"
	}
	if !same && o.Status < 400 {
		return "C03/mismatch-without-error-page",
			fmt.Sprintf("mismatching callback (cookies: %s, state variant %s, own instance %v) was answered with status %d (location %q) instead of an error page", cookieClass, op.State, o.OwnInstance, o.Status, o.Location), "violation"
	}
	switch {
	case same && o.CodeSpent:
		return "", "", "rejected-spent-code"
	case same && o.WindowPassed && !o.CSRFPassed && op.Browser < c03Crafted:
		return "", "", "ambiguous-rejected-past-cookie-expire"
	case same:
		return "", "", "legit-but-rejected"
	}
	return "", "", "rejected"
}

func (w *c03xWorld) label(l *c03xLogin) string {
	n := 0
	for _, o := range w.logins {
		if o.Browser == l.Browser {
			n++
		}
		if o == l {
			break
		}
	}
	return fmt.Sprintf("%s%d@%s", "AB"[l.Browser:l.Browser+1], n, "PQ"[l.Inst:l.Inst+1])
}

func (w *c03xWorld) inJar(l *c03xLogin) bool {
	b := w.br[l.Browser][l.Inst]
	for _, c := range b.Jar.For(b.Scheme, b.Host, w.inst[l.Inst].px.Opts.ProxyPrefix+"/callback") {
		if c.Name == l.CookieName && c.Value == l.CookieValue {
			return true
		}
	}
	return false
}

// canon renders the reached state (see c03World.canon): decrypted CSRF contents mapped to login
// labels, jar membership, model flags, status of the replayable code, sessions per browser and
// instance, clock offset. The stores' contents are not part of it (tickets are random and no
// request of this search can name one it did not receive); what a callback adds to them is judged
// per request.
func (w *c03xWorld) canon() string {
	var parts []string
	known := map[string]bool{}
	for _, l := range w.logins {
		inJar := w.inJar(l)
		known[l.CookieName+"="+l.CookieValue] = true
		dec := "-"
		if inJar {
			dec = "?"
			r := &world.Req{Method: "GET", Target: "/", Host: w.inst[l.Inst].host, Headers: [][2]string{{"Cookie", l.CookieName + "=" + l.CookieValue}}}
			if hr, err := r.Parse(); err == nil {
				if cs, err := cookies.LoadCSRFCookie(hr, l.CookieName, w.inst[l.Inst].px.P.CookieOptions); err == nil {
					dec = "unknown-nonce"
					for _, m := range w.logins {
						if cs.HashOAuthState() == m.Nonce {
							dec = w.label(m)
						}
					}
					if (cs.GetCodeVerifier() != "") != w.cfg.PKCE {
						dec += "!verifier"
					}
				}
			}
		}
		last := "none"
		if l.LastCode != "" {
			last = "unspent"
			if a := w.idp.Auths[l.LastCode]; a != nil && a.Used {
				last = "spent"
			}
		}
		parts = append(parts, fmt.Sprintf("%s:t=+%ds:jar=%v:dec=%s:must=%v:last=%s:done=%v", w.label(l), int(l.Started/time.Second), inJar, dec, l.MustHold, last, l.Done))
	}
	sort.Strings(parts)
	for b := 0; b < 2; b++ {
		extra := 0
		for in, inst := range w.inst {
			br := w.br[b][in]
			sess := "-"
			for _, c := range br.Jar.For(br.Scheme, br.Host, "/") {
				if inst.sessRE.MatchString(c.Name) {
					sess = "invalid"
				}
			}
			if sess != "-" {
				if hr, err := br.Req("GET", "/").Parse(); err == nil {
					if s, err := verifSessionStore(inst.px.P).Load(hr); err == nil && s != nil {
						sess = s.Email
					}
				}
			}
			parts = append(parts, fmt.Sprintf("jar%s@%s:sess=%s", "AB"[b:b+1], "PQ"[in:in+1], sess))
		}
		for _, c := range w.jar[b].Cookies {
			isSess := false
			for _, inst := range w.inst {
				if inst.sessRE.MatchString(c.Name) {
					isSess = true
				}
			}
			if !isSess && !known[c.Name+"="+c.Value] {
				extra++
			}
		}
		parts = append(parts, fmt.Sprintf("jar%s:extra=%d", "AB"[b:b+1], extra))
	}
	parts = append(parts, fmt.Sprintf("clock=+%ds", int(world.Offset()/time.Second)))
	return strings.Join(parts, " ")
}

// invariant of every state: the CSRF cookie of an outstanding login is in its browser's jar.
func (w *c03xWorld) stateInvariant() (key, msg string) {
	for _, l := range w.logins {
		if !l.MustHold {
			continue
		}
		// outstanding as in the converse: once either lifetime has passed nothing is required any more
		if passed, window := w.expired(l); passed || window || w.fail != "" {
			continue
		}
		if !w.inJar(l) {
			mode := "single-name"
			if w.cfg.PerRequest {
				mode = "per-request"
			}
			return "C03/outstanding-login-lost-its-csrf-cookie/" + mode,
				fmt.Sprintf("login %d of browser %s is still outstanding but its CSRF cookie %s is no longer sent to the callback", l.Idx, "AB"[l.Browser:l.Browser+1], l.CookieName)
		}
	}
	return "", ""
}

type c03xResult struct {
	Fail   string
	Obs    *c03xObs
	Key    string
	Msg    string
	Class  string
	Canon  string
	InvKey string
	InvMsg string
	Logins int
}

func (w *c03xWorld) apply(o c03xOp, n int) *c03xObs {
	switch o.Kind {
	case "start":
		if o.Inst >= len(w.inst) {
			w.fail = "no such instance: " + o.String()
			return nil
		}
		w.start(o.Browser, o.Inst, n)
	case "advance":
		d, ok := c03xAdvance[o.Adv]
		if !ok {
			w.fail = "unknown clock step " + o.Adv
			return nil
		}
		world.Advance(d)
		for _, j := range w.jar {
			j.Expire()
		}
	case "complete":
		return w.complete(o, n)
	default:
		w.fail = "unknown operation " + o.Kind
	}
	return nil
}

func (w *c03xWorld) step(op c03xOp, n int) *c03xResult {
	res := &c03xResult{}
	res.Obs = w.apply(op, n)
	if w.fail != "" {
		res.Fail = fmt.Sprintf("operation %s: %s", op.String(), w.fail)
		return res
	}
	if res.Obs != nil {
		res.Key, res.Msg, res.Class = c03xJudge(w.cfg, op, res.Obs)
	}
	res.Canon = w.canon()
	res.InvKey, res.InvMsg = w.stateInvariant()
	if w.fail != "" {
		res.Fail = fmt.Sprintf("after %s: %s", op.String(), w.fail)
	}
	res.Logins = len(w.logins)
	return res
}

// c03xStalls counts executions repeated because they took more than a second of real time with the
// Redis store: the process was not running (machine busy with other things) and the store client's
// real-time deadlines (1 s and more) may have turned a store call into an error. The same case is
// executed again on a fresh world; nothing is decided by the clock.
var c03xStalls int

func c03xStalled(cfg c03xCfg, t0 time.Time, try int) bool {
	if cfg.Store != "redis" || time.Since(t0) < time.Second || try >= 3 {
		return false
	}
	c03xStalls++
	return true
}

// c03xReach builds a fresh world and replays hist on it. The caller closes the world.
func c03xReach(seed int64, cfg c03xCfg, hist []c03xOp) (*c03xWorld, string) {
	for try := 0; ; try++ {
		t0 := time.Now()
		w, fail := c03xReachOnce(seed, cfg, hist)
		if !c03xStalled(cfg, t0, try) {
			return w, fail
		}
		w.close()
	}
}

func c03xReachOnce(seed int64, cfg c03xCfg, hist []c03xOp) (*c03xWorld, string) {
	w, err := newC03xWorld(seed, cfg)
	if err != nil {
		return nil, "building the proxies: " + err.Error()
	}
	for n, o := range hist {
		w.apply(o, n)
		if w.fail != "" {
			w.close()
			return nil, fmt.Sprintf("replaying operation %d (%s): %s", n, o.String(), w.fail)
		}
	}
	return w, ""
}

// c03xRun replays hist on a fresh world, then applies op (nil = only reach the state).
func c03xRun(seed int64, cfg c03xCfg, hist []c03xOp, op *c03xOp) *c03xResult {
	for try := 0; ; try++ {
		t0 := time.Now()
		r := c03xRunOnce(seed, cfg, hist, op)
		if !c03xStalled(cfg, t0, try) {
			return r
		}
	}
}

func c03xRunOnce(seed int64, cfg c03xCfg, hist []c03xOp, op *c03xOp) *c03xResult {
	w, fail := c03xReach(seed, cfg, hist)
	if fail != "" {
		return &c03xResult{Fail: fail}
	}
	defer w.close()
	if op != nil {
		return w.step(*op, len(hist))
	}
	res := &c03xResult{Canon: w.canon(), Logins: len(w.logins)}
	res.InvKey, res.InvMsg = w.stateInvariant()
	return res
}

// ---------------------------------------------------------------------------------------------
// the search

type c03xCase struct {
	Kind string   `json:"kind"` // "ext-history"
	Cfg  c03xCfg  `json:"config"`
	Hist []c03xOp `json:"history"`
	Op   *c03xOp  `json:"operation,omitempty"`
	Text string   `json:"text,omitempty"`
	Obs  *c03xObs `json:"observed,omitempty"`
}

type c03xNode struct {
	hist  []c03xOp
	canon string
}

func c03xAppend(h []c03xOp, ops ...c03xOp) []c03xOp {
	return append(append([]c03xOp{}, h...), ops...)
}

// c03xSearch explores one configuration (one process per configuration). A state is reached by
// replaying its history on a fresh world; a request that leads back to the same canonical state
// leaves the world usable for the next operation of that state (at most 32 per world), anything
// else ends the world. A violation is reported only after it reproduced on fresh worlds.
func c03xSearch(c *Ctx, cfg c03xCfg, bd c03xBound) {
	cfgKey := cfg.String()
	const batch = 32
	confirmed := map[string]int{}
	report := func(key, msg string, hist, alt []c03xOp, op *c03xOp, obs *c03xObs) {
		if confirmed[key] >= 2 {
			c.Violate(key, msg, 1<<30, nil)
			return
		}
		confirmed[key]++
		try := func(h []c03xOp) bool {
			r := c03xRun(c.Seed, cfg, h, op)
			return r.Fail == "" && (r.Key == key || r.InvKey == key)
		}
		h := hist
		if !try(h) {
			h = alt
			if !try(h) {
				c.Unstable("%s: %s [%d operations in the shared world] => %v gave %q but does not reproduce on a fresh world", cfgKey, c03xHistString(hist), len(alt), op, key)
				c.Inc("unreproducible_violations")
				c.Violate(key, "[observed once in a world shared with earlier requests, not reproducible on a fresh world] "+msg, 1<<29, c03xCase{Kind: "ext-history", Cfg: cfg, Hist: alt, Op: op, Obs: obs, Text: c03xHistString(alt)})
				return
			}
		}
		cs := c03xCase{Kind: "ext-history", Cfg: cfg, Hist: h, Op: op, Obs: obs, Text: c03xHistString(h)}
		size := len(h)*1000 + 500 // behind an equally long counterexample of the first search
		if op != nil {
			cs.Text += " => " + op.String()
			size += 10*op.Login + len(op.State) + len(op.Cookies)
		}
		c.confirm(key, fmt.Sprintf("[%s] %s: %s", cfgKey, cs.Text, msg), size, cs, func() (string, bool) {
			r := c03xRun(c.Seed, cfg, h, op)
			if r.Fail != "" {
				return "fail:" + r.Fail, false
			}
			if r.Key == key || r.InvKey == key {
				return key, true
			}
			return r.Key, false
		})
	}

	root := c03xRun(c.Seed, cfg, nil, nil)
	if root.Fail != "" {
		c.Error("C03 ext %s: %s", cfgKey, root.Fail)
		return
	}
	seen := map[string]bool{root.Canon: true}
	c.Distinct("ext_states", cfgKey+"|"+root.Canon)
	frontier := []c03xNode{{nil, root.Canon}}
	failures := 0
	fail := func(node c03xNode, what string) {
		failures++
		if failures <= 3 {
			c.Error("C03 ext %s: %s => %s", cfgKey, c03xHistString(node.hist), what)
		}
	}
	opNo := 0
	for depth := 0; len(frontier) > 0 && depth < cfg.MaxOps; depth++ {
		var next []c03xNode
		for _, node := range frontier {
			ops := c03xEnumerate(cfg, bd, node.hist)
			var w *c03xWorld
			var prefix []c03xOp
			for i := range ops {
				op := ops[i]
				if c.Expired() {
					w.close()
					return
				}
				if w == nil || len(prefix) >= batch {
					w.close()
					var f string
					w, f = c03xReach(c.Seed, cfg, node.hist)
					prefix = nil
					if f != "" {
						fail(node, f)
						break
					}
					c.Inc("traces_validated_against_impl")
					c.Inc("ext_worlds")
					if got := w.canon(); got != node.canon {
						c.Error("C03 ext %s: state abstraction broken: history %s was recorded as %q but replays to %q", cfgKey, c03xHistString(node.hist), node.canon, got)
					}
				}
				t0 := time.Now()
				r := w.step(op, len(node.hist)+len(prefix))
				for try := 0; c03xStalled(cfg, t0, try); try++ {
					// see c03xStalls: the case is executed again, alone on a fresh world
					w.close()
					var f string
					w, f = c03xReach(c.Seed, cfg, node.hist)
					prefix = nil
					if f != "" {
						r = &c03xResult{Fail: f}
						break
					}
					t0 = time.Now()
					r = w.step(op, len(node.hist))
				}
				if r.Fail != "" {
					fail(node, r.Fail)
					w.close()
					w = nil
					continue
				}
				opNo++
				c.Inc("transitions")
				c.Inc("ext_transitions")
				c.SetMax("ext_max_depth", int64(len(node.hist)+1))
				c.SetMax("ext_max_logins", int64(r.Logins))
				// batching cross-check: every 29th callback also alone on a fresh world
				otherWorlds := false
				if op.Kind == "complete" && opNo%29 == 0 {
					otherWorlds = true
					r2 := c03xRun(c.Seed, cfg, node.hist, &op)
					if r2.Fail != r.Fail || r2.Canon != r.Canon || r2.Key != r.Key || (r2.Obs != nil && r.Obs != nil && r2.Obs.outcome() != r.Obs.outcome()) {
						c.Unstable("replay divergence: %s: %s [+%d operations in the same world] => %s: in the shared world %q %q, alone %q %q", cfgKey, c03xHistString(node.hist), len(prefix), op.String(), r.Key, r.Canon, r2.Key, r2.Canon)
					}
					c.Inc("traces_validated_against_impl")
					c.Inc("ext_crosschecked_alone_on_fresh_world")
				}
				if r.Obs != nil {
					c03xCount(c, cfg, node, op, r)
					if r.Key != "" {
						opc := op
						report(r.Key, r.Msg, node.hist, c03xAppend(node.hist, prefix...), &opc, r.Obs)
						otherWorlds = true
					}
				}
				if r.Canon == node.canon && op.Kind == "complete" {
					prefix = append(prefix, op)
					c.Inc("ext_transitions_self_loop")
					if otherWorlds {
						// other worlds were built meanwhile: they own the provider, the stores and the clock now
						w, prefix = nil, nil
					}
					continue
				}
				full := c03xAppend(c03xAppend(node.hist, prefix...), op)
				if !otherWorlds {
					w.close()
				}
				w, prefix = nil, nil
				if r.InvKey != "" {
					report(r.InvKey, r.InvMsg, c03xAppend(node.hist, op), full, nil, nil)
				}
				if !seen[r.Canon] {
					seen[r.Canon] = true
					c.Distinct("ext_states", cfgKey+"|"+r.Canon)
					c.Distinct("states", "ext|"+cfgKey+"|"+r.Canon)
					next = append(next, c03xNode{c03xAppend(node.hist, op), r.Canon})
				} else {
					c.Inc("ext_transitions_to_known_state")
				}
			}
			w.close()
			c.Inc("ext_states_expanded")
		}
		frontier = next
	}
	c.Add("ext_states_at_depth_bound_not_expanded", int64(len(frontier)))
}

// c03xCount records the measured coverage of one evaluated callback.
func c03xCount(c *Ctx, cfg c03xCfg, node c03xNode, op c03xOp, r *c03xResult) {
	o := r.Obs
	c.Inc("evaluations")
	c.Inc("ext_evaluations")
	c.Inc("ext_class_" + r.Class)
	if strings.HasPrefix(r.Class, "ambiguous") {
		c.Inc("ambiguous")
	}
	c.Inc("ext_store_" + cfg.Store)
	c.Inc("ext_lifetimes_" + cfg.Expire + "/" + cfg.CSRFExpire)
	c.Inc("ext_statevariant_" + op.State)
	c.Inc("ext_code_" + op.Code)
	cookieClass := "jar"
	if op.Browser == c03Crafted {
		cookieClass = op.Cookies
	}
	c.Inc("ext_cookies_" + cookieClass)
	if cfg.Second != "" {
		c.Inc("ext_second_instance_" + cfg.Second)
	}
	c.Distinct("ext_distinct_outcomes", fmt.Sprintf("%s|%s|%s|own=%v|inst=%v|csrfpassed=%v|window=%v|spent=%v|replay=%v|%s",
		cfg.Store, o.StateClass, cookieClass, o.OwnPresented, o.OwnInstance, o.CSRFPassed, o.WindowPassed, o.CodeSpent, o.Replay, o.outcome()))
	// non-trivial as in the first search: the state nonce of a started login is intact and its CSRF
	// cookie, validly signed by the instance that set it, is presented — so that only the pairing
	// with instance, lifetime and code decides
	if o.StateClass == "exact" && o.OwnPresented {
		c.Distinct("distinct_nontrivial", "ext|"+cfg.String()+"|"+node.canon+"|"+op.String())
		c.Distinct("ext_distinct_nontrivial", cfg.String()+"|"+node.canon+"|"+op.String())
	}
	redis := cfg.Store == "redis"
	jar := op.Browser < c03Crafted
	same := o.StateClass == "exact" && o.OwnPresented && o.OwnInstance
	sim := c03xSimulate(node.hist)
	switch {
	case o.MustSucceed && o.Session:
		c.Inc("ext_nv_own_login_completed_from_jar")
		if redis {
			c.Inc("ext_nv_redis_own_login_completed_ticket_stored")
		}
		if cfg.Expire == "0s" {
			c.Inc("ext_nv_expire0_own_login_completed")
			if sim.advs > 0 {
				c.Inc("ext_nv_expire0_own_login_completed_after_clock_step")
			}
		}
		if cfg.Second != "" {
			c.Inc("ext_nv_two_instances_own_login_completed")
			if op.Inst == 1 {
				c.Inc("ext_nv_second_instance_own_login_completed")
			}
		}
		if cfg.PerRequest && op.Login != len(sim.browser) {
			c.Inc("ext_nv_perrequest_older_outstanding_login_completed")
		}
	case jar && o.StateClass == "exact" && o.CSRFPassed && !o.Session && sim.browser[op.Login-1] == op.Browser && o.OwnInstance:
		c.Inc("ext_nv_jar_rejected_after_csrf_lifetime")
		if cfg.Expire == "0s" {
			c.Inc("ext_nv_expire0_jar_rejected_after_csrf_lifetime")
		}
		if o.OwnPresented {
			c.Inc("ext_info_jar_still_sent_csrf_cookie_after_its_lifetime")
		}
	}
	if !jar && same && o.CSRFPassed {
		c.Inc("ext_nv_crafted_own_cookie_after_csrf_lifetime")
		if cfg.Expire == "0s" {
			c.Inc("ext_nv_expire0_crafted_own_cookie_after_csrf_lifetime")
		}
		if o.WindowPassed {
			c.Inc("ext_nv_crafted_own_cookie_after_every_lifetime")
			if !o.Session {
				c.Inc("ext_nv_crafted_own_cookie_after_every_lifetime_rejected")
			}
		}
	}
	if r.Class == "ambiguous-rejected-past-cookie-expire" {
		c.Inc("ext_nv_jar_rejected_past_cookie_expire_inside_csrf_lifetime")
	}
	if same && o.CodeSpent && !o.Session {
		c.Inc("ext_nv_replay_spent_code_rejected")
	}
	if jar && op.Code == "last" && o.Replay && !o.Session {
		c.Inc("ext_nv_browser_resent_callback_after_completion_rejected")
	}
	if !jar && same && o.Replay && op.Code == "fresh" {
		c.Inc("ext_nv_replay_after_completion_fresh_code")
	}
	if !o.OwnInstance && o.StateClass == "exact" && !o.Session && (o.OwnPresented || strings.Contains(cookieClass, "renamed")) {
		c.Inc("ext_nv_other_instance_rejected_" + cfg.Second)
		if jar {
			c.Inc("ext_nv_other_instance_rejected_from_jar")
		}
		if strings.Contains(cookieClass, "renamed") {
			c.Inc("ext_nv_other_instance_rejected_renamed_cookie")
		}
	}
	if redis && o.StateClass == "exact" && !o.OwnPresented && !o.Session && o.OwnInstance {
		c.Inc("ext_nv_redis_cross_pairing_rejected")
	}
	if redis && jar && sim.browser[op.Login-1] != op.Browser && !o.Session {
		c.Inc("ext_nv_redis_other_browser_rejected")
	}
	if len(c.Samples) < 8 && (r.Class == "ambiguous-accepted-past-csrf-lifetime" || r.Class == "rejected-spent-code" || (!o.OwnInstance && o.OwnPresented)) && !c03xSampled[r.Class] {
		c03xSampled[r.Class] = true
		c.Sample(8, map[string]any{"part": "ext", "config": cfg, "history": c03xHistString(node.hist), "operation": op.String(), "observed": o, "class": r.Class})
	}
}

var c03xSampled = map[string]bool{} // classes this process has kept an example of

// outcomes that must be seen for this part to mean anything
var c03xMustSee = []string{
	"ext_nv_own_login_completed_from_jar", "ext_nv_redis_own_login_completed_ticket_stored", "ext_nv_redis_cross_pairing_rejected",
	"ext_nv_redis_other_browser_rejected", "ext_nv_perrequest_older_outstanding_login_completed",
	"ext_nv_expire0_own_login_completed", "ext_nv_expire0_own_login_completed_after_clock_step", "ext_nv_jar_rejected_after_csrf_lifetime",
	"ext_nv_expire0_jar_rejected_after_csrf_lifetime", "ext_nv_crafted_own_cookie_after_csrf_lifetime", "ext_nv_expire0_crafted_own_cookie_after_csrf_lifetime",
	"ext_nv_crafted_own_cookie_after_every_lifetime_rejected", "ext_nv_jar_rejected_past_cookie_expire_inside_csrf_lifetime",
	"ext_nv_replay_spent_code_rejected", "ext_nv_browser_resent_callback_after_completion_rejected", "ext_nv_replay_after_completion_fresh_code",
	"ext_nv_other_instance_rejected_secret", "ext_nv_other_instance_rejected_name", "ext_nv_other_instance_rejected_both",
	"ext_nv_other_instance_rejected_from_jar", "ext_nv_other_instance_rejected_renamed_cookie",
	"ext_nv_two_instances_own_login_completed", "ext_nv_second_instance_own_login_completed",
	"ext_class_accepted", "ext_class_rejected", "ext_code_last", "ext_store_redis", "ext_store_cookie",
}

// c03Ext runs the second search: configuration i belongs to the shard c.Mine(i) names.
func c03Ext(c *Ctx) {
	if envInt("VERIF_C03X_OFF", 0) == 1 {
		c.Exhaustive = false
		return
	}
	cfgs := c03xConfigs(c.Quick())
	bd := c03xBounds(c.Quick())
	c.Info["ext_configurations"] = len(cfgs)
	bounds := map[string]int{}
	for _, k := range cfgs {
		bounds[fmt.Sprintf("logins A<=%d B<=%d, operations<=%d, clock steps<=%d", k.MaxA, k.MaxB, k.MaxOps, k.MaxAdv)]++
	}
	c.Info["ext_bounds_configurations_each"] = bounds
	c.Info["ext_full_product"] = bd.Full
	c.Info["ext_alphabet"] = map[string]any{"stores": 2, "lifetime_pairs": 5, "second_instance": 4, "clock_steps": len(c03xAdvanceOrder),
		"state_variants": len(c03xStateVariants), "cookie_variants_crafted": 5, "codes": 2, "senders": 3, "instances_addressed": 2}
	only := int(envInt("VERIF_C03X_ONLY", -1))
	t0, cpu0 := time.Now(), c03xCPU()
	for ci, cfg := range cfgs {
		if (only >= 0 && ci != only) || !c.Mine(ci) {
			continue
		}
		c.Inc("ext_configurations_searched")
		c03xSearch(c, cfg, bd)
		if c.Expired() {
			break
		}
	}
	world.ClearAdvanceHooks()
	c.Add("ext_proxy_builds_repeated_after_store_timeout", int64(c03xStoreTimeouts))
	c.Add("ext_reexecuted_after_real_time_stall", int64(c03xStalls))
	c.Info[fmt.Sprintf("diag_wall_s[ext shard %d]", c.Shard)] = int(time.Since(t0).Seconds())
	c.SetMax("ext_diag_cpu_s_max_per_shard", int64((c03xCPU() - cpu0).Seconds()))
	c.Add("ext_diag_cpu_s_all_shards", int64((c03xCPU() - cpu0).Seconds()))
}

// c03xCPU is the processor time this process has used (diagnostics only: sizing the tiers on a
// machine that is busy with other things; nothing is decided by it).
func c03xCPU() time.Duration {
	var ru syscall.Rusage
	if syscall.Getrusage(syscall.RUSAGE_SELF, &ru) != nil {
		return 0
	}
	return time.Duration(ru.Utime.Nano() + ru.Stime.Nano())
}

// c03ExtPost: vacuity guard over the merged counters.
func c03ExtPost(c *Ctx) {
	if envInt("VERIF_C03X_OFF", 0) == 1 || envInt("VERIF_C03X_ONLY", -1) >= 0 {
		return
	}
	for _, k := range c03xMustSee {
		if c.Counters[k] == 0 {
			c.Error("vacuous (second search): counter %s is zero", k)
		}
	}
	if int(c.Counters["ext_configurations_searched"]) != len(c03xConfigs(c.Quick())) {
		c.Error("second search: %d of %d configurations searched", c.Counters["ext_configurations_searched"], len(c03xConfigs(c.Quick())))
	}
	if c.Counters["ext_states"] < 100 {
		c.Error("vacuous (second search): %d states", c.Counters["ext_states"])
	}
}

// c03ExtReplay re-runs one recorded case of the second search.
func c03ExtReplay(c *Ctx, raw json.RawMessage) (string, bool) {
	var cs c03xCase
	if json.Unmarshal(raw, &cs) != nil || cs.Kind != "ext-history" {
		return "", false
	}
	r := c03xRun(c.Seed, cs.Cfg, cs.Hist, cs.Op)
	world.ClearAdvanceHooks()
	if r.Fail != "" {
		return "could not re-run: " + r.Fail, true
	}
	text := c03xHistString(cs.Hist)
	if cs.Op != nil {
		text += " => " + cs.Op.String()
	}
	if r.Key != "" {
		c.Violate(r.Key, fmt.Sprintf("[%s] %s: %s", cs.Cfg.String(), text, r.Msg), 1, cs)
	}
	if r.InvKey != "" {
		c.Violate(r.InvKey, fmt.Sprintf("[%s] %s: %s", cs.Cfg.String(), text, r.InvMsg), 1, cs)
	}
	out := "state: " + r.Canon
	if r.Obs != nil {
		b, _ := json.Marshal(r.Obs)
		out = "observed " + string(b) + " class " + r.Class + "; " + out
	}
	return out, true
}
