//go:build verif

package main

import (
	"fmt"
	"net/http"
	"sort"
	"strings"

	"github.com/oauth2-proxy/oauth2-proxy/v7/verifx/explore"
	"github.com/oauth2-proxy/oauth2-proxy/v7/verifx/sched"
	"github.com/oauth2-proxy/oauth2-proxy/v7/verifx/vrt"
	"github.com/oauth2-proxy/oauth2-proxy/v7/verifx/world"
)

// C07 under concurrency. "On every request forwarded upstream ... exactly the values derived from
// the authenticated session": the injectors are built once and shared by all requests, so a value
// kept between two statements of an injector (a scratch buffer, a cached header set) would leak
// one user's identity into another user's request. Two requests of different users are served
// concurrently by the real handler; pkg/header and pkg/middleware/headers.go are instrumented so
// that every statement that touches a struct field, a map, a package-level variable or a variable
// captured by a closure is a scheduling point, and all interleavings up to the preemption bound
// are explored. Oracle (differential, no hand-written expectation): what the upstream / the
// auth-only client sees for each request equals what it sees when the same request is served
// alone. Conflicting unsynchronised accesses of the two threads (data races at statement
// granularity) are counted and noted; the deciding oracle is the observable one.

type c07ConcScenario struct {
	Config string    `json:"configuration"`
	Creds  [2]string `json:"credentials"`
	Styles [2]string `json:"client_header_styles"`
	Paths  [2]string `json:"paths"`
}

type c07ConcReplay struct {
	Stmt     bool            `json:"statement_level_scheduling"`
	Kind     string          `json:"kind"`
	Scenario c07ConcScenario `json:"scenario"`
	Choices  []int           `json:"choices"`
	Order    string          `json:"thread_order"`
	What     string          `json:"what"`
}

func c07ConcConfigs() []*c07Config {
	f := c07Flags{PassUser: true, PassBasic: true, PassAT: true, SetX: true, SetBasic: true, Password: "s3:cret"}
	legacy := &c07Config{Name: "legacy-all-on", Legacy: &f}
	legacy.ref, legacy.rejectWhy = c07LegacyRef(f)
	st := c07Structured()
	return []*c07Config{legacy, {Name: "structured-1", Structured: 1, ref: st[0]}, {Name: "structured-5", Structured: 5, ref: st[4]}}
}

func c07ConcScenarios(quick bool) []c07ConcScenario {
	var out []c07ConcScenario
	credPairs := [][2]string{{"cookie-oidc-alice", "cookie-oidc-three"}, {"cookie-oidc-alice", "basic-htpasswd"}, {"cookie-oidc-three", "bearer"}}
	pathPairs := [][2]string{{"upstream", "upstream"}, {"auth-only", "auth-only"}, {"upstream", "auth-only"}}
	for _, cfg := range c07ConcConfigs() {
		for ci, cp := range credPairs {
			for pi, pp := range pathPairs {
				if quick && (ci+pi)%3 != 0 && !(ci == 0 && pi == 0) {
					continue
				}
				out = append(out, c07ConcScenario{Config: cfg.Name, Creds: cp, Styles: [2]string{"canonical", "none"}, Paths: pp})
			}
		}
	}
	return out
}

type c07ConcView struct {
	Status int
	Seen   string // canonical rendering of what the upstream (or the auth-only client) saw
}

func c07ConcRequest(e *c07Env, sc c07ConcScenario, i int) *world.Req {
	cr := e.cred(sc.Creds[i])
	hdrs := append([][2]string{}, c07ClientHeaders(cr, sc.Styles[i])...)
	hdrs = append(hdrs, [2]string{"X-Req", fmt.Sprint(i)})
	target := "/app"
	if sc.Paths[i] == "auth-only" {
		target = "/oauth2/auth"
	}
	return &world.Req{Method: "GET", Target: target, Host: c07Host, Headers: hdrs}
}

func c07RenderHeader(h http.Header) string {
	var names []string
	for n := range h {
		names = append(names, n)
	}
	sort.Strings(names)
	var b strings.Builder
	for _, n := range names {
		fmt.Fprintf(&b, "%s=%q;", n, h[n])
	}
	return b.String()
}

// c07ConcViews renders, per request, the status and the headers seen on the other side.
func c07ConcViews(e *c07Env, sc c07ConcScenario, resps [2]*world.Resp) (v [2]c07ConcView, err string) {
	ups := map[string]http.Header{}
	for _, r := range e.up.Take() {
		k := r.Header.Get("X-Req")
		if _, dup := ups[k]; dup {
			return v, "request " + k + " reached the upstream twice"
		}
		ups[k] = r.Header
	}
	for i := 0; i < 2; i++ {
		if resps[i] == nil {
			return v, fmt.Sprintf("request %d got no response", i)
		}
		if resps[i].Panic != nil {
			return v, fmt.Sprintf("request %d panicked: %v at %s", i, resps[i].Panic, resps[i].PanicSite())
		}
		v[i].Status = resps[i].Status
		if sc.Paths[i] == "auth-only" {
			v[i].Seen = "response:" + c07RenderHeader(resps[i].Header)
		} else if h, ok := ups[fmt.Sprint(i)]; ok {
			v[i].Seen = "upstream:" + c07RenderHeader(h)
		} else {
			v[i].Seen = "not-forwarded"
		}
	}
	return v, ""
}

// c07ConcSetup serves each request alone (the reference) and returns the body of one concurrent
// execution and the comparison with the reference.
func c07ConcSetup(e *c07Env, sc c07ConcScenario, px *Proxy) (solo [2]c07ConcView, body func(x *explore.Exec) (*sched.Outcome, [2]c07ConcView, string), diff func(v [2]c07ConcView) string, serr string) {
	for i := 0; i < 2; i++ {
		e.up.Take()
		var rs [2]*world.Resp
		rs[i] = world.Serve(px.H, c07ConcRequest(e, sc, i))
		rs[1-i] = &world.Resp{}
		v, err := c07ConcViews(e, sc, rs)
		if err != "" || v[i].Seen == "not-forwarded" {
			return solo, nil, nil, fmt.Sprintf("request %d alone: %s %+v", i, err, v[i])
		}
		solo[i] = v[i]
	}
	body = func(x *explore.Exec) (*sched.Outcome, [2]c07ConcView, string) {
		e.up.Take()
		s := sched.New(x, sched.Options{Horizon: 400, MaxSteps: 20000})
		var resps [2]*world.Resp
		for i := 0; i < 2; i++ {
			i := i
			s.Go(fmt.Sprintf("req%d", i), func() { resps[i] = world.Serve(px.H, c07ConcRequest(e, sc, i)) })
		}
		out := s.Run()
		if out.Aborted != "" {
			e.up.Take()
			return out, [2]c07ConcView{}, concAbortText(out)
		}
		v, err := c07ConcViews(e, sc, resps)
		return out, v, err
	}
	diff = func(v [2]c07ConcView) string {
		for i := 0; i < 2; i++ {
			if v[i] != solo[i] {
				return fmt.Sprintf("request %d (%s, %s) served concurrently with a request of %s: status %d, the other side saw\n    %s\n  served alone: status %d, the other side saw\n    %s",
					i, sc.Creds[i], sc.Paths[i], sc.Creds[1-i], v[i].Status, clipMid(v[i].Seen, 900), solo[i].Status, clipMid(solo[i].Seen, 900))
			}
		}
		return ""
	}
	return solo, body, diff, ""
}

// c07ConcReplayOne re-executes one recorded schedule.
func c07ConcReplayOne(c *Ctx, e *c07Env, rp c07ConcReplay) string {
	vrt.Enabled = true
	vrt.AllStatements = map[string]bool{"pkg/header": true, "pkg/middleware": true}
	if !rp.Stmt {
		vrt.AllStatements = nil
	}
	defer func() { vrt.Enabled = false; vrt.AllStatements = nil }()
	for _, cfg := range c07ConcConfigs() {
		if cfg.Name != rp.Scenario.Config {
			continue
		}
		px, err := e.build(cfg)
		if err != nil {
			return "configuration rejected: " + err.Error()
		}
		_, body, diff, serr := c07ConcSetup(e, rp.Scenario, px)
		if serr != "" {
			return serr
		}
		out, v, berr := body(explore.Replay(rp.Choices, nil))
		if berr != "" {
			c.Violate("C07/concurrent/"+strings.Fields(berr)[0], berr, 1, rp)
		} else if d := diff(v); d != "" {
			c.Violate("C07/concurrent/headers-differ-from-serving-alone", d, 1, rp)
		}
		return fmt.Sprintf("order %s, %d unsynchronised conflicts", sched.DescribeOrder(out.Order), len(out.Races))
	}
	return "unknown configuration " + rp.Scenario.Config
}

func c07Concurrent(c *Ctx, e *c07Env) {
	vrt.Enabled = true
	vrt.AllStatements = map[string]bool{"pkg/header": true, "pkg/middleware": true}
	defer func() { vrt.Enabled = false; vrt.AllStatements = nil }()
	bound := 1
	if !c.Quick() {
		bound = 2
	}
	cfgs := map[string]*c07Config{}
	for _, cfg := range c07ConcConfigs() {
		cfgs[cfg.Name] = cfg
	}
	pxs := map[string]*Proxy{}
	scs := c07ConcScenarios(c.Quick())
	c.Info["concurrent_scenarios"] = len(scs)
	c.Info["concurrent_preemption_bound"] = bound
	for si, sc := range scs {
		if c.Expired() {
			return
		}
		sc := sc
		px := pxs[sc.Config]
		if px == nil {
			var err error
			if px, err = e.build(cfgs[sc.Config]); err != nil {
				c.Error("C07 concurrent: configuration %s does not build: %v", sc.Config, err)
				return
			}
			pxs[sc.Config] = px
		}
		_, body, diff, serr := c07ConcSetup(e, sc, px)
		if serr != "" {
			c.Error("C07 concurrent %+v: %s", sc, serr)
			continue
		}
		every := vrt.AllStatements
		if len(every) > 0 && !concStatementLevelOK(func(x *explore.Exec) { body(x) }) {
			vrt.AllStatements = nil
			c.Inc("conc_scenarios_without_statement_level_scheduling")
			if c.Shard == 0 {
				c.Note("concurrent scenario %+v: statement paths differ between identical executions (map iteration order?): explored with access-based scheduling points only", sc)
			}
		}
		for _, pass := range concPasses(bound, len(vrt.AllStatements) > 0) {
			if !pass.stmt {
				vrt.AllStatements = nil
			}
			stats := explore.Run(explore.Config{Stop: schedStuck, MaxCost: pass.bound, Deadline: c.Deadline, Shard: c.Shard, Shards: c.Shards, ShardDepth: 2, TolerateDivergence: true, MaxDivergences: 16}, func(x *explore.Exec, own bool) {
				out, v, err := body(x)
				if !own {
					return
				}
				if concInconclusive(c, err) {
					return
				}
				c.Inc("evaluations")
				c.Inc("conc_executions")
				c.Inc("traces_validated_against_impl")
				c.Add("transitions", int64(out.Steps))
				c.SetMax("conc_max_steps_per_execution", int64(out.Steps))
				order := sched.DescribeOrder(out.Order)
				c.Distinct("distinct_nontrivial", fmt.Sprintf("conc|%d|%s", si, order))
				if out.Switches > 1 {
					c.Inc("conc_executions_with_a_preemption")
				}
				for _, r := range out.Races {
					if c.Distinct("conc_distinct_unsynchronised_conflicts", r.Key()) {
						c.Note("unsynchronised conflicting accesses (counted, not the deciding oracle): %s", r.Key())
					}
				}
				rp := c07ConcReplay{Kind: "concurrent-requests", Stmt: len(vrt.AllStatements) > 0, Scenario: sc, Choices: x.Choices(), Order: order}
				if err != "" {
					rp.What = err
					c.confirm("C07/concurrent/"+strings.Fields(err)[0], fmt.Sprintf("%+v: %s [thread order %s]", sc, err, order), len(rp.Choices), rp, func() (string, bool) {
						_, _, e2 := body(explore.Replay(rp.Choices, nil))
						return "C07/concurrent/" + strings.Fields(err)[0], e2 != ""
					})
					return
				}
				if d := diff(v); d != "" {
					rp.What = d
					c.confirm("C07/concurrent/headers-differ-from-serving-alone", fmt.Sprintf("%s: %s [thread order %s]", sc.Config, d, order), len(rp.Choices), rp, func() (string, bool) {
						_, v2, e2 := body(explore.Replay(rp.Choices, nil))
						return "C07/concurrent/headers-differ-from-serving-alone", e2 == "" && diff(v2) != ""
					})
				}
			})
			c.Add("states", int64(stats.Executions))
			vrt.AllStatements = every
			if stats.Divergences > 0 {
				c.Unstable("concurrent scenario %+v: %d executions did not reproduce their replayed prefix", sc, stats.Divergences)
			}
			if !stats.Exhaustive {
				c.Exhaustive = false
				c.Note("concurrent part %+v: not exhaustive (level completed %d)", sc, stats.LevelCompleted)
			}
		}
	}
}
