//go:build verif

package main

import (
	"fmt"
	"net/http/httptest"
	"os"
	"os/exec"
	"regexp"
	"strings"
	"sync"
	"time"

	sessionsapi "github.com/oauth2-proxy/oauth2-proxy/v7/pkg/apis/sessions"
	"github.com/oauth2-proxy/oauth2-proxy/v7/pkg/authentication/basic"
	"github.com/oauth2-proxy/oauth2-proxy/v7/verifx/evidence"
	"github.com/oauth2-proxy/oauth2-proxy/v7/verifx/world"
)

// Free-running supplements (thorough tier only, NOT the deciding step; reported separately in
// the evidence under "supplement_race_detector"): the same bodies as the scheduler explorations
// of C20 and C12, run with 2-16 really concurrent goroutines in a `-race` build with the real
// sync package (no scheduler active, so the shims delegate to the originals). A cooperative
// scheduler blinds the race detector, and the C20 instrumentation deliberately
// under-approximates (struct-valued fields, address-taken uses); this pass looks at what is left.

// raceSupplements maps a check id to its stress body.
var raceSupplements = map[string]func(){
	"C20": raceC20,
	"C12": raceC12,
	"C07": raceC07,
	"C10": raceC10,
	"C05": raceC05,
}

// raceC05: logins started (and completed) by 2-16 really concurrent browsers, PKCE on.
func raceC05() {
	idp := world.NewIdP()
	up := world.NewUpstream("race")
	defer up.Close()
	px := mustProxy(&ProxyCfg{Flags: append(baseFlags(up.URL()), "--email-domain=*", "--cookie-secure=false", "--code-challenge-method=S256", "--insecure-oidc-skip-nonce=false")})
	for _, n := range []int{2, 4, 8, 16} {
		var wg sync.WaitGroup
		for g := 0; g < n; g++ {
			wg.Add(1)
			go func(g int) {
				defer wg.Done()
				for i := 0; i < 40; i++ {
					b := newBrowser(px, "http", "app.example.com")
					if i%4 == 0 {
						b.Login(idp, "alice", "/app")
					} else {
						b.Start("/app")
					}
				}
			}(g)
		}
		wg.Wait()
		fmt.Printf("RACE-SUPPLEMENT C05 goroutines=%d done\n", n)
	}
}

// raceC07: requests of all credentials on the proxied and the auth-only path, served by 2-16
// really concurrent goroutines under the three configurations of the concurrent part.
func raceC07() {
	e := c07NewEnv(&Ctx{Part: evidence.NewPart()})
	defer e.up.Close()
	for _, cfg := range c07ConcConfigs() {
		px, err := e.build(cfg)
		if err != nil {
			fmt.Println("RACE-SUPPLEMENT C07 setup failed:", err)
			return
		}
		for _, n := range []int{2, 4, 8, 16} {
			var wg sync.WaitGroup
			for g := 0; g < n; g++ {
				wg.Add(1)
				go func(g int) {
					defer wg.Done()
					for i := 0; i < 40; i++ {
						cr := e.creds[(g+i)%len(e.creds)]
						target := "/app"
						if (g+i/len(e.creds))%2 == 1 {
							target = "/oauth2/auth"
						}
						world.Serve(px.H, &world.Req{Method: "GET", Target: target, Host: c07Host, Headers: c07ClientHeaders(cr, c07Styles[(g+i)%len(c07Styles)])})
					}
				}(g)
			}
			wg.Wait()
			e.up.Take()
			fmt.Printf("RACE-SUPPLEMENT C07 %s goroutines=%d done\n", cfg.Name, n)
		}
	}
}

// raceC10: browsers saving and loading sessions of different sizes concurrently (both stores).
func raceC10() {
	world.NewIdP()
	up := world.NewUpstream("race")
	defer up.Close()
	for _, store := range []string{"cookie", "redis"} {
		cfg := &ProxyCfg{Flags: append(baseFlags(up.URL()), "--email-domain=*", "--cookie-secure=false")}
		if store == "redis" {
			cfg.Redis = world.NewRedis()
		}
		px := mustProxy(cfg)
		for _, n := range []int{2, 4, 8, 16} {
			var wg sync.WaitGroup
			for g := 0; g < n; g++ {
				wg.Add(1)
				go func(g int) {
					defer wg.Done()
					who := fmt.Sprintf("user%d", g)
					jar := world.NewJar()
					for round, size := range []int{900, 5200, 300, 9000, 2500} {
						want := &sessionsapi.SessionState{Email: who + "@example.com", User: who, AccessToken: who + "-" + c02Incompressible(size, int64(g*10+round))}
						rec := httptest.NewRecorder()
						req, _ := (&world.Req{Method: "GET", Target: "/", Host: "app.example.com", Headers: cookieHdr(jar)}).Parse()
						if err := verifSessionStore(px.P).Save(rec, req, want); err != nil {
							continue
						}
						jar.SetCookies("http", "app.example.com", "/", rec.Header())
						req2, _ := (&world.Req{Method: "GET", Target: "/", Host: "app.example.com", Headers: cookieHdr(jar)}).Parse()
						_, _ = verifSessionStore(px.P).Load(req2)
						world.Serve(px.H, &world.Req{Method: "GET", Target: "/app", Host: "app.example.com", Headers: cookieHdr(jar)})
					}
				}(g)
			}
			wg.Wait()
			up.Take()
			fmt.Printf("RACE-SUPPLEMENT C10 %s goroutines=%d done\n", store, n)
		}
		if cfg.Redis != nil {
			cfg.Redis.Close()
		}
	}
}

func raceC20() {
	htV, htQ := c20HtVersions()
	emV, emQ := c20EmVersions()
	for _, n := range []int{2, 4, 8, 16} {
		ht := newC20Htpasswd(htV[0])
		em := newC20Emails(emV[0])
		var wg sync.WaitGroup
		stop := make(chan struct{})
		for r := 0; r < 2; r++ {
			wg.Add(2)
			go func(r int) {
				defer wg.Done()
				for i := 0; i < 150; i++ {
					v := htV[(i+r)%len(htV)]
					basic.VerifReload(ht.v, ht.fileOf(v))
				}
			}(r)
			go func(r int) {
				defer wg.Done()
				for i := 0; i < 150; i++ {
					em.write(emV[(i+r)%len(emV)])
					em.um.LoadAuthenticatedEmailsFile()
				}
			}(r)
		}
		var vg sync.WaitGroup
		for v := 0; v < n; v++ {
			vg.Add(1)
			go func(v int) {
				defer vg.Done()
				for i := 0; ; i++ {
					select {
					case <-stop:
						return
					default:
					}
					ht.validate(htQ[(i+v)%len(htQ)])
					em.validate(emQ[(i+v)%len(emQ)])
				}
			}(v)
		}
		wg.Wait()
		close(stop)
		vg.Wait()
		fmt.Printf("RACE-SUPPLEMENT C20 goroutines=%d done\n", n+4)
	}
}

// fileOf returns a file holding version v (written once), for direct reloads.
func (h *c20Htpasswd) fileOf(v *c20Version) string {
	c20FileMu.Lock()
	defer c20FileMu.Unlock()
	f, ok := h.files[v.Name]
	if !ok {
		f = h.dir + "/version-" + v.Name
		if err := os.WriteFile(f, []byte(v.Content), 0o600); err != nil {
			panic(err)
		}
		h.files[v.Name] = f
	}
	return f
}

var c20FileMu sync.Mutex

func raceC12() {
	e := c12NewEnv()
	defer e.up.Close()
	defer e.redis.Close()
	for _, n := range []int{2, 4, 8, 16} {
		for round := 0; round < 12; round++ {
			_, cookie, _, err := c12Prepare(e, c12Scenario{Threads: n, Behaviour: "rotate"}, int64(round))
			if err != nil {
				fmt.Println("RACE-SUPPLEMENT C12 setup failed:", err)
				return
			}
			var wg sync.WaitGroup
			for i := 0; i < n; i++ {
				wg.Add(1)
				go func(i int) {
					defer wg.Done()
					world.Serve(e.px.H, &world.Req{Method: "GET", Target: "/app", Host: "app.example.com",
						Headers: [][2]string{{"Cookie", cookie}, {"X-Req", fmt.Sprint(i)}}})
				}(i)
			}
			wg.Wait()
		}
		fmt.Printf("RACE-SUPPLEMENT C12 goroutines=%d done\n", n)
	}
}

var raceBlock = regexp.MustCompile(`(?s)WARNING: DATA RACE\n(.*?)\n==================`)
var raceFrame = regexp.MustCompile(`\n\s+(\S+\.go):(\d+) `)

// runRaceSupplement executes the -race binary (if check.sh built one) and turns every report
// whose two accesses are both in repository code into a violation.
func runRaceSupplement(c *Ctx, id string) {
	bin := os.Getenv("VERIF_RACE_BIN")
	if bin == "" || raceSupplements[id] == nil {
		return
	}
	start := time.Now()
	cmd := exec.Command(bin)
	cmd.Env = append(os.Environ(), "VERIF_RACE_RUN="+id, "GORACE=halt_on_error=0 exitcode=0", "VERIF_CHECK=")
	out, err := cmd.CombinedOutput()
	text := string(out)
	info := map[string]any{"ran": true, "wall_s": time.Since(start).Seconds(), "completed_rounds": strings.Count(text, "RACE-SUPPLEMENT "+id)}
	if err != nil {
		info["error"] = err.Error()
		c.Note("race supplement for %s ended with %v", id, err)
	}
	reports := 0
	for _, m := range raceBlock.FindAllStringSubmatch(text, -1) {
		blk := m[1]
		// the first two stanzas are the stacks of the two accesses
		stanzas := strings.Split(blk, "\n\n")
		var tops []string
		attributable := len(stanzas) >= 2
		for _, st := range stanzas[:min(2, len(stanzas))] {
			top, ok := raceStackByImplementation(st)
			if !ok {
				attributable = false
			}
			tops = append(tops, top)
		}
		if !attributable || len(tops) != 2 {
			c.Inc("supplement_race_reports_not_attributable_to_the_implementation")
			continue
		}
		reports++
		if tops[1] < tops[0] {
			tops[0], tops[1] = tops[1], tops[0]
		}
		c.Violate(fmt.Sprintf("%s/race-detector:%s~%s", id, tops[0], tops[1]),
			fmt.Sprintf("Go race detector (free-running supplement): unsynchronised accesses at %s and %s", tops[0], tops[1]), 1000, clipN(blk, 1500))
	}
	info["reports_in_repository_code"] = reports
	c.Info["supplement_race_detector"] = info
}

var raceEntryPoints = []string{".ServeHTTP(", ".Save(", ".Load(", ".Clear(", ".Validate(", "loadHTPasswdFile(", "LoadAuthenticatedEmailsFile(", ".IsValid(", "VerifReload("}

// raceStackByImplementation decides whether an access stack of a race report belongs to the
// implementation: walking from the access towards the goroutine's root, an entry point of the
// implementation (ServeHTTP, Validate, the reload functions) must be reached before any frame
// of the harness or its shims. An access the harness makes through a shim on the
// implementation's behalf (e.g. the virtual clock being moved by a sleeping retry loop) is not
// the implementation's race. Returns "file.go:line" of the access.
func raceStackByImplementation(stanza string) (top string, ok bool) {
	lines := strings.Split(stanza, "\n")
	type frame struct{ fn, loc string }
	var frames []frame
	for i := 1; i+1 < len(lines); i += 2 {
		fn := strings.TrimSpace(lines[i])
		loc := strings.TrimSpace(lines[i+1])
		if j := strings.Index(loc, " +0x"); j >= 0 {
			loc = loc[:j]
		}
		frames = append(frames, frame{fn, loc})
	}
	if len(frames) == 0 {
		return "", false
	}
	harness := func(f frame) bool {
		return strings.Contains(f.fn, "/verifx/") || strings.Contains(f.loc, "zz_verif_") || strings.Contains(f.loc, "/verifx/") || strings.Contains(f.loc, "/verif/")
	}
	repo := func(f frame) bool {
		return strings.HasPrefix(f.fn, "github.com/oauth2-proxy/oauth2-proxy/") && !harness(f)
	}
	if !repo(frames[0]) {
		return "", false
	}
	top = frames[0].loc
	if j := strings.LastIndex(top, "/"); j >= 0 {
		top = top[j+1:]
	}
	for _, f := range frames {
		if harness(f) {
			return top, false
		}
		for _, ep := range raceEntryPoints {
			if strings.Contains(f.fn, ep) && repo(f) {
				return top, true
			}
		}
	}
	return top, false
}

func clipN(s string, n int) string {
	if len(s) > n {
		return s[:n]
	}
	return s
}
