//go:build verif

package main

import (
	"crypto/sha256"
	"encoding/hex"
	"encoding/json"
	"fmt"
	"io"
	"net/http"
	"net/textproto"
	"net/url"
	"os"
	"path"
	"path/filepath"
	"regexp"
	"sort"
	"strconv"
	"strings"
	"time"

	"github.com/oauth2-proxy/oauth2-proxy/v7/pkg/apis/options"
	"github.com/oauth2-proxy/oauth2-proxy/v7/verifx/world"
)

// C17 — authenticated traffic is proxied faithfully to the right upstream (PROD).
//
// Every request is sent with a real session cookie (one login per proxy) and is observed at two
// places: what each recording upstream received, and what the client got back. The reference
// model (longest-prefix router, rewrite by regexp replacement on the path, header/body/response
// equality) is written from the property statement, docs/configuration/overview.md "Upstreams
// Configuration" and docs/configuration/alpha_config.md (Upstream, UpstreamConfig).

// ---------------------------------------------------------------------------------------------
// configurations

type c17Up struct {
	ID       string
	Kind     string // http | unix (an HTTP upstream behind a unix socket) | static | file
	Path     string // simple path, or a regular expression when Rewrite != ""
	Rewrite  string
	PassHost int // structured sets only: 0 unset (default true), 1 true, 2 false
	Code     int // static
}

type c17Set struct {
	Name   string
	Legacy bool // configured with repeated --upstream flags, otherwise with the structured options
	Ups    []c17Up
	re     []*regexp.Regexp
}

func c17Sets() []*c17Set {
	sets := []*c17Set{
		{Name: "root-only", Legacy: true, Ups: []c17Up{{ID: "root", Kind: "http", Path: "/"}}},
		{Name: "nested", Legacy: true, Ups: []c17Up{{ID: "a", Kind: "http", Path: "/a/"}, {ID: "root", Kind: "http", Path: "/"}, {ID: "ab", Kind: "http", Path: "/a/b/"}}},
		{Name: "siblings", Legacy: true, Ups: []c17Up{{ID: "a", Kind: "http", Path: "/a/"}, {ID: "b", Kind: "http", Path: "/b/"}, {ID: "ba", Kind: "http", Path: "/b/a/"}, {ID: "aexact", Kind: "http", Path: "/a/exact/"}}},
		{Name: "exact", Legacy: true, Ups: []c17Up{{ID: "exact", Kind: "http", Path: "/exact"}, {ID: "root", Kind: "http", Path: "/"}, {ID: "exacts", Kind: "http", Path: "/exact/"}, {ID: "a-only", Kind: "http", Path: "/a"}, {ID: "ab-only", Kind: "http", Path: "/a/b"}}},
		{Name: "exact-noroot", Legacy: true, Ups: []c17Up{{ID: "exact", Kind: "http", Path: "/exact"}, {ID: "b", Kind: "http", Path: "/b/"}, {ID: "ab-only", Kind: "http", Path: "/a/b"}}},
		{Name: "rewrite", Ups: []c17Up{
			{ID: "plain-a", Kind: "http", Path: "/a/"},
			{ID: "rw-a", Kind: "http", Path: "^/a/(.*)$", Rewrite: "/new/$1"},
			{ID: "root", Kind: "http", Path: "/"},
			{ID: "rw-swap", Kind: "http", Path: "^/exact/([^/]+)/(.*)$", Rewrite: "/swap/$2/$1"},
			{ID: "rw-lead", Kind: "http", Path: "^/x\\+y/([^/]+)/(.*)$", Rewrite: "/$2/$1"},
			{ID: "rw-strip", Kind: "http", Path: "^/x\\+y/(.*)$", Rewrite: "/$1"},
			{ID: "rw-ab", Kind: "http", Path: "^/a/b/(.*)$", Rewrite: "/deep/$1?src=rw&a=9"},
			{ID: "b", Kind: "http", Path: "/b/"},
			{ID: "rw-tail", Kind: "http", Path: "^/b/(.*)/exact$", Rewrite: "/exact-of/$1"},
		}},
		// unanchored patterns: the match may start anywhere in the path and only the matched part
		// is replaced (regexp.ReplaceAllString semantics)
		{Name: "rewrite-unanchored", Ups: []c17Up{
			{ID: "root", Kind: "http", Path: "/"},
			{ID: "plain-a", Kind: "http", Path: "/a/"},
			{ID: "rwu-b", Kind: "http", Path: "/b/(.*)", Rewrite: "/moved/$1"},
			{ID: "rwu-exact", Kind: "http", Path: "exact$", Rewrite: "final"},
			{ID: "rwu-plus", Kind: "http", Path: "x\\+y/([^/]+)$", Rewrite: "plus/$1?from=u"},
		}},
		// two upstreams behind two different unix sockets (same timeout / TLS settings) next to an HTTP one
		{Name: "unix-sockets", Ups: []c17Up{{ID: "ux-a", Kind: "unix", Path: "/a/"}, {ID: "ux-ab", Kind: "unix", Path: "/a/b/"}, {ID: "root", Kind: "http", Path: "/"}, {ID: "ux-b", Kind: "unix", Path: "/b/"}}},
		{Name: "static", Legacy: true, Ups: []c17Up{{ID: "static", Kind: "static", Path: "/", Code: 202}, {ID: "a", Kind: "http", Path: "/a/"}, {ID: "ab", Kind: "http", Path: "/a/b/"}}},
		{Name: "file-mixed", Ups: []c17Up{
			{ID: "files", Kind: "file", Path: "/b/"},
			{ID: "a", Kind: "http", Path: "/a/", PassHost: 2},
			{ID: "rw-files", Kind: "file", Path: "^/exact/(.*)$", Rewrite: "/sub/$1"},
			{ID: "teapot", Kind: "static", Path: "/a/exact/", Code: 418},
			{ID: "ab", Kind: "http", Path: "/a/b/"},
			{ID: "root", Kind: "http", Path: "/", PassHost: 1},
		}},
	}
	for _, s := range sets {
		s.re = make([]*regexp.Regexp, len(s.Ups))
		for i, u := range s.Ups {
			if u.Rewrite != "" {
				s.re[i] = regexp.MustCompile(u.Path)
			}
		}
	}
	return sets
}

// ---------------------------------------------------------------------------------------------
// reference model: routing

// route returns the index of the upstream that must receive a request, or -1. simplePath is the
// request path as seen by prefix/exact matching, regexPath as seen by rewrite patterns (the
// statement does not say whether the percent-encoded or the decoded path is meant; the caller
// evaluates every admissible combination).
func (s *c17Set) route(simplePath, regexPath string) int {
	best := -1
	for i, u := range s.Ups {
		if u.Rewrite == "" || !s.re[i].MatchString(regexPath) {
			continue
		}
		if best < 0 || len(u.Path) > len(s.Ups[best].Path) {
			best = i
		}
	}
	if best >= 0 {
		return best
	}
	for i, u := range s.Ups {
		if u.Rewrite != "" {
			continue
		}
		var m bool
		if strings.HasSuffix(u.Path, "/") {
			m = strings.HasPrefix(simplePath, u.Path)
		} else {
			m = simplePath == u.Path
		}
		if m && (best < 0 || len(u.Path) > len(s.Ups[best].Path)) {
			best = i
		}
	}
	return best
}

// admissibleRoutes: with raw-path proxying on, the documentation fixes prefix matching to the
// raw (percent-encoded) path; otherwise both readings are admissible. For rewrite patterns both
// readings are always admissible.
func (s *c17Set) admissibleRoutes(esc, dec string, raw bool) map[int]bool {
	out := map[int]bool{}
	out[s.route(esc, dec)] = true
	out[s.route(esc, esc)] = true
	if !raw {
		out[s.route(dec, dec)] = true
		out[s.route(dec, esc)] = true
	}
	return out
}

// a decoded path that contains an empty or a dot segment
func c17Dirty(dec string) bool {
	if strings.Contains(dec, "//") {
		return true
	}
	for _, seg := range strings.Split(dec, "/") {
		if seg == "." || seg == ".." {
			return true
		}
	}
	return false
}

// ---------------------------------------------------------------------------------------------
// alphabets

var c17Segments = []string{"a", "b", "exact", "a%2Fb", "%2e", "x%20y", "x+y", ";p=1", "%C3%BC", "%2F"}
var c17Queries = []string{"", "?a=1&b=2", "?b=2&a=1", "?a=%20+", "?a;b", "?%zz", "?", "?a=2&a=1&c="}
var c17Methods = []string{"GET", "POST", "PUT", "DELETE", "PATCH"}

// all concatenations of <= depth segments, each with and without a trailing slash
func c17Paths(depth int) []string {
	out := []string{"/"}
	level := []string{""}
	for d := 0; d < depth; d++ {
		var next []string
		for _, p := range level {
			for _, s := range c17Segments {
				q := p + "/" + s
				next = append(next, q)
				out = append(out, q, q+"/")
			}
		}
		level = next
	}
	// application paths that merely begin with the characters of the proxy prefix, or lie under it
	// without being one of the proxy's endpoints: they are the upstreams' like any other path
	out = append(out, c17NearPrefixPaths...)
	return out
}

var c17NearPrefixPaths = []string{"/oauth2-status/info", "/oauth2.json", "/oauth2foo/bar", "/oauth2x", "/oauth2/unknown", "/oauth2/unknown/deeper", "/oauth2/sign_inx", "/a/oauth2/sign_in"}

type c17HeaderSet struct {
	Name string
	H    [][2]string
}

var c17HeaderSets = []c17HeaderSet{
	{"none", nil},
	{"repeated", [][2]string{{"X-Multi", "a"}, {"X-Multi", "b"}, {"Accept", "text/html"}, {"accept", "*/*;q=0.1"}, {"X-Comma", "a, b"}, {"X-Multi", "c"}, {"X-Empty", ""}}},
	{"unusual", [][2]string{{"x_under_score", "1"}, {"X.Dot", "2"}, {"1-digit", "3"}, {"!#$%&'*+-.^_`|~", "4"}, {"X-UTF8", "grüß"}, {"X-Long", strings.Repeat("L", 6000)},
		{"User-Agent", "verif-agent/1.0"}, {"Accept-Encoding", "br"}, {"X-Space", "  padded   value  "}, {"Authorization", "Custom opaque-token"}, {"X-UPPER-CASE", "V"}, {"Content-Type", "application/x-verif"}}},
	{"hop", [][2]string{{"Connection", "X-Hop, keep-alive"}, {"X-Hop", "1"}, {"Keep-Alive", "timeout=5"}, {"Te", "trailers"}, {"Proxy-Authorization", "Basic Zm9v"}, {"X-End", "stays"}, {"Upgrade-Insecure-Requests", "1"}}},
	{"forwarded", [][2]string{{"X-Forwarded-For", "203.0.113.9"}, {"X-Forwarded-Host", "other.example"}, {"X-Forwarded-Proto", "https"}, {"X-Real-IP", "203.0.113.9"}, {"Forwarded", "for=203.0.113.9;proto=https"},
		{"Via", "1.1 edge"}, {"X-Request-Id", "req-1"}, {"Referer", "http://app.example.com/prev?x=1"}, {"Origin", "http://app.example.com"}}},
	{"two-cookies", [][2]string{{"Cookie", "other=1"}}},
	// names that merely contain (or are contained in, or differ by one character from) the names the
	// proxy injects: they are the client's own end-to-end headers
	{"look-alike", [][2]string{{"X-Forwarded-Username", "u1"}, {"X-Forwarded-User-Agent", "u2"}, {"X-Forwarded-Email-Locale", "de"}, {"X-Forwarded-Groups-Extra", "g"},
		{"X-Amz-Authorization", "AWS4 x"}, {"X-Upstream-Authorization", "tok"}, {"My-X-Forwarded-User", "m"}, {"X-Forwarded-Use", "short"}, {"Forwarded-User", "f"},
		{"X-Forwarded-Preferred-Username-Hint", "h"}, {"X-Forwarded-Access-Token-Type", "bearer"}, {"X-Auth-Request-User-Id", "7"}, {"Authorization-Info", "ai"}, {"X-Authorization", "xa"}}},
	{"conditional", [][2]string{{"If-None-Match", "\"abc\""}, {"If-Modified-Since", "Mon, 02 Jan 2006 15:04:05 GMT"}, {"Range", "bytes=0-9"}, {"Cache-Control", "no-cache"}, {"Accept-Language", "de, en;q=0.5"}}},
}

func c17HeaderSetByName(n string) *c17HeaderSet {
	for i := range c17HeaderSets {
		if c17HeaderSets[i].Name == n {
			return &c17HeaderSets[i]
		}
	}
	return &c17HeaderSets[0]
}

// body kinds: name -> payload length; "chunked-4k" is sent with Transfer-Encoding: chunked
var c17Bodies = []string{"0", "1", "4k", "64k", "1m", "chunked-4k"}

var c17PatternCache = map[int]string{}

func c17Pattern(n int) string {
	if s, ok := c17PatternCache[n]; ok {
		return s
	}
	b := make([]byte, n)
	for i := range b {
		b[i] = byte((i*131 + 17) % 251)
	}
	c17PatternCache[n] = string(b)
	return c17PatternCache[n]
}

func c17Payload(kind string) string {
	switch kind {
	case "1":
		return "\x00"
	case "4k", "chunked-4k":
		return c17Pattern(4096)
	case "64k":
		return c17Pattern(65536)
	case "1m":
		return c17Pattern(1 << 20)
	}
	return ""
}

func c17Sha(s string) string {
	h := sha256.Sum256([]byte(s))
	return hex.EncodeToString(h[:8])
}

// response variants of the recording upstreams, selected by the request header X-Want
var c17Wants = []string{"plain", "created", "nocontent", "redirect-ext", "notfound", "error", "unavailable", "cookies", "unauthorized", "forbidden", "big:262144", "big:1048576",
	// an interim response first (103 Early Hints with a Link header), then the final answer of the named variant
	"hints+created", "hints+notfound",
	// the upstream announces 64 bytes, sends 20 and drops the connection
	"abort-mid-body"}

func c17RespSpec(want, upName string) (status int, hdr [][2]string, body string) {
	want = strings.TrimPrefix(want, "hints+")
	name, arg := want, ""
	if i := strings.IndexByte(want, ':'); i >= 0 {
		name, arg = want[:i], want[i+1:]
	}
	switch name {
	case "created":
		return 201, [][2]string{{"Location", "/made/1?x=%2F"}, {"X-Multi", "a"}, {"X-Multi", "b"}, {"Content-Type", "application/json"}, {"X-Upstream", upName}}, `{"ok":true}`
	case "nocontent":
		return 204, [][2]string{{"X-Upstream", upName}, {"Etag", "\"v1\""}}, ""
	case "redirect-ext":
		return 302, [][2]string{{"Location", "https://elsewhere.example/x?y=1#f"}, {"X-Upstream", upName}, {"Content-Type", "text/plain"}}, "moved"
	case "notfound":
		return 404, [][2]string{{"Cache-Control", "max-age=3"}, {"X-Upstream", upName}, {"Content-Type", "text/plain"}}, "nope"
	case "error":
		return 500, [][2]string{{"x_resp_under", "1"}, {"X-Upstream", upName}, {"Content-Type", "text/plain"}}, "boom"
	case "unavailable":
		return 503, [][2]string{{"Retry-After", "7"}, {"X-Upstream", upName}, {"Content-Type", "text/plain"}}, "later"
	case "cookies":
		return 200, [][2]string{{"Set-Cookie", "up1=1"}, {"Set-Cookie", "up2=2; Path=/; HttpOnly"}, {"Vary", "Cookie"}, {"Vary", "Accept"}, {"X-Upstream", upName}, {"Content-Type", "text/html; charset=utf-8"}}, "<p>cookies</p>"
	case "unauthorized":
		return 401, [][2]string{{"Www-Authenticate", `Basic realm="up"`}, {"X-Upstream", upName}, {"Content-Type", "text/plain"}}, "who are you"
	case "forbidden":
		return 403, [][2]string{{"X-Upstream", upName}, {"Content-Type", "text/plain"}}, "upstream says no"
	case "big":
		n, _ := strconv.Atoi(arg)
		return 200, [][2]string{{"X-Upstream", upName}, {"Content-Type", "application/octet-stream"}}, c17Pattern(n)
	}
	return 200, [][2]string{{"X-Upstream", upName}, {"Content-Type", "text/plain"}}, "upstream:" + upName
}

// ---------------------------------------------------------------------------------------------
// the world of one configuration

var c17Pool = map[string]*world.Upstream{}

func c17Upstream(name string) *world.Upstream {
	if u := c17Pool[name]; u != nil {
		return u
	}
	u := world.NewUpstream(name)
	u.Respond = c17Respond(name)
	c17Pool[name] = u
	return u
}

// c17UpstreamUnix: the same recording upstream behind a unix socket of its own.
func c17UpstreamUnix(name string) *world.Upstream {
	if u := c17Pool["unix:"+name]; u != nil {
		return u
	}
	u := world.NewUpstreamUnix(name, filepath.Join(scratch(), "c17-"+name+".sock"))
	u.Respond = c17Respond(name)
	c17Pool["unix:"+name] = u
	return u
}

// c17Respond is the answer function of the recording upstreams (variant chosen by the request header X-Want).
func c17Respond(name string) func(w http.ResponseWriter, r *http.Request) {
	return func(w http.ResponseWriter, r *http.Request) {
		if r.Header.Get("X-Want") == "abort-mid-body" {
			w.Header().Set("X-Upstream", name)
			w.Header().Set("Content-Type", "text/plain")
			w.Header().Set("Content-Length", "64")
			w.WriteHeader(200)
			io.WriteString(w, c17AbortPrefix)
			if f, ok := w.(http.Flusher); ok {
				f.Flush()
			}
			if hj, ok := w.(http.Hijacker); ok {
				if conn, _, err := hj.Hijack(); err == nil {
					conn.Close()
				}
			}
			return
		}
		st, hdr, body := c17RespSpec(r.Header.Get("X-Want"), name)
		if strings.HasPrefix(r.Header.Get("X-Want"), "hints+") {
			w.Header().Set("Link", "</style.css>; rel=preload; as=style")
			w.WriteHeader(http.StatusEarlyHints)
			w.Header().Del("Link")
		}
		for _, h := range hdr {
			w.Header().Add(h[0], h[1])
		}
		w.WriteHeader(st)
		if st != 204 {
			io.WriteString(w, body)
		}
	}
}

func c17ClosePool() {
	for k, u := range c17Pool {
		u.Close()
		delete(c17Pool, k)
	}
}

var c17FileNames = []string{"hello.txt", "x y", "x+y", ";p=1", "ü", "a/inner.txt", "a/b", "b/a", "exact/a", "sub/a", "sub/x y", "sub/x+y", "sub/;p=1", "sub/ü", "sub/b/a", "sub/exact"}

func c17FileRoot() string {
	root := filepath.Join(scratch(), "c17files")
	if _, err := os.Stat(root); err == nil {
		return root
	}
	for _, n := range c17FileNames {
		p := filepath.Join(root, filepath.FromSlash(n))
		if err := os.MkdirAll(filepath.Dir(p), 0o755); err != nil {
			panic(err)
		}
		if err := os.WriteFile(p, []byte("file:"+n+"\n"), 0o644); err != nil {
			panic(err)
		}
	}
	return root
}

const c17Host = "app.example.com"

type c17Env struct {
	Set      *c17Set
	Raw      bool
	PHV      int // 0: pass-host-header as configured (default on), 1: flipped
	px       *Proxy
	cookie   string
	ups      []*world.Upstream
	passHost []bool
	injReq   map[string]bool
	injResp  map[string]bool
	fileRoot string
}

func (e *c17Env) name() string { return fmt.Sprintf("%s/raw=%v/phv=%d", e.Set.Name, e.Raw, e.PHV) }

func c17Build(idp *world.IdP, set *c17Set, raw bool, phv int) (*c17Env, error) {
	e := &c17Env{Set: set, Raw: raw, PHV: phv, ups: make([]*world.Upstream, len(set.Ups)), passHost: make([]bool, len(set.Ups)),
		injReq: map[string]bool{}, injResp: map[string]bool{}, fileRoot: c17FileRoot()}
	for i, u := range set.Ups {
		switch u.Kind {
		case "http":
			e.ups[i] = c17Upstream(u.ID)
		case "unix":
			e.ups[i] = c17UpstreamUnix(u.ID)
		}
	}
	var flags []string
	var structured []options.Upstream
	if set.Legacy {
		for i, u := range set.Ups {
			switch u.Kind {
			case "http":
				flags = append(flags, "--upstream="+e.ups[i].URL()+u.Path)
			case "static":
				flags = append(flags, fmt.Sprintf("--upstream=static://%d", u.Code))
			case "file":
				flags = append(flags, "--upstream=file://"+e.fileRoot+"/#"+u.Path)
			}
			e.passHost[i] = phv == 0
		}
		flags = append(baseFlags("")[:6], flags...)
		if phv == 1 {
			flags = append(flags, "--pass-host-header=false")
		}
	} else {
		flags = baseFlags("http://127.0.0.1:1/")
		for i, u := range set.Ups {
			o := options.Upstream{ID: u.ID, Path: u.Path, RewriteTarget: u.Rewrite}
			switch u.Kind {
			case "http", "unix":
				o.URI = e.ups[i].URL()
				ph := u.PassHost != 2
				if phv == 1 {
					ph = !ph
				}
				e.passHost[i] = ph
				if !(ph && u.PassHost == 0 && phv == 0) {
					v := ph
					o.PassHostHeader = &v
				}
			case "static":
				code := u.Code
				o.Static, o.StaticCode = true, &code
			case "file":
				o.URI = "file://" + e.fileRoot
			}
			structured = append(structured, o)
		}
	}
	flags = append(flags, "--email-domain=*", "--cookie-secure=false")
	px, err := buildProxy(&ProxyCfg{Flags: flags, Mutate: func(o *options.Options) {
		if structured != nil {
			o.UpstreamServers.Upstreams = structured
		}
		o.UpstreamServers.ProxyRawPath = raw
	}})
	if err != nil {
		return nil, err
	}
	e.px = px
	for _, h := range px.Opts.InjectRequestHeaders {
		e.injReq[textproto.CanonicalMIMEHeaderKey(h.Name)] = true
	}
	for _, h := range px.Opts.InjectResponseHeaders {
		e.injResp[textproto.CanonicalMIMEHeaderKey(h.Name)] = true
	}
	b := newBrowser(px, "http", c17Host)
	resp, _, err := b.Login(idp, "alice", "/")
	if err != nil || resp.Status != 302 {
		return nil, fmt.Errorf("login failed: %v status %d", err, resp.Status)
	}
	e.cookie = b.Jar.Header("http", c17Host, "/")
	if ui := b.Get(px.Opts.ProxyPrefix + "/userinfo"); ui.Status != 200 || e.cookie == "" {
		return nil, fmt.Errorf("session not usable after login: userinfo status %d", ui.Status)
	}
	return e, nil
}

// ---------------------------------------------------------------------------------------------
// one request and its observation

type c17Req struct {
	Set    string `json:"set"`
	Raw    bool   `json:"proxy_raw_path"`
	PHV    int    `json:"pass_host_variant"`
	Method string `json:"method"`
	Target string `json:"target"`
	HSet   string `json:"headers"`
	Body   string `json:"body"`
	Want   string `json:"upstream_response"`
	Class  string `json:"class,omitempty"`
	Note   string `json:"observed,omitempty"`
}

type c17Hit struct {
	Idx int
	R   *world.UpReq
}

type c17Obs struct {
	Resp *world.Resp
	Hits []c17Hit
	Sent [][2]string // client headers as sent (without framing)
}

func c17Chunked(p string) string {
	var b strings.Builder
	for len(p) > 0 {
		n := 1000
		if n > len(p) {
			n = len(p)
		}
		fmt.Fprintf(&b, "%x\r\n%s\r\n", n, p[:n])
		p = p[n:]
	}
	b.WriteString("0\r\n\r\n")
	return b.String()
}

func (e *c17Env) do(rq *c17Req) *c17Obs {
	for _, u := range e.ups {
		if u != nil {
			u.Take()
		}
	}
	hs := c17HeaderSetByName(rq.HSet)
	sent := [][2]string{{"Cookie", e.cookie}, {"X-Want", rq.Want}}
	sent = append(sent, hs.H...)
	r := &world.Req{Method: rq.Method, Target: rq.Target, Host: c17Host}
	r.Headers = append(r.Headers, sent...)
	payload := c17Payload(rq.Body)
	if rq.Body == "chunked-4k" {
		r.Headers = append(r.Headers, [2]string{"Transfer-Encoding", "chunked"})
		r.Body = c17Chunked(payload)
	} else {
		r.Body = payload
	}
	o := &c17Obs{Sent: sent}
	o.Resp = world.Serve(e.px.H, r)
	for i, u := range e.ups {
		if u == nil {
			continue
		}
		for _, h := range u.Take() {
			o.Hits = append(o.Hits, c17Hit{i, h})
		}
	}
	return o
}

// ---------------------------------------------------------------------------------------------
// the oracle

type c17Verdict struct {
	Key       string
	Msg       string
	Class     string
	Ambiguous bool
	Delivery  bool // expected (under every reading) to be served by some upstream
}

var c17HopByHop = map[string]bool{"Connection": true, "Keep-Alive": true, "Proxy-Authenticate": true, "Proxy-Authorization": true, "Proxy-Connection": true,
	"Te": true, "Trailer": true, "Transfer-Encoding": true, "Upgrade": true}

// headers the Go reverse proxy / transport may add or own (framing), per the design
var c17ReqAdditions = map[string]bool{"X-Forwarded-For": true, "Accept-Encoding": true, "User-Agent": true, "Content-Length": true, "Transfer-Encoding": true}
var c17RespAdditions = map[string]bool{"Gap-Auth": true, "Date": true, "Content-Length": true, "Content-Type": true}

// field values as a list, modulo the RFC 7230 section 3.2.2 combination of repeated fields
func c17Norm(vals []string) []string {
	var out []string
	for _, v := range vals {
		for _, p := range strings.Split(v, ",") {
			out = append(out, strings.Trim(p, " \t"))
		}
	}
	return out
}

func c17SameList(a, b []string) bool {
	if len(a) != len(b) {
		return false
	}
	for i := range a {
		if a[i] != b[i] {
			return false
		}
	}
	return true
}

// lenient query parser: ordered pairs; pieces that net/url or the WHATWG parser would treat
// differently (';' or a bad escape) are returned separately as malformed
func c17ParseQuery(q string) (pairs []string, malformed []string) {
	for _, piece := range strings.Split(q, "&") {
		if piece == "" {
			continue
		}
		k, v := piece, ""
		if i := strings.IndexByte(piece, '='); i >= 0 {
			k, v = piece[:i], piece[i+1:]
		}
		dk, e1 := url.QueryUnescape(k)
		dv, e2 := url.QueryUnescape(v)
		if e1 != nil || e2 != nil || strings.Contains(piece, ";") {
			malformed = append(malformed, piece)
			continue
		}
		pairs = append(pairs, dk+"\x00"+dv)
	}
	sort.Strings(pairs)
	return
}

func c17SplitTarget(t string) (p, q string, hasQ bool) {
	if i := strings.IndexByte(t, '?'); i >= 0 {
		return t[:i], t[i+1:], true
	}
	return t, "", false
}

func c17Short(s string) string {
	if len(s) > 160 {
		return s[:160] + fmt.Sprintf("...(%d bytes)", len(s))
	}
	return s
}

func (e *c17Env) upNames(routes map[int]bool) string {
	var n []string
	for i := range routes {
		if i < 0 {
			n = append(n, "<none>")
		} else {
			n = append(n, e.Set.Ups[i].ID)
		}
	}
	sort.Strings(n)
	return strings.Join(n, "|")
}

// fileExpect: what a file upstream must answer for the decoded relative path rel
func (e *c17Env) fileExpect(rel string) (kind string, content string) {
	if rel == "" || strings.HasSuffix(rel, "/") || path.Clean("/"+rel) != "/"+rel {
		return "unchecked", ""
	}
	full := filepath.Join(e.fileRoot, filepath.FromSlash(rel))
	st, err := os.Stat(full)
	if err != nil {
		return "none", ""
	}
	if st.IsDir() {
		return "unchecked", ""
	}
	b, _ := os.ReadFile(full)
	return "file", string(b)
}

func (e *c17Env) judge(rq *c17Req, o *c17Obs) (v c17Verdict) {
	resp := o.Resp
	if resp.ParseErr != nil {
		return c17Verdict{Key: "HARNESS", Msg: "request did not parse: " + resp.ParseErr.Error()}
	}
	if resp.Panic != nil {
		return c17Verdict{Key: "C17/panic@" + resp.PanicSite(), Msg: fmt.Sprintf("panic: %v", resp.Panic), Class: "panic"}
	}
	esc, rawQuery, _ := c17SplitTarget(rq.Target)
	dec, err := url.PathUnescape(esc)
	if err != nil {
		return c17Verdict{Key: "HARNESS", Msg: "bad path in alphabet: " + esc}
	}
	routes := e.Set.admissibleRoutes(esc, dec, e.Raw)
	v.Ambiguous = len(routes) > 1
	cleanRedirectOK := !e.Raw && c17Dirty(dec)
	v.Delivery = !routes[-1] && !cleanRedirectOK
	exp := e.upNames(routes)

	if len(o.Hits) > 1 {
		v.Key, v.Msg, v.Class = "C17/duplicate-delivery", fmt.Sprintf("%d upstream requests for one client request", len(o.Hits)), "duplicate"
		return
	}
	if len(o.Hits) == 0 {
		if cleanRedirectOK && resp.Status >= 300 && resp.Status < 400 {
			v.Class, v.Ambiguous = "clean_redirect", true
			return
		}
		var problems []string
		httpAdmissible := false
		order := make([]int, 0, len(routes))
		for i := range routes {
			order = append(order, i)
		}
		sort.Ints(order)
		for _, i := range order {
			switch {
			case i < 0:
				if resp.Status >= 200 && resp.Status < 300 {
					problems = append(problems, fmt.Sprintf("no configured path matches, yet status %d body %q", resp.Status, c17Short(resp.Body)))
					continue
				}
				switch resp.Status {
				case 301, 308:
					v.Class = "nomatch_redirect"
				case 404:
					v.Class = "nomatch_404"
				default:
					v.Class = "nomatch_other"
				}
				return
			case e.Set.Ups[i].Kind == "static":
				if resp.Status == e.Set.Ups[i].Code && resp.Body == "Authenticated" {
					v.Class = "static"
					return
				}
				problems = append(problems, fmt.Sprintf("static upstream %s must answer %d \"Authenticated\", got %d %q", e.Set.Ups[i].ID, e.Set.Ups[i].Code, resp.Status, c17Short(resp.Body)))
			case e.Set.Ups[i].Kind == "file":
				cls, prob, amb := e.judgeFile(i, rq, esc, dec, resp)
				if prob == "" {
					v.Class = cls
					v.Ambiguous = v.Ambiguous || amb
					return
				}
				problems = append(problems, prob)
			default:
				httpAdmissible = true
			}
		}
		v.Class = "misserved"
		switch {
		case httpAdmissible && len(problems) == 0:
			v.Key, v.Msg = "C17/not-delivered", fmt.Sprintf("expected delivery to %s, no upstream received the request (status %d)", exp, resp.Status)
			if len(routes) == 1 {
				for i := range routes {
					if e.Set.Ups[i].Rewrite != "" {
						if _, leading := e.rewriteWant(i, esc, dec); leading {
							v.Key = "C17/rewrite-leading-double-slash"
							v.Msg += "; the rule yields a target starting with \"//\""
						}
					}
				}
			}
		case httpAdmissible:
			v.Key, v.Msg = "C17/not-delivered", fmt.Sprintf("expected %s; no upstream received the request and: %s", exp, strings.Join(problems, "; "))
		default:
			kind := "served-without-match"
			for _, i := range order {
				if i >= 0 {
					kind = e.Set.Ups[i].Kind + "-response"
					break
				}
			}
			v.Key, v.Msg = "C17/"+kind, strings.Join(problems, "; ")
		}
		return
	}

	// exactly one upstream request
	hit := o.Hits[0]
	u := e.Set.Ups[hit.Idx]
	h := hit.R
	v.Class = "deliver_simple"
	if u.Rewrite != "" {
		v.Class = "deliver_rewrite"
	}
	if !routes[hit.Idx] {
		v.Key, v.Msg = "C17/wrong-upstream", fmt.Sprintf("delivered to %s (path %q), expected %s", u.ID, u.Path, exp)
		return
	}
	if h.Method != rq.Method {
		v.Key, v.Msg = "C17/method-changed", fmt.Sprintf("upstream %s saw method %s", u.ID, h.Method)
		return
	}
	if u.Rewrite == "" {
		if h.RequestURI != rq.Target {
			v.Key, v.Msg = "C17/simple-target-changed", fmt.Sprintf("upstream %s saw request-target %q", u.ID, h.RequestURI)
			return
		}
	} else {
		key, msg, amb := e.judgeRewrite(hit.Idx, esc, dec, rawQuery, h.RequestURI)
		v.Ambiguous = v.Ambiguous || amb
		if key != "" {
			v.Key, v.Msg = key, msg
			return
		}
	}
	payload := c17Payload(rq.Body)
	if h.BodyLen != len(payload) || h.BodySHA != c17Sha(payload) {
		v.Key, v.Msg = "C17/body-changed", fmt.Sprintf("upstream %s saw body len %d sha %s, sent len %d sha %s", u.ID, h.BodyLen, h.BodySHA, len(payload), c17Sha(payload))
		return
	}
	wantHost := c17Host
	if !e.passHost[hit.Idx] {
		wantHost = strings.TrimPrefix(e.ups[hit.Idx].URL(), "http://")
	}
	if u.Kind == "unix" && !e.passHost[hit.Idx] {
		// a unix socket has no host name to substitute: whatever the proxy sends instead of the
		// client's Host is admissible, as long as it is not the client's
		if h.Host == c17Host {
			v.Key, v.Msg = "C17/host-header", fmt.Sprintf("upstream %s (pass-host-header=false) saw the client's Host %q", u.ID, h.Host)
		}
	} else if h.Host != wantHost {
		v.Key, v.Msg = "C17/host-header", fmt.Sprintf("upstream %s (pass-host-header=%v) saw Host %q, expected %q", u.ID, e.passHost[hit.Idx], h.Host, wantHost)
		return
	}
	if key, msg, amb := e.judgeReqHeaders(o.Sent, h.Header); key != "" {
		v.Key, v.Msg = key, fmt.Sprintf("upstream %s: %s", u.ID, msg)
		return
	} else if amb {
		v.Ambiguous = true
	}
	if key, msg := e.judgeResponse(rq.Want, u.ID, resp); key != "" {
		v.Key, v.Msg = key, fmt.Sprintf("upstream %s answered %q: %s", u.ID, rq.Want, msg)
		return
	}
	return
}

func (e *c17Env) judgeFile(idx int, rq *c17Req, esc, dec string, resp *world.Resp) (class, problem string, ambiguous bool) {
	u := e.Set.Ups[idx]
	var rel string
	if u.Rewrite == "" {
		if !strings.HasPrefix(dec, u.Path) {
			return "file_unchecked", "", true // matched on the escaped reading only
		}
		rel = dec[len(u.Path):]
	} else {
		if !e.Set.re[idx].MatchString(dec) {
			return "file_unchecked", "", true
		}
		tp, _, _ := c17SplitTarget(u.Rewrite)
		rel = strings.TrimPrefix(e.Set.re[idx].ReplaceAllString(dec, tp), "/")
	}
	kind, content := e.fileExpect(rel)
	slashByDecoding := strings.Count(dec, "/") != strings.Count(esc, "/")
	switch kind {
	case "file":
		if resp.Status == 200 && (rq.Method != "GET" || resp.Body == content) {
			return "file_served", "", false
		}
		if slashByDecoding && resp.Status == 404 {
			return "file_unchecked", "", true
		}
		return "", fmt.Sprintf("file upstream %s must serve %q (%d bytes) with 200, got %d %q", u.ID, rel, len(content), resp.Status, c17Short(resp.Body)), false
	case "none":
		if resp.Status >= 200 && resp.Status < 300 {
			return "", fmt.Sprintf("file upstream %s has no file %q, yet status %d body %q", u.ID, rel, resp.Status, c17Short(resp.Body)), false
		}
		return "file_missing", "", false
	}
	return "file_unchecked", "", false
}

// rewriteWant: the admissible decoded paths a rewrite rule yields for this request (pattern applied
// to the decoded or to the encoded path); leading = every one of them starts with "//"
func (e *c17Env) rewriteWant(idx int, esc, dec string) (want map[string]bool, leading bool) {
	re := e.Set.re[idx]
	tPath, _, _ := c17SplitTarget(e.Set.Ups[idx].Rewrite)
	want = map[string]bool{}
	if re.MatchString(dec) {
		want[re.ReplaceAllString(dec, tPath)] = true
	}
	if re.MatchString(esc) {
		if d, err := url.PathUnescape(re.ReplaceAllString(esc, tPath)); err == nil {
			want[d] = true
		}
	}
	leading = len(want) > 0
	for w := range want {
		if !strings.HasPrefix(w, "//") {
			leading = false
		}
	}
	return
}

// judgeRewrite: the path must be the rule's replacement (compared percent-decoded), the query
// must carry every well-formed original parameter plus the parameters the rule adds.
func (e *c17Env) judgeRewrite(idx int, esc, dec, rawQuery, got string) (key, msg string, ambiguous bool) {
	u := e.Set.Ups[idx]
	_, tQuery, _ := c17SplitTarget(u.Rewrite)
	want, leading := e.rewriteWant(idx, esc, dec)
	ambiguous = len(want) > 1
	gp, gq, _ := c17SplitTarget(got)
	gdec, err := url.PathUnescape(gp)
	if err != nil || !want[gdec] {
		var w []string
		for k := range want {
			w = append(w, k)
		}
		sort.Strings(w)
		key = "C17/rewrite-path"
		if leading {
			// own root cause: a rewritten target that starts with "//" leaves the proxy in absolute-form
			key = "C17/rewrite-leading-double-slash"
		}
		return key, fmt.Sprintf("rule %q -> %q: upstream saw %q (decoded path %q), expected decoded path %q", u.Path, u.Rewrite, got, gdec, strings.Join(w, "\" or \"")), ambiguous
	}
	orig, malformed := c17ParseQuery(rawQuery)
	added, _ := c17ParseQuery(tQuery)
	expect := append(append([]string{}, orig...), added...)
	sort.Strings(expect)
	seen, _ := c17ParseQuery(gq)
	if len(malformed) > 0 {
		ambiguous = true
	}
	// expect must be a sub-multiset of seen
	rest := append([]string{}, seen...)
	for _, p := range expect {
		found := false
		for i, s := range rest {
			if s == p {
				rest = append(rest[:i], rest[i+1:]...)
				found = true
				break
			}
		}
		if !found {
			return "C17/rewrite-query-lost", fmt.Sprintf("rule %q -> %q: parameter %q missing from upstream target %q", u.Path, u.Rewrite, strings.Replace(p, "\x00", "=", 1), got), ambiguous
		}
	}
	if len(rest) > 0 && len(malformed) == 0 {
		return "C17/rewrite-query-added", fmt.Sprintf("rule %q -> %q: upstream target %q carries parameters %q the client did not send", u.Path, u.Rewrite, got, strings.Replace(strings.Join(rest, "&"), "\x00", "=", -1)), ambiguous
	}
	return "", "", ambiguous
}

func (e *c17Env) judgeReqHeaders(sent [][2]string, got http.Header) (key, msg string, ambiguous bool) {
	byName := map[string][]string{}
	var order []string
	listed := map[string]bool{} // names listed in Connection
	for _, h := range sent {
		n := textproto.CanonicalMIMEHeaderKey(h[0])
		if _, ok := byName[n]; !ok {
			order = append(order, n)
		}
		byName[n] = append(byName[n], strings.Trim(h[1], " \t"))
		if n == "Connection" {
			for _, t := range strings.Split(h[1], ",") {
				listed[textproto.CanonicalMIMEHeaderKey(strings.TrimSpace(t))] = true
			}
		}
	}
	for _, n := range order {
		if c17HopByHop[n] || listed[n] || e.injReq[n] {
			continue
		}
		vals := byName[n]
		g := got[n]
		switch {
		case n == "Cookie" && len(vals) > 1:
			ambiguous = true // combining repeated Cookie fields is not equivalence-preserving; not judged
			continue
		case n == "X-Forwarded-For":
			if len(g) == 0 || !strings.HasPrefix(strings.Join(c17Norm(g), ","), strings.Join(c17Norm(vals), ",")) {
				return "C17/request-header-changed", fmt.Sprintf("X-Forwarded-For sent %q arrived %q", vals, g), ambiguous
			}
			continue
		}
		if !c17SameList(c17Norm(vals), c17Norm(g)) {
			return "C17/request-header-changed", fmt.Sprintf("end-to-end header %s sent %s arrived %s", n, c17Short(fmt.Sprintf("%q", vals)), c17Short(fmt.Sprintf("%q", g))), ambiguous
		}
	}
	for n, g := range got {
		if _, ok := byName[n]; ok || e.injReq[n] || c17ReqAdditions[n] {
			continue
		}
		return "C17/request-header-added", fmt.Sprintf("header %s: %q reached the upstream; the client did not send it and it is not a configured injected header", n, g), ambiguous
	}
	return "", "", ambiguous
}

// c17Interim counts responses preceded by an interim (1xx) response, and those whose interim
// response reached the client (relaying it is optional; the final status is what the statement is about).
var c17Interim [2]int64

// c17Aborts counts upstream answers broken off mid-body, and those the proxy aborted towards the client.
var c17Aborts [2]int64

const c17AbortPrefix = "twenty-bytes-of-body."

func (e *c17Env) judgeResponse(want, upName string, resp *world.Resp) (key, msg string) {
	if want == "abort-mid-body" {
		// the upstream's answer cannot be relayed completely; whatever the client is given must not contain
		// bytes the upstream never sent, and must not be presented as a complete answer with other content
		c17Aborts[0]++
		switch {
		case resp.Aborted:
			c17Aborts[1]++
			if !strings.HasPrefix(c17AbortPrefix, resp.Body) {
				return "C17/response-body", fmt.Sprintf("upstream broke off after %q; the client had received %q when the proxy aborted", c17AbortPrefix, c17Short(resp.Body))
			}
		case resp.Status >= 500:
			// an error answer of the proxy's own (it had not started relaying): admissible
		case !strings.HasPrefix(c17AbortPrefix, resp.Body):
			return "C17/response-body", fmt.Sprintf("upstream sent %q of an announced 64 bytes and dropped the connection; the client received a completed response, status %d, body %q — bytes the upstream never sent", c17AbortPrefix, resp.Status, c17Short(resp.Body))
		}
		return "", ""
	}
	st, hdr, body := c17RespSpec(want, upName)
	if strings.HasPrefix(want, "hints+") {
		c17Interim[0]++
		if len(resp.Info) > 0 {
			c17Interim[1]++
		}
	}
	if resp.Status != st {
		return "C17/response-status", fmt.Sprintf("client saw status %d, upstream sent %d", resp.Status, st)
	}
	if st == 204 {
		body = ""
	}
	if resp.Body != body {
		return "C17/response-body", fmt.Sprintf("client saw body len %d sha %s, upstream sent len %d sha %s", len(resp.Body), c17Sha(resp.Body), len(body), c17Sha(body))
	}
	byName := map[string][]string{}
	for _, h := range hdr {
		n := textproto.CanonicalMIMEHeaderKey(h[0])
		byName[n] = append(byName[n], h[1])
	}
	for n, vals := range byName {
		g := resp.Header[n]
		if e.injResp[n] {
			continue
		}
		if n == "Set-Cookie" {
			if !c17SameList(vals, g) {
				return "C17/response-header-changed", fmt.Sprintf("Set-Cookie upstream %q client %q", vals, g)
			}
			continue
		}
		if !c17SameList(c17Norm(vals), c17Norm(g)) {
			return "C17/response-header-changed", fmt.Sprintf("%s upstream %q client %q", n, vals, g)
		}
	}
	for n, g := range resp.Header {
		if _, ok := byName[n]; ok || e.injResp[n] || c17RespAdditions[n] {
			continue
		}
		return "C17/response-header-added", fmt.Sprintf("client saw %s: %q which the upstream did not send and which is not a documented addition", n, g)
	}
	return "", ""
}

// ---------------------------------------------------------------------------------------------
// enumeration

type c17Runner struct {
	c      *Ctx
	caseNo int
}

func (r *c17Runner) run(e *c17Env, rq *c17Req, product string) {
	c := r.c
	c.Inc("product_" + product)
	o := e.do(rq)
	v := e.judge(rq, o)
	c.Inc("evaluations")
	if v.Key == "HARNESS" {
		c.Error("%s %s %s: %s", e.name(), rq.Method, rq.Target, v.Msg)
		return
	}
	c.Inc("class_" + v.Class)
	if v.Ambiguous {
		c.Inc("ambiguous")
	}
	rq.Class = v.Class
	if v.Delivery {
		c.Distinct("distinct_nontrivial", fmt.Sprintf("%s|%s|%s|%s|%s|%s", e.name(), rq.Method, rq.Target, rq.HSet, rq.Body, rq.Want))
	}
	if v.Key == "" {
		if v.Class == "deliver_rewrite" || v.Class == "file_served" || c.Counters["evaluations"]%997 == 1 {
			cp := *rq
			if len(o.Hits) == 1 {
				cp.Note = fmt.Sprintf("upstream %s saw %s %s; client status %d", e.Set.Ups[o.Hits[0].Idx].ID, o.Hits[0].R.Method, c17Short(o.Hits[0].R.RequestURI), o.Resp.Status)
			} else {
				cp.Note = fmt.Sprintf("client status %d", o.Resp.Status)
			}
			c.Sample(6, cp)
		}
		return
	}
	cp := *rq
	cp.Note = v.Msg
	msg := fmt.Sprintf("[%s] %s %s headers=%s body=%s: %s", e.name(), rq.Method, rq.Target, rq.HSet, rq.Body, v.Msg)
	size := len(rq.Target) + 10*len(e.Set.Ups)
	if rq.HSet != "none" {
		size += 50
	}
	if rq.Body != "0" {
		size += 50
	}
	if rq.Want != "plain" {
		size += 50
	}
	if rq.Method != "GET" {
		size += 5
	}
	c.confirm(v.Key, msg, size, cp, func() (string, bool) {
		v2 := e.judge(rq, e.do(rq))
		return v2.Key, v2.Key != ""
	})
}

func (e *c17Env) req(method, target, hset, body, want string) *c17Req {
	return &c17Req{Set: e.Set.Name, Raw: e.Raw, PHV: e.PHV, Method: method, Target: target, HSet: hset, Body: body, Want: want}
}

// subset: paths (without query) that the model routes to each http upstream, k per upstream,
// spread evenly over the enumeration order
func (e *c17Env) subset(paths []string, k int) []string {
	per := map[int][]string{}
	for _, p := range paths {
		dec, _ := url.PathUnescape(p)
		routes := e.Set.admissibleRoutes(p, dec, e.Raw)
		if len(routes) != 1 || (!e.Raw && c17Dirty(dec)) {
			continue
		}
		for i := range routes {
			if i >= 0 && (e.Set.Ups[i].Kind == "http" || e.Set.Ups[i].Kind == "unix") {
				per[i] = append(per[i], p)
			}
		}
	}
	var out []string
	for i := range e.Set.Ups {
		l := per[i]
		if len(l) <= k {
			out = append(out, l...)
			continue
		}
		for j := 0; j < k; j++ {
			out = append(out, l[j*len(l)/k])
		}
	}
	return out
}

func c17Run(c *Ctx) {
	idp := world.NewIdP()
	defer c17ClosePool()
	c17SlowBody(c, idp)
	defer func() {
		c.Add("responses_preceded_by_interim_response", c17Interim[0])
		c.Add("interim_responses_relayed_to_client", c17Interim[1])
		c.Add("upstream_answers_broken_off_mid_body", c17Aborts[0])
		c.Add("broken_off_answers_aborted_towards_the_client", c17Aborts[1])
	}()
	sets := c17Sets()
	depthAll, depthMethods, perUp := 2, 1, 1
	bodies := c17Bodies
	if !c.Quick() {
		depthAll, depthMethods, perUp = 3, 3, 8
	}
	paths := c17Paths(depthAll)
	nMethodPaths := len(c17Paths(depthMethods))
	c.Info["bounds"] = map[string]int{"max_segments_all_queries": depthAll, "max_segments_all_methods": depthMethods, "paths_per_http_upstream_in_B": perUp}
	c.Info["alphabet"] = map[string]int{"upstream_sets": len(sets), "configurations": len(sets) * 4, "segments": len(c17Segments), "paths": len(paths), "paths_all_methods": nMethodPaths,
		"queries": len(c17Queries), "methods": len(c17Methods), "bodies": len(bodies), "header_sets": len(c17HeaderSets), "upstream_responses": len(c17Wants)}

	// model-only census of the whole product A (every shard computes the same numbers): how many
	// (configuration, path) pairs the reference model puts in each class
	census := map[string]int{}
	mine := map[string]int{} // the same census restricted to this shard's cases
	r := &c17Runner{c: c}
	for _, set := range sets {
		for _, raw := range []bool{false, true} {
			for phv := 0; phv < 2; phv++ {
				if c.Expired() {
					return
				}
				var e *c17Env
				env := func() *c17Env {
					if e == nil {
						var err error
						e, err = c17Build(idp, set, raw, phv)
						if err != nil {
							c.Error("fixture %s raw=%v phv=%d: %v", set.Name, raw, phv, err)
						}
					}
					return e
				}
				// product A: paths x queries x methods
				for pi, p := range paths {
					dec, _ := url.PathUnescape(p)
					routes := set.admissibleRoutes(p, dec, raw)
					var cls string
					switch {
					case len(routes) > 1:
						cls = "model_ambiguous_route"
					case !raw && c17Dirty(dec):
						cls = "model_dirty_decoded_path"
					case routes[-1]:
						cls = "model_no_match"
					default:
						for i := range routes {
							cls = "model_" + set.Ups[i].Kind
							if set.Ups[i].Rewrite != "" {
								cls += "_rewrite"
							}
						}
					}
					census[cls]++
					r.caseNo++
					if !c.Mine(r.caseNo) {
						continue
					}
					mine[cls]++
					if env() == nil {
						break
					}
					methods := c17Methods
					if pi >= nMethodPaths {
						methods = c17Methods[:2]
					}
					for _, q := range c17Queries {
						for _, m := range methods {
							r.run(e, e.req(m, p+q, "none", "0", "plain"), "A_paths_queries_methods")
						}
					}
					if c.Expired() {
						return
					}
				}
				// products B1..B3 on the paths the model routes to each http upstream
				var sub []string
				{
					tmp := &c17Env{Set: set, Raw: raw, PHV: phv}
					sub = tmp.subset(paths, perUp)
				}
				for _, p := range sub {
					r.caseNo++
					if !c.Mine(r.caseNo) {
						continue
					}
					if env() == nil {
						break
					}
					for _, m := range c17Methods { // B1 bodies
						for _, b := range bodies {
							r.run(e, e.req(m, p+"?a=1&b=2", "none", b, "plain"), "B1_bodies")
						}
					}
					for _, hs := range c17HeaderSets { // B2 headers
						r.run(e, e.req("GET", p, hs.Name, "0", "plain"), "B2_headers")
						r.run(e, e.req("POST", p+"?a=%20+", hs.Name, "1", "plain"), "B2_headers")
					}
					for _, w := range c17Wants { // B3 upstream responses
						r.run(e, e.req("GET", p, "none", "0", w), "B3_responses")
						r.run(e, e.req("PUT", p, "repeated", "4k", w), "B3_responses")
					}
					if c.Expired() {
						return
					}
				}
			}
		}
	}
	c.Info["model_census"] = census

	// non-vacuity: the model must populate every class over the whole space, and whatever part of
	// a class fell to this shard must have been observed in the matching outcome class
	for _, k := range []string{"model_http", "model_http_rewrite", "model_static", "model_file", "model_file_rewrite", "model_no_match", "model_ambiguous_route", "model_dirty_decoded_path"} {
		if census[k] == 0 {
			c.Error("vacuous: the reference model puts no (configuration, path) pair in class %s", k)
		}
	}
	if c.Exhaustive {
		seen := func(ks ...string) (n int64) {
			for _, k := range ks {
				n += c.Counters[k]
			}
			return
		}
		for _, m := range []struct {
			model string
			obs   []string
		}{
			{"model_http", []string{"class_deliver_simple"}},
			{"model_http_rewrite", []string{"class_deliver_rewrite"}},
			{"model_static", []string{"class_static"}},
			{"model_file", []string{"class_file_served", "class_file_missing", "class_file_unchecked"}},
			{"model_file_rewrite", []string{"class_file_served", "class_file_missing", "class_file_unchecked"}},
			{"model_no_match", []string{"class_nomatch_404", "class_nomatch_redirect", "class_nomatch_other"}},
			{"model_dirty_decoded_path", []string{"class_clean_redirect", "class_deliver_simple", "class_deliver_rewrite"}},
			{"model_ambiguous_route", []string{"ambiguous"}},
		} {
			if mine[m.model] > 0 && seen(m.obs...) == 0 && len(c.Violations) == 0 {
				c.Error("vacuous: shard %d/%d ran %d cases of %s but observed none of %v", c.Shard, c.Shards, mine[m.model], m.model, m.obs)
			}
		}
	}
}

func init() {
	register(&checkDef{
		id:    "C17",
		level: "exploration",
		rule: "authenticated requests (real session cookie) through ServeHTTP: full product upstream-sets x raw-path on/off x pass-host-header variants x all paths of <= N segments over the segment alphabet (with/without trailing slash) x queries x methods (A), " +
			"plus methods x bodies (0..1 MiB, chunked), header sets x {GET,POST}, upstream response variants x {GET,PUT} on paths routed to every http upstream (B); oracle: reference longest-match router + byte-exact target (simple) / regexp replacement compared decoded + query multimap (rewrite) + body hash + end-to-end headers + Host + relayed response; " +
			"non-trivial = case that every admissible reading requires to be served by an upstream",
		assumptions: []string{
			"prefix/exact matching may read the percent-encoded or the decoded path unless raw-path proxying is on (then the encoded path); rewrite patterns may read either; cases where readings name different upstreams are counted ambiguous and accept any of them",
			"with raw-path proxying off, a path whose decoded form has an empty or dot segment may be answered with a redirect instead of a delivery (documented)",
			"rewrite upstreams: path compared percent-decoded, query as decoded multiset plus the rule's parameters; parameters containing ';' or a bad escape may be dropped (ambiguous)",
			"a rewrite rule wins over a simple path (Appendix B); in the enumerated sets every overlapping rewrite pattern is also the longer string, so both readings agree",
			"repeated header fields compared modulo RFC 7230 3.2.2 comma combination; a repeated Cookie field is not judged",
			"allowed additions upstream: configured injected names, X-Forwarded-For (client value kept as prefix), User-Agent, Accept-Encoding, framing headers; towards the client: GAP-Auth, configured response headers, Date/Content-Length/Content-Type",
			"no match: only 'no upstream receives it and nothing is served with 2xx' is demanded (301 to the slash form and 404 are both counted)",
		},
		shards: func(tier string) int { return 16 },
		run:    c17Run,
		replay: func(c *Ctx, raw json.RawMessage) string {
			var rq c17Req
			if err := json.Unmarshal(raw, &rq); err != nil || rq.Set == "" {
				return "not a C17 case"
			}
			idp := world.NewIdP()
			defer c17ClosePool()
			for _, s := range c17Sets() {
				if s.Name != rq.Set {
					continue
				}
				e, err := c17Build(idp, s, rq.Raw, rq.PHV)
				if err != nil {
					return "fixture: " + err.Error()
				}
				o := e.do(&rq)
				v := e.judge(&rq, o)
				obs := fmt.Sprintf("client status %d, %d upstream request(s)", o.Resp.Status, len(o.Hits))
				for _, h := range o.Hits {
					obs += fmt.Sprintf("; %s saw %s %s Host=%s", e.Set.Ups[h.Idx].ID, h.R.Method, c17Short(h.R.RequestURI), h.R.Host)
				}
				if v.Key != "" {
					c.Violate(v.Key, v.Msg, 1, rq)
					obs += "; " + v.Msg
				}
				return obs
			}
			return "unknown upstream set " + rq.Set
		},
	})
}

// c17SlowBody (thorough tier, one process): "the upstream's ... body [is] relayed to the client
// unchanged" also for a body that takes longer than the upstream's configured timeout, which by
// its documentation bounds the wait FOR a response, not the transfer. The upstream sends its
// headers at once and three body parts 1.3 s apart (2.6 s in all) behind an upstream entry with
// timeout 2 s. Real time is involved only to set the scene; the judgement is on bytes: a 200 whose
// body is not the three parts is a violation, an answer without the upstream's headers (they did
// not arrive within 2 s: a starved machine) is inconclusive and only counted.
func c17SlowBody(c *Ctx, idp *world.IdP) {
	if c.Quick() || c.Shard != 0 {
		return
	}
	up := world.NewUpstream("slow")
	defer up.Close()
	parts := []string{"part-1\n", "part-2\n", "part-3\n"}
	up.Respond = func(w http.ResponseWriter, r *http.Request) {
		w.Header().Set("X-Upstream", "slow")
		w.Header().Set("Content-Type", "text/plain")
		w.WriteHeader(200)
		for i, p := range parts {
			io.WriteString(w, p)
			if f, ok := w.(http.Flusher); ok {
				f.Flush()
			}
			if i < len(parts)-1 {
				time.Sleep(1300 * time.Millisecond)
			}
		}
	}
	d := options.Duration(2 * time.Second)
	idp.Install()
	px, err := buildProxy(&ProxyCfg{Flags: append(baseFlags("http://127.0.0.1:1/"), "--email-domain=*", "--cookie-secure=false"), Mutate: func(o *options.Options) {
		o.UpstreamServers.Upstreams = []options.Upstream{{ID: "slow", Path: "/", URI: up.URL(), Timeout: &d}}
	}})
	if err != nil {
		c.Error("C17 slow body: %v", err)
		return
	}
	b := newBrowser(px, "http", c17Host)
	if resp, _, lerr := b.Login(idp, "alice", "/"); lerr != nil || resp.Status != 302 {
		c.Error("C17 slow body: login failed: %v status %d", lerr, resp.Status)
		return
	}
	for _, method := range []string{"GET", "POST"} {
		resp := b.Do(b.Req(method, "/stream"))
		c.Inc("evaluations")
		c.Inc("slow_body_exchanges")
		want := strings.Join(parts, "")
		cs := map[string]any{"kind": "slow-body", "method": method, "upstream_timeout": "2s", "body_duration": "2.6s", "status": resp.Status, "body": resp.Body}
		switch {
		case resp.Panic != nil:
			c.Violate("C17/panic", fmt.Sprintf("slow upstream body: %v", resp.Panic), 10, cs)
		case resp.Status == 200 && resp.Body == want:
			c.Inc("slow_body_relayed_completely")
		case resp.Header.Get("X-Upstream") != "slow":
			c.Inc("slow_body_inconclusive_headers_did_not_arrive_in_time")
			c.Note("slow body (%s): status %d without the upstream's headers — inconclusive (machine under load?)", method, resp.Status)
		default:
			c.Violate("C17/response-body", fmt.Sprintf("%s /stream: the upstream (timeout 2s) sent its headers at once and %q over 2.6 s; the client received status %d and body %q", method, want, resp.Status, resp.Body), 10, cs)
		}
	}
}
