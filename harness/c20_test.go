//go:build verif

package main

import (
	"encoding/json"
	"fmt"
	"os"
	"path/filepath"
	"sort"
	"strings"
	"time"

	"github.com/oauth2-proxy/oauth2-proxy/v7/pkg/authentication/basic"
	"github.com/oauth2-proxy/oauth2-proxy/v7/verifx/explore"
	"github.com/oauth2-proxy/oauth2-proxy/v7/verifx/sched"
	"github.com/oauth2-proxy/oauth2-proxy/v7/verifx/vrt"
	"golang.org/x/crypto/bcrypt"
)

// C20 — credential and allow-list files reload atomically and race-free (SCHED).
//
// Subjects: the htpasswd validator and the authenticated-e-mails map, each built by its real
// constructor. Threads: reloaders (publish a file version atomically, then call the reload the
// file watcher would call) and validators. All interleavings at lock / atomic / plain-access
// granularity are explored with state-key pruning. Oracles: no two enabled threads ever have
// conflicting plain accesses pending (data race); every validation answers like some file
// version that was live between its call and its return; failed reloads change nothing.

type c20Version struct {
	Name    string
	Content string
	OK      bool            // parses
	Table   map[string]bool // query -> expected answer
}

type c20Inst interface {
	reset(v0 *c20Version)
	publishAndReload(v *c20Version) (reportedOK bool, known bool)
	validate(q string) bool
	snapshot() string
}

// ---- htpasswd subject

type c20Htpasswd struct {
	dir   string
	path  string
	path0 string
	v     basic.Validator
	files map[string]string
}

func c20HtVersions(bcryptAlice ...bool) (versions []*c20Version, queries []string) {
	useBcrypt := len(bcryptAlice) == 0 || bcryptAlice[0]
	queries = []string{"alice:pw1", "alice:pwX", "bob:pw2", "carol:pw3"}
	mk := func(name string, users map[string]string, extra string, ok bool) *c20Version {
		var names []string
		for u := range users {
			names = append(names, u)
		}
		sort.Strings(names)
		var b strings.Builder
		for _, u := range names {
			if u == "alice" && useBcrypt {
				// one user has bcrypt entries (minimum cost): the comparison happens outside the
				// lock and takes the slow path of Validate
				fmt.Fprintf(&b, "%s:%s\n", u, c20Bcrypt(users[u]))
			} else {
				fmt.Fprintf(&b, "%s:%s\n", u, shaEntry(users[u]))
			}
		}
		b.WriteString(extra)
		t := map[string]bool{}
		for _, q := range queries {
			up := strings.SplitN(q, ":", 2)
			t[q] = users[up[0]] == up[1] && users[up[0]] != ""
		}
		return &c20Version{Name: name, Content: b.String(), OK: ok, Table: t}
	}
	versions = []*c20Version{
		mk("v0", map[string]string{"alice": "pw1", "bob": "pw2"}, "", true),
		mk("added", map[string]string{"alice": "pw1", "bob": "pw2", "carol": "pw3"}, "", true),
		mk("removed", map[string]string{"alice": "pw1"}, "", true),
		mk("changed", map[string]string{"alice": "pwX", "bob": "pw2"}, "", true),
		mk("malformed", map[string]string{"alice": "pwX", "carol": "pw3"}, "bob\n", false),
		// parses as CSV but the last entry is neither SHA nor bcrypt: rejected after the new
		// table has been partly built
		mk("bad-entry", map[string]string{"alice": "pwX", "carol": "pw3"}, "zed:plaintext\n", false),
		// a file without a single entry is refused by the htpasswd loader (previous contents stay)
		mk("emptied", map[string]string{}, "# nobody\n", false),
	}
	// same passwords as v0, but alice's entry migrated from bcrypt to {SHA}: every query answers
	// as under v0, so an answer that differs is a torn read of (scheme, hash)
	useBcrypt = false
	mig := mk("migrated", map[string]string{"alice": "pw1", "bob": "pw2"}, "", true)
	versions = append(versions, mig)
	return
}

var c20BcryptCache = map[string]string{}

func c20Bcrypt(pw string) string {
	if h, ok := c20BcryptCache[pw]; ok {
		return h
	}
	b, err := bcrypt.GenerateFromPassword([]byte(pw), bcrypt.MinCost)
	if err != nil {
		panic(err)
	}
	c20BcryptCache[pw] = string(b)
	return string(b)
}

func (h *c20Htpasswd) write(v *c20Version) {
	h.path0 = c20Publish(h.dir, h.path, v, h.files)
}

// c20Publish makes version v the contents of path by an atomic symlink swap; the version
// files themselves are written once.
func c20Publish(dir, path string, v *c20Version, files map[string]string) string {
	f, ok := files[v.Name]
	if !ok {
		f = filepath.Join(dir, "version-"+v.Name)
		if err := os.WriteFile(f, []byte(v.Content), 0o600); err != nil {
			panic(err)
		}
		files[v.Name] = f
	}
	tmp := path + ".tmp"
	os.Remove(tmp)
	if err := os.Symlink(f, tmp); err != nil {
		panic(err)
	}
	if err := os.Rename(tmp, path); err != nil {
		panic(err)
	}
	return f
}

func newC20Htpasswd(v0 *c20Version) *c20Htpasswd {
	dir, err := os.MkdirTemp(scratch(), "c20ht-")
	if err != nil {
		panic(err)
	}
	h := &c20Htpasswd{dir: dir, path: filepath.Join(dir, "htpasswd"), files: map[string]string{}}
	h.write(v0)
	v, err := basic.NewHTPasswdValidator(h.path)
	if err != nil {
		panic(err)
	}
	h.v = v
	return h
}

func (h *c20Htpasswd) reset(v0 *c20Version) {
	basic.VerifResetLocks(h.v)
	h.write(v0)
	if err := basic.VerifReload(h.v, h.path); err != nil {
		panic(err)
	}
}

func (h *c20Htpasswd) publishAndReload(v *c20Version) (bool, bool) {
	h.write(v)
	return basic.VerifReload(h.v, h.path) == nil, true
}

func (h *c20Htpasswd) validate(q string) bool {
	up := strings.SplitN(q, ":", 2)
	return h.v.Validate(up[0], up[1])
}

func (h *c20Htpasswd) snapshot() string { return basic.VerifSnapshot(h.v) }

// ---- authenticated e-mails subject

type c20Emails struct {
	dir   string
	path  string
	um    *UserMap
	files map[string]string
}

func c20EmVersions() (versions []*c20Version, queries []string) {
	queries = []string{"a@x.org", "b@x.org", "c@x.org", "a2@x.org"}
	mk := func(name string, emails []string, extra string, ok bool) *c20Version {
		t := map[string]bool{}
		for _, q := range queries {
			for _, e := range emails {
				if strings.ToLower(e) == q {
					t[q] = true
				}
			}
		}
		return &c20Version{Name: name, Content: strings.Join(emails, "\n") + "\n" + extra, OK: ok, Table: t}
	}
	versions = []*c20Version{
		mk("v0", []string{"a@x.org", "b@x.org"}, "", true),
		mk("added", []string{"a@x.org", "b@x.org", "C@x.org"}, "", true),
		mk("removed", []string{"a@x.org"}, "", true),
		mk("changed", []string{"a2@x.org", "b@x.org"}, "", true),
		mk("malformed", []string{"c@x.org", "a2@x.org"}, "x\"y@x.org\n", false),
		mk("bad-entry", []string{"a2@x.org"}, "\"unterminated\n", false),
		// an emptied allow-list is a valid version: nobody is allowed any more
		{Name: "emptied", Content: "# nobody\n", OK: true, Table: map[string]bool{}},
	}
	return
}

func (e *c20Emails) write(v *c20Version) {
	c20Publish(e.dir, e.path, v, e.files)
}

func newC20Emails(v0 *c20Version) *c20Emails {
	dir, err := os.MkdirTemp(scratch(), "c20em-")
	if err != nil {
		panic(err)
	}
	e := &c20Emails{dir: dir, path: filepath.Join(dir, "emails"), files: map[string]string{}}
	e.write(v0)
	e.um = NewUserMap(e.path, make(chan bool), func() {})
	return e
}

func (e *c20Emails) reset(v0 *c20Version) {
	e.write(v0)
	e.um.LoadAuthenticatedEmailsFile()
}

func (e *c20Emails) publishAndReload(v *c20Version) (bool, bool) {
	e.write(v)
	e.um.LoadAuthenticatedEmailsFile()
	return false, false // the reload reports nothing
}

func (e *c20Emails) validate(q string) bool { return e.um.IsValid(q) }

func (e *c20Emails) snapshot() string {
	var ks []string
	for _, q := range []string{"a@x.org", "b@x.org", "c@x.org", "a2@x.org"} {
		// uncontrolled read (scheduler context): plain snapshot of what IsValid would say
		ks = append(ks, fmt.Sprintf("%s=%v", q, e.um.IsValid(q)))
	}
	return strings.Join(ks, ",")
}

// ---- the live-version model (reference)
//
// A reload publishes its version (atomic symlink swap) and then reads the file at a moment the
// harness cannot observe, so with two reloaders it may read a version the other one published
// in between: a reload instance therefore carries the SET of versions it may have read (the
// current one at its start plus everything published while it was in progress). An instance
// supersedes the instances that had ended before it started only if it definitely succeeded.
// With one reloader the sets are singletons and the model is exact.

type c20Reload struct {
	possible    map[int]bool
	ended       bool
	failed      bool // reported failure (htpasswd only)
	endedBefore []int
}

type c20Val struct {
	q    string
	live map[int]bool
}

type c20Model struct {
	versions []*c20Version
	reloads  []*c20Reload
	cands    map[int]bool // reload instance ids whose version(s) may be in force
	inflight map[int]*c20Val
}

func newC20Model(versions []*c20Version) *c20Model {
	m := &c20Model{versions: versions, cands: map[int]bool{0: true}, inflight: map[int]*c20Val{}}
	m.reloads = []*c20Reload{{possible: map[int]bool{0: true}, ended: true}}
	return m
}

// okVersions are the well-formed versions instance r may have put in force.
func (m *c20Model) okVersions(r *c20Reload) []int {
	var out []int
	if r.failed {
		return nil
	}
	for v := range r.possible {
		if m.versions[v].OK {
			out = append(out, v)
		}
	}
	sort.Ints(out)
	return out
}

func (m *c20Model) mayFail(r *c20Reload) bool {
	for v := range r.possible {
		if !m.versions[v].OK {
			return true
		}
	}
	return false
}

func (m *c20Model) startReload(ver int) int {
	// publication: every reload in progress may read this version too
	for _, o := range m.reloads {
		if !o.ended {
			o.possible[ver] = true
		}
	}
	r := &c20Reload{possible: map[int]bool{ver: true}}
	for i, o := range m.reloads {
		if o.ended {
			r.endedBefore = append(r.endedBefore, i)
		}
	}
	m.reloads = append(m.reloads, r)
	id := len(m.reloads) - 1
	m.cands[id] = true
	if m.versions[ver].OK {
		for _, v := range m.inflight {
			v.live[ver] = true
		}
	}
	return id
}

func (m *c20Model) endReload(id int, reportedOK, known bool) {
	r := m.reloads[id]
	r.ended = true
	definitelyOK := !m.mayFail(r)
	if known {
		if reportedOK {
			definitelyOK = true
			for v := range r.possible {
				if !m.versions[v].OK {
					delete(r.possible, v)
				}
			}
		} else {
			r.failed = true
		}
	}
	if definitelyOK && len(m.okVersions(r)) > 0 {
		for _, k := range r.endedBefore {
			delete(m.cands, k)
		}
	}
	if len(m.okVersions(r)) == 0 {
		delete(m.cands, id)
	}
}

func (m *c20Model) startVal(tid int, q string) {
	v := &c20Val{q: q, live: map[int]bool{}}
	for id := range m.cands {
		for _, ver := range m.okVersions(m.reloads[id]) {
			v.live[ver] = true
		}
	}
	m.inflight[tid] = v
}

// endVal returns "" if the answer matches some live version.
func (m *c20Model) endVal(tid int, ans bool) string {
	v := m.inflight[tid]
	delete(m.inflight, tid)
	var names []string
	for ver := range v.live {
		if m.versions[ver].Table[v.q] == ans {
			return ""
		}
		names = append(names, m.versions[ver].Name)
	}
	sort.Strings(names)
	return fmt.Sprintf("validate(%s)=%v but every live version %v answers %v", v.q, ans, names, !ans)
}

func (m *c20Model) key() string {
	var b strings.Builder
	var ids []int
	for id := range m.cands {
		ids = append(ids, id)
	}
	sort.Ints(ids)
	var cs []string
	for _, id := range ids {
		r := m.reloads[id]
		var eb []string
		if !r.ended {
			for _, k := range r.endedBefore {
				if m.cands[k] {
					eb = append(eb, fmt.Sprint(m.okVersions(m.reloads[k])))
				}
			}
			sort.Strings(eb)
		}
		var ps []int
		for v := range r.possible {
			ps = append(ps, v)
		}
		sort.Ints(ps)
		cs = append(cs, fmt.Sprintf("%v/%v/%v/%v", ps, r.ended, r.failed, eb))
	}
	sort.Strings(cs)
	fmt.Fprintf(&b, "c%v", cs)
	var tids []int
	for t := range m.inflight {
		tids = append(tids, t)
	}
	sort.Ints(tids)
	for _, t := range tids {
		var l []int
		for v := range m.inflight[t].live {
			l = append(l, v)
		}
		sort.Ints(l)
		fmt.Fprintf(&b, "|v%d:%s:%v", t, m.inflight[t].q, l)
	}
	return b.String()
}

// ---- scenarios

type c20Scenario struct {
	Subject    string     `json:"subject"`
	Reloaders  [][]int    `json:"reloaders"`  // per reloader thread: version indices
	Validators [][]string `json:"validators"` // per validator thread: queries
}

type c20Replay struct {
	Scenario c20Scenario `json:"scenario"`
	Choices  []int       `json:"choices"`
	Order    string      `json:"thread_order"`
	What     string      `json:"what"`
}

func c20Scenarios(quick bool, queries map[string][]string) []c20Scenario {
	var out []c20Scenario
	for _, subj := range []string{"htpasswd", "emails"} {
		nq := queries[subj]
		// version sequences of length <= L over {added, removed, changed, malformed}
		var seqs [][]int
		L := 2
		if !quick {
			L = 3
		}
		var rec func(cur []int)
		rec = func(cur []int) {
			if len(cur) > 0 {
				seqs = append(seqs, append([]int{}, cur...))
			}
			if len(cur) == L {
				return
			}
			nv := 6
			if subj == "htpasswd" {
				nv = 7 // + "migrated"
			}
			for v := 1; v <= nv; v++ {
				rec(append(cur, v))
			}
		}
		rec(nil)
		vals2 := [][]string{{nq[2], nq[1]}, {nq[3], nq[0]}}
		for _, s := range seqs {
			out = append(out, c20Scenario{Subject: subj, Reloaders: [][]int{s}, Validators: c20Copy(vals2)})
		}
		// two reloaders
		pairs := [][2][]int{{{1}, {2}}, {{3}, {4}}, {{2}, {3}}, {{1}, {5, 2}}, {{3, 1}, {2}}}
		if !quick {
			pairs = append(pairs, [2][]int{{1, 3}, {2, 4}}, [2][]int{{4}, {4, 1}}, [2][]int{{2, 1}, {3}})
		}
		subj4 := subj
		if subj == "htpasswd" {
			subj4 = "htpasswd-sha"
		}
		for _, p := range pairs {
			out = append(out, c20Scenario{Subject: subj4, Reloaders: [][]int{p[0], p[1]}, Validators: c20Copy(vals2)})
		}
		// three validators, one validation each plus one with two
		vals3 := [][]string{{nq[2]}, {nq[1], nq[0]}, {nq[3]}}
		for _, s := range [][]int{{3}, {2}, {1, 2}, {5, 3}} {
			out = append(out, c20Scenario{Subject: subj4, Reloaders: [][]int{s}, Validators: c20Copy(vals3)})
		}
		if !quick {
			out = append(out, c20Scenario{Subject: subj, Reloaders: [][]int{{3, 2}, {1}}, Validators: c20Copy(vals3)})
		}
	}
	return out
}

func c20Copy(v [][]string) [][]string {
	out := make([][]string, len(v))
	for i := range v {
		out[i] = append([]string{}, v[i]...)
	}
	return out
}

type c20Env struct {
	ht, hts  *c20Htpasswd
	em       *c20Emails
	htV, emV []*c20Version
	htsV     []*c20Version
	htQ, emQ []string
}

func (e *c20Env) get(subject string) (c20Inst, []*c20Version, []string) {
	if subject == "htpasswd-sha" {
		// all entries {SHA}: used for the 4-thread scenarios (a bcrypt comparison costs ~0.5 ms
		// per validation, too much for their execution counts in the quick tier)
		if e.hts == nil {
			e.htsV, e.htQ = c20HtVersions(false)
			e.hts = newC20Htpasswd(e.htsV[0])
		}
		return e.hts, e.htsV, e.htQ
	}
	if subject == "htpasswd" {
		if e.ht == nil {
			e.htV, e.htQ = c20HtVersions()
			e.ht = newC20Htpasswd(e.htV[0])
		}
		return e.ht, e.htV, e.htQ
	}
	if e.em == nil {
		e.emV, e.emQ = c20EmVersions()
		e.em = newC20Emails(e.emV[0])
	}
	return e.em, e.emV, e.emQ
}

type c20Result struct {
	out        *sched.Outcome
	violations []string // "key\x00msg"
	outcomes   string
	pruned     bool
}

// c20Exec runs one execution of a scenario under the chooser x.
func c20Exec(env *c20Env, sc c20Scenario, x *explore.Exec, prune bool) *c20Result {
	inst, versions, queries := env.get(sc.Subject)
	inst.reset(versions[0])
	m := newC20Model(versions)
	res := &c20Result{}
	var answers []string
	opts := sched.Options{}
	if prune {
		opts.StateKey = func() string { return m.key() + "#" + inst.snapshot() }
	}
	s := sched.New(x, opts)
	for ri, seq := range sc.Reloaders {
		seq := seq
		s.Go(fmt.Sprintf("R%d", ri), func() {
			for _, ver := range seq {
				sched.Point("publish")
				id := m.startReload(ver)
				ok, known := inst.publishAndReload(versions[ver])
				m.endReload(id, ok, known)
				sched.Observe(fmt.Sprintf("reload:%v", ok))
				if known && len(sc.Reloaders) == 1 && ok != versions[ver].OK {
					res.violations = append(res.violations, fmt.Sprintf("C20/%s/reload-result\x00reload of version %q reported ok=%v", sc.Subject, versions[ver].Name, ok))
				}
			}
		})
	}
	for vi, qs := range sc.Validators {
		qs := qs
		tid := len(sc.Reloaders) + vi
		s.Go(fmt.Sprintf("V%d", vi), func() {
			for _, q := range qs {
				sched.Point("validate")
				m.startVal(tid, q)
				ans := inst.validate(q)
				sched.Observe(fmt.Sprintf("ans:%v", ans))
				if msg := m.endVal(tid, ans); msg != "" {
					res.violations = append(res.violations, fmt.Sprintf("C20/%s/non-atomic-or-stale-answer\x00%s", sc.Subject, msg))
				}
				answers = append(answers, fmt.Sprintf("%d:%s=%v", tid, q, ans))
			}
		})
	}
	out := s.Run()
	res.out = out
	if out.Aborted == "pruned" {
		res.pruned = true
		return res
	}
	for _, r := range out.Races {
		res.violations = append(res.violations, fmt.Sprintf("C20/%s/data-race:%s\x00unsynchronised %s at %s (%s) and %s at %s (%s) are enabled at the same time",
			sc.Subject, r.Key(), rw(r.A.Write), r.A.Pos, r.TA, rw(r.B.Write), r.B.Pos, r.TB))
	}
	switch out.Aborted {
	case "deadlock":
		res.violations = append(res.violations, fmt.Sprintf("C20/%s/deadlock\x00no thread enabled: blocked %v", sc.Subject, out.Blocked))
	case "livelock", "horizon":
		res.violations = append(res.violations, fmt.Sprintf("C20/%s/%s\x00execution did not finish within the horizon", sc.Subject, out.Aborted))
	case "":
		// after everything has finished, every query must answer like a version still in force
		for qi, q := range queries {
			m.startVal(1000+qi, q)
			if msg := m.endVal(1000+qi, inst.validate(q)); msg != "" {
				res.violations = append(res.violations, fmt.Sprintf("C20/%s/final-state\x00after all reloads completed: %s", sc.Subject, msg))
			}
		}
	}
	for _, p := range out.Panics {
		res.violations = append(res.violations, fmt.Sprintf("C20/%s/panic\x00%s", sc.Subject, p))
	}
	sort.Strings(answers)
	res.outcomes = strings.Join(answers, " ")
	return res
}

func rw(w bool) string {
	if w {
		return "write"
	}
	return "read"
}

func c20Explore(c *Ctx, env *c20Env, sc c20Scenario, bound int, prune bool) {
	var first []int
	firstOrder := ""
	nondet := false
	stats := explore.Run(explore.Config{Stop: schedStuck, MaxCost: bound, Prune: prune, Deadline: c.Deadline, TolerateDivergence: true}, func(x *explore.Exec, own bool) {
		res := c20Exec(env, sc, x, prune)
		if x.Diverged {
			c.Inc("executions_whose_replayed_prefix_did_not_reproduce")
			nondet = true
		}
		c.Inc("evaluations")
		c.Inc("traces_validated_against_impl")
		c.Add("transitions", int64(res.out.Steps))
		if res.pruned {
			c.Inc("pruned_executions")
		} else {
			c.Inc("complete_executions")
			c.Distinct("distinct_outcomes", sc.Subject+fmt.Sprint(sc.Reloaders, sc.Validators)+res.outcomes)
			c.Distinct("distinct_nontrivial", fmt.Sprint(sc, sched.DescribeOrder(res.out.Order)))
			if res.out.Switches > len(sc.Reloaders)+len(sc.Validators) {
				c.Inc("executions_with_interleaving")
			}
		}
		if first == nil {
			first = x.Choices()
			firstOrder = sched.DescribeOrder(res.out.Order)
			c.Sample(6, map[string]any{"scenario": sc, "thread_order": firstOrder, "answers": res.outcomes, "steps": res.out.Steps})
		}
		for _, v := range res.violations {
			kv := strings.SplitN(v, "\x00", 2)
			choices := x.Choices()
			if x.Diverged || nondet {
				// the implementation itself is not deterministic given the schedule (it iterates over
				// a map, say): the observation on this real execution stands on its own
				c.Violate(kv[0], fmt.Sprintf("%s %v/%v: %s [schedule %s; not replayable: the code under test is nondeterministic]", sc.Subject, sc.Reloaders, sc.Validators, kv[1], sched.DescribeOrder(res.out.Order)),
					len(choices)*100+res.out.Switches, c20Replay{Scenario: sc, Choices: choices, Order: sched.DescribeOrder(res.out.Order), What: kv[1]})
				continue
			}
			c.confirm(kv[0], fmt.Sprintf("%s %v/%v: %s [schedule %s]", sc.Subject, sc.Reloaders, sc.Validators, kv[1], sched.DescribeOrder(res.out.Order)),
				len(choices)*100+res.out.Switches,
				c20Replay{Scenario: sc, Choices: choices, Order: sched.DescribeOrder(res.out.Order), What: kv[1]},
				func() (string, bool) {
					r := c20Exec(env, sc, explore.Replay(choices, nil), false)
					for _, v2 := range r.violations {
						if strings.SplitN(v2, "\x00", 2)[0] == kv[0] {
							return kv[0], true
						}
					}
					return "", false
				})
		}
	})
	c.Add("states", int64(stats.States))
	c.SetMax("max_choice_depth", int64(stats.MaxDepth))
	if !stats.Exhaustive {
		c.Exhaustive = false
	}
	// determinism: the first execution replayed twice must give the same thread order
	if first != nil {
		for i := 0; i < 2; i++ {
			r := c20Exec(env, sc, explore.Replay(first, nil), false)
			if o := sched.DescribeOrder(r.out.Order); o != firstOrder {
				// counted, reported and made visible as exhaustive=false; the post hook turns it into
				// a harness error when no violation explains it
				c.Inc("first_execution_replays_that_diverged")
				c.Exhaustive = false
				c.Note("replay divergence in %v: order %s vs %s (aborted=%q)", sc, firstOrder, o, r.out.Aborted)
			}
		}
	}
}

func init() {
	register(&checkDef{
		id:    "C20",
		level: "model_checking",
		rule:  "all interleavings (no preemption bound, visited-state pruning; cross-checked without pruning under a preemption bound) of 1-2 reloader threads x 2-3 validator threads of the real htpasswd validator and the real authenticated-e-mails map at lock/atomic/plain-access granularity, over file-version sequences (added, removed, changed, malformed) of length <= 2 (quick) / 3 (thorough); a state = scheduler state + validator contents + live-version model; distinct_nontrivial = distinct complete thread orders",
		assumptions: []string{
			"interleavings are sequentially consistent at the granularity of hooked operations (sync, sync/atomic calls and instrumented plain field/map accesses of the two packages)",
			"file-event delivery by the OS is replaced: the reload the watcher would call is invoked directly after an atomic symlink swap",
			"data race = two enabled threads with conflicting pending plain accesses (no vector clocks needed under cooperative scheduling)",
		},
		shards: func(tier string) int { return 16 },
		run: func(c *Ctx) {
			c20WatcherEvents(c)
			vrt.Enabled = true
			c20EventLoop(c)
			env := &c20Env{}
			_, _, htq := env.get("htpasswd")
			_, _, emq := env.get("emails")
			scs := c20Scenarios(c.Quick(), map[string][]string{"htpasswd": htq, "emails": emq})
			c.Info["scenarios"] = len(scs)
			only := int(envInt("VERIF_ONLY", -1))
			for i, sc := range scs {
				if !c.Mine(i) || (only >= 0 && i != only) {
					continue
				}
				if c.Expired() {
					return
				}
				bound := 1000 // no preemption bound
				if len(sc.Reloaders) > 1 || len(sc.Validators) > 2 {
					// 4-thread scenarios: preemption bound 2 (quick) / 3 (thorough); measured: unbounded
					// they need tens of minutes each, and one thorough pass spent its whole 40-minute
					// deadline on them without finishing
					def := int64(2)
					if !c.Quick() {
						def = 3
					}
					bound = int(envInt("VERIF_C20_BOUND", def))
					c.Info["preemption_bound_for_4_thread_scenarios"] = bound
				}
				c20Explore(c, env, sc, bound, true)
				// cross-check of the pruning abstraction: the same scenario without pruning under a
				// preemption bound must not find anything the pruned run did not
				if len(sc.Reloaders) == 1 && len(sc.Reloaders[0]) == 1 && len(sc.Validators) == 2 {
					c.Inc("unpruned_crosschecks")
					c20Explore(c, env, sc, 2, false)
				}
			}
			if c.Counters["executions_with_interleaving"] == 0 && c.Counters["complete_executions"] > 0 {
				c.Error("vacuous: no execution interleaved threads")
			}
		},
		post: nil,
		finish: func(c *Ctx) {
			// prefixes that do not reproduce mean the code under test (or the harness) is not
			// deterministic given the schedule. With violations on the table they are explained by
			// the change under test; without any they are a harness problem and must not pass silently
			n := c.Counters["executions_whose_replayed_prefix_did_not_reproduce"] + c.Counters["first_execution_replays_that_diverged"]
			if n > 0 && len(c.Violations) == 0 {
				c.Unstable("%d executions did not reproduce their replayed prefix and no violation was found", n)
			}
		},
		replay: func(c *Ctx, raw json.RawMessage) string {
			var wc c20WatchCase
			if json.Unmarshal(raw, &wc) == nil && wc.Kind == "watcher-events" {
				key, msg := c20WatchRun(c, wc)
				if key != "" {
					c.Violate(key, msg, 1, wc)
				}
				return "events " + strings.Join(wc.Events, ",") + ": " + msg
			}
			var lc c20LoopCase
			if json.Unmarshal(raw, &lc) == nil && lc.Kind == "event-loop" {
				vrt.Enabled = true
				r := c20LoopExec(lc, explore.Replay(lc.Choices, nil))
				key, msg := c20LoopJudge(lc, r)
				if key != "" {
					c.Violate(key, msg, 1, lc)
				}
				return fmt.Sprintf("order %s in force %v: %s", sched.DescribeOrder(r.out.Order), r.inForce, msg)
			}
			var rp c20Replay
			if err := json.Unmarshal(raw, &rp); err != nil {
				return err.Error()
			}
			vrt.Enabled = true
			env := &c20Env{}
			r := c20Exec(env, rp.Scenario, explore.Replay(rp.Choices, nil), false)
			for _, v := range r.violations {
				kv := strings.SplitN(v, "\x00", 2)
				c.Violate(kv[0], kv[1], 1, rp)
			}
			return fmt.Sprintf("order %s answers %s violations %d", sched.DescribeOrder(r.out.Order), r.outcomes, len(r.violations))
		},
	})
	_ = time.Second
}
