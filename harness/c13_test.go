//go:build verif

package main

// C13 — session-store failures fail closed (ENV, fault enumeration).
//
// Every execution builds a fresh world (miniredis, identity provider, proxy, clock, randomness),
// brings it into the scenario's starting state through the real handlers with a healthy store,
// then runs the scenario's requests with a choice point at EVERY store call (alternative 0 =
// healthy answer, 1.. = the fault kinds of that operation). engine/explore re-executes the body
// once per choice sequence in order of increasing number of faults. Positions are whatever store
// calls the run itself reaches - a fault that opens a new code path (e.g. the DEL after a failed
// GET) exposes new positions, which are then faulted in turn at the next level.
//
// After the faulted requests the store is healthy again and the oracle looks at the aftermath:
// the same browser asks for a page, every pre-sign-out cookie whose sign-out was answered with
// the success redirect is replayed, a new visitor logs in and must be served, readiness is 200.
//
// Oracle (c13Oracle), per request of the faulted phase: no panic; not answered as authenticated
// (upstream hit / 2xx on /oauth2/auth / 200 on /oauth2/userinfo) if any session read of that
// request was faulted; no session Set-Cookie if the store write failed without effect, and any
// new session cookie in the jar must have a decodable session in the store; readiness != 200
// while the ping fails or the store is down. A request served although only a write or lock call
// failed (refresh save, lock release) is counted as ambiguous, not as a violation.

import (
	"context"
	"encoding/base64"
	"encoding/json"
	"errors"
	"fmt"
	"io"
	"net/http"
	"net/url"
	"strings"
	"sync/atomic"
	"time"

	"github.com/oauth2-proxy/oauth2-proxy/v7/pkg/apis/sessions"
	"github.com/oauth2-proxy/oauth2-proxy/v7/pkg/encryption"
	"github.com/oauth2-proxy/oauth2-proxy/v7/pkg/sessions/persistence"
	redisstore "github.com/oauth2-proxy/oauth2-proxy/v7/pkg/sessions/redis"
	"github.com/oauth2-proxy/oauth2-proxy/v7/verifx/explore"
	"github.com/oauth2-proxy/oauth2-proxy/v7/verifx/world"
)

// ---------------------------------------------------------------------------------------------
// fault alphabet (DESIGN.md §4 C13)

var c13TruncLens = []int{0, 1, 11, 12, 13, 27, 28, -1} // -1 = len-1

func c13ReadKinds() []string {
	ks := []string{"err-before", "lost-reply", "missing", "flip-first", "flip-middle", "flip-last"}
	for _, n := range c13TruncLens {
		if n < 0 {
			ks = append(ks, "trunc-len-1")
		} else {
			ks = append(ks, fmt.Sprintf("trunc-%d", n))
		}
	}
	return ks
}

// c13Wedged: a request of this process never returned (see do); nothing further is explored in it.
var c13Wedged atomic.Bool

const c13Forever = "not-obtained-forever"
const c13Hang = "hangs-until-the-client-gives-up"

// c13Kinds lists the fault kinds of a store operation, simplest first.
func c13Kinds(op string) []string {
	switch op {
	case "GET":
		return c13ReadKinds()
	case "PING":
		// the third kind: the ping neither succeeds nor fails ("times out"); the request is given up by
		// its client after 2.5 s of real time (the only real-time wait of this check: an answer that
		// arrives earlier is judged as it is, no answer by then is the handler still waiting — admissible)
		return []string{"err-before", "lost-reply", c13Hang}
	case "SET", "DEL", "RELEASE", "REFRESH":
		return []string{"err-before", "lost-reply"}
	case "OBTAIN":
		return []string{"err-before", "lost-reply", "not-obtained-once", c13Forever}
	case "PEEK":
		return []string{"err-before"}
	}
	return nil
}

// ops the five scenarios are expected to perform (non-vacuity is asserted for each kind of each)
var c13ExpectedOps = []string{"GET", "SET", "DEL", "PING", "OBTAIN", "RELEASE"}

var (
	errC13Before = errors.New("verif: injected store failure (operation not performed)")
	errC13After  = errors.New("verif: injected i/o timeout (operation performed, reply lost)")
)

// ---------------------------------------------------------------------------------------------
// scenarios

// c13Scenario: Setup actions run against a healthy store, Faulted actions run with a choice
// point at every store call. Actions: "login", "get:<target>", "advance:<duration>", "signout",
// "ready", "close-store".
type c13Scenario struct {
	Name    string   `json:"name"`
	Store   string   `json:"store"` // redis | cookie
	Setup   []string `json:"setup"`
	Faulted []string `json:"faulted"`
	Bound   int      `json:"bound"` // max faults per execution
	// Spread: the executions of this (large) scenario are divided among all shard processes by
	// their first two faults; the other scenarios are dealt out whole, one per process.
	Spread bool `json:"spread,omitempty"`
	// Expect is the outcome class the last faulted request must have when no fault is injected
	// (asserted on the 0-fault execution: the scenario does what its name says); empty for the
	// store-unreachable variants, whose outcome is judged by the oracle alone.
	Expect string `json:"expect"`
}

func c13Scenarios(quick bool) []c13Scenario {
	// the property quantifies over single faults and pairs: both tiers cover exactly that for every
	// scenario, including the whole-life journey; the thorough tier goes deeper
	deep, journey := 2, 2
	if !quick {
		deep, journey = 5, 3
	}
	var out []c13Scenario
	add := func(name, store string, setup, faulted []string, bound int, expect string) {
		out = append(out, c13Scenario{Name: name, Store: store, Setup: setup, Faulted: faulted, Bound: bound, Expect: expect})
	}
	targets := []string{"/page", "/oauth2/auth", "/oauth2/userinfo"}
	add("login-callback", "redis", nil, []string{"login"}, deep, "authenticated")
	for _, t := range targets {
		add("authenticated-request "+t, "redis", []string{"login"}, []string{"get:" + t}, deep, "authenticated")
	}
	for _, t := range targets {
		add("refresh "+t, "redis", []string{"login", "advance:2m"}, []string{"get:" + t}, deep, "authenticated")
	}
	add("sign-out", "redis", []string{"login"}, []string{"signout"}, deep, "signout-redirect")
	add("sign-out of a stale session", "redis", []string{"login", "advance:2m"}, []string{"signout"}, deep, "signout-redirect")
	add("readiness", "redis", nil, []string{"ready"}, deep, "ready")
	add("readiness, cookie store", "cookie", nil, []string{"ready"}, 0, "ready")
	add("readiness, store unreachable", "redis", []string{"close-store"}, []string{"ready"}, 0, "")
	// the store goes away right after a probe that found it well (an answer remembered from then is wrong now)
	add("readiness, store unreachable after a successful probe", "redis", []string{"ready", "close-store"}, []string{"ready"}, 0, "")
	add("authenticated-request, store unreachable", "redis", []string{"login", "close-store"}, []string{"get:/page"}, 0, "")
	add("sign-out, store unreachable", "redis", []string{"login", "close-store"}, []string{"signout"}, 0, "")
	// one browser's whole life with faults anywhere: login, use, refresh, sign-out
	add("journey", "redis", nil, []string{"login", "get:/page", "advance:2m", "get:/page", "signout"}, journey, "signout-redirect")
	for i := range out {
		// the large ones: the journey, and in the thorough tier everything that goes through a refresh
		refresh := len(out[i].Setup) > 1 && strings.HasPrefix(out[i].Setup[1], "advance:") && out[i].Bound > 0
		out[i].Spread = out[i].Name == "journey" || (!quick && refresh)
	}
	return out
}

// ---------------------------------------------------------------------------------------------
// one execution

type c13Fault struct {
	Pos  string `json:"pos"` // "<op>@<n>": n-th store call of the faulted phase
	Op   string `json:"op"`
	Kind string `json:"kind"`
}

type c13Req struct {
	What      string     `json:"what"`
	Kind      string     `json:"kind"` // start callback page auth userinfo signout ready
	Status    int        `json:"status"`
	Location  string     `json:"location,omitempty"`
	Class     string     `json:"class"`
	Ops       []string   `json:"ops,omitempty"`
	Faults    []c13Fault `json:"faults,omitempty"`
	Upstream  int        `json:"upstream_hits"`
	UpEmail   string     `json:"upstream_email,omitempty"`
	SetCookie string     `json:"session_set_cookie,omitempty"` // "", "set", "clear", "set,clear" ...
	NewCookie string     `json:"new_cookie_store_state,omitempty"`
	Panic     string     `json:"panic,omitempty"`
	PanicSite string     `json:"panic_site,omitempty"`
	preCookie string
}

type c13Result struct {
	Scenario   c13Scenario `json:"scenario"`
	Choices    []int       `json:"choices"`
	Faults     []c13Fault  `json:"faults_delivered"`
	Offered    []c13Fault  `json:"faults_chosen"`
	Reqs       []*c13Req   `json:"requests"`
	Follow     []*c13Req   `json:"followup"`
	Grants     int         `json:"refresh_grants"`
	Viol       [][2]string `json:"violations,omitempty"`
	Ambiguous  []string    `json:"ambiguous,omitempty"`
	FixtureErr string      `json:"fixture_error,omitempty"`
	// EnvErr: the REAL store or upstream connection failed although no fault was injected there
	// (e.g. the machine ran out of ports): the execution says nothing about the proxy
	EnvErr  string `json:"environment_error,omitempty"`
	Retries int    `json:"-"`
	opsSeen map[string]bool
}

type c13Env struct {
	up *world.Upstream
}

func c13NewEnv() *c13Env {
	var up *world.Upstream
	c13Patiently(func() { up = world.NewUpstream("u") })
	// no idle keep-alive connections: every execution builds a new proxy (and transport)
	up.Respond = func(w http.ResponseWriter, r *http.Request) {
		w.Header().Set("Connection", "close")
		w.Header().Set("X-Upstream", "u")
		w.Header().Set("Content-Type", "text/plain")
		w.WriteHeader(200)
		fmt.Fprint(w, "upstream:u")
	}
	return &c13Env{up: up}
}

// c13Patiently runs f, waiting out a momentary shortage of ports on a busy machine
// (listen on 127.0.0.1:0 failing with "address already in use").
func c13Patiently(f func()) {
	for i := 0; ; i++ {
		ok := func() (ok bool) {
			defer func() {
				if p := recover(); p != nil {
					if i >= 100 {
						panic(p)
					}
					time.Sleep(100 * time.Millisecond)
				}
			}()
			f()
			return true
		}()
		if ok {
			return
		}
	}
}

// c13NewRedis starts a fresh miniredis.
func c13NewRedis() (rd *world.Redis) {
	c13Patiently(func() {
		world.ClearAdvanceHooks()
		rd = world.NewRedis()
	})
	return rd
}

// c13Guard sits between the fault hooks and the real go-redis client and notices failures of
// the REAL connection (nothing the harness injected): such an execution is not evaluated.
type c13Guard struct {
	in  redisstore.Client
	run *c13Run
}

func (g *c13Guard) note(op string, err error) {
	if err == nil || g.run.closed || g.run.res.EnvErr != "" {
		return
	}
	m := err.Error()
	for _, pat := range []string{"dial tcp", "connection re", "broken pipe", "EOF", "cannot assign", "too many open files", "timeout", "deadline exceeded", "closed"} {
		if strings.Contains(m, pat) {
			g.run.res.EnvErr = "real store connection failed in " + op + ": " + m
			return
		}
	}
}
func (g *c13Guard) Get(ctx context.Context, key string) ([]byte, error) {
	v, err := g.in.Get(ctx, key)
	g.note("GET", err)
	return v, err
}
func (g *c13Guard) Set(ctx context.Context, key string, value []byte, exp time.Duration) error {
	err := g.in.Set(ctx, key, value, exp)
	g.note("SET", err)
	return err
}
func (g *c13Guard) Del(ctx context.Context, key string) error {
	err := g.in.Del(ctx, key)
	g.note("DEL", err)
	return err
}
func (g *c13Guard) Ping(ctx context.Context) error {
	err := g.in.Ping(ctx)
	g.note("PING", err)
	return err
}
func (g *c13Guard) Lock(key string) sessions.Lock { return &c13GuardLock{in: g.in.Lock(key), g: g} }

type c13GuardLock struct {
	in sessions.Lock
	g  *c13Guard
}

func (l *c13GuardLock) Obtain(ctx context.Context, exp time.Duration) error {
	err := l.in.Obtain(ctx, exp)
	l.g.note("OBTAIN", err)
	return err
}
func (l *c13GuardLock) Peek(ctx context.Context) (bool, error) {
	ok, err := l.in.Peek(ctx)
	l.g.note("PEEK", err)
	return ok, err
}
func (l *c13GuardLock) Refresh(ctx context.Context, exp time.Duration) error {
	err := l.in.Refresh(ctx, exp)
	l.g.note("REFRESH", err)
	return err
}
func (l *c13GuardLock) Release(ctx context.Context) error {
	err := l.in.Release(ctx)
	l.g.note("RELEASE", err)
	return err
}

// c13Tape remembers the choices the explorer already handed out for this execution, so that an
// attempt disturbed by the environment can be repeated without asking the explorer twice.
type c13Tape struct {
	labels  []string
	choices []int
}

const c13ObtainRun = 3

type c13Run struct {
	cancelCur context.CancelFunc
	obtainRun int
	tape      *c13Tape
	nPts      int
	env       *c13Env
	sc        c13Scenario
	x         *explore.Exec
	res       *c13Result
	idp       *world.IdP
	rd        *world.Redis
	px        *Proxy
	b         *Browser
	cur       *c13Req
	base      int  // store calls before the faulted phase
	stuck     bool // "not obtained forever" was chosen
	faulting  bool
	closed    bool
	signouts  []*c13Req
}

func (r *c13Run) intercept(call *world.StoreCall) *world.StoreFault {
	r.res.opsSeen[call.Op] = true
	if r.cur != nil {
		r.cur.Ops = append(r.cur.Ops, call.Op)
	}
	if !r.faulting || r.res.EnvErr != "" {
		return nil
	}
	if r.stuck {
		if call.Op == "OBTAIN" {
			return &world.StoreFault{Kind: c13Forever, NotObtained: true}
		}
		return nil
	}
	// a retry loop waiting for a lock that really is held (left behind by an earlier fault) calls
	// OBTAIN up to 200 times in a row: only the first c13ObtainRun of them are fault positions
	if call.Op == "OBTAIN" {
		r.obtainRun++
		if r.obtainRun > c13ObtainRun {
			return nil
		}
	} else {
		r.obtainRun = 0
	}
	kinds := c13Kinds(call.Op)
	if len(kinds) == 0 {
		return nil
	}
	pos := fmt.Sprintf("%s@%d", call.Op, call.Seq-r.base)
	costs := make([]int, len(kinds)+1)
	for i, k := range kinds {
		costs[i+1] = 1
		if k == c13Forever {
			// the retry loop then spins (in virtual time) until its obtain timeout: explored
			// alone, never combined with other faults
			costs[i+1] = r.sc.Bound
			if costs[i+1] < 1 {
				costs[i+1] = 1
			}
		}
	}
	ch := 0
	if i := r.nPts; i < len(r.tape.choices) {
		if r.tape.labels[i] != pos {
			r.res.EnvErr = fmt.Sprintf("repeated attempt reached %s where the first reached %s", pos, r.tape.labels[i])
			return nil
		}
		ch = r.tape.choices[i]
	} else {
		ch = r.x.ChooseCost(pos, costs)
		r.tape.labels = append(r.tape.labels, pos)
		r.tape.choices = append(r.tape.choices, ch)
	}
	r.nPts++
	if ch == 0 {
		return nil
	}
	kind := kinds[ch-1]
	ft := c13Fault{Pos: pos, Op: call.Op, Kind: kind}
	r.res.Offered = append(r.res.Offered, ft)
	deliver := func() {
		r.res.Faults = append(r.res.Faults, ft)
		if r.cur != nil {
			r.cur.Faults = append(r.cur.Faults, ft)
		}
	}
	f := &world.StoreFault{Kind: kind}
	switch {
	case kind == "err-before":
		f.BeforeErr = errC13Before
		deliver()
	case kind == "lost-reply":
		f.AfterErr = errC13After
		deliver()
	case kind == c13Hang:
		f.Hang = true
		deliver()
		if cancel := r.cancelCur; cancel != nil {
			go func() {
				time.Sleep(2500 * time.Millisecond)
				cancel()
			}()
		}
	case kind == "missing":
		f.Missing = true
		deliver()
	case kind == "not-obtained-once":
		f.NotObtained = true
		deliver()
	case kind == c13Forever:
		f.NotObtained = true
		r.stuck = true
		deliver()
	case strings.HasPrefix(kind, "flip-"):
		f.Mutate = func(v []byte) []byte {
			if len(v) == 0 {
				return v
			}
			i := 0
			switch kind {
			case "flip-middle":
				i = len(v) / 2
			case "flip-last":
				i = len(v) - 1
			}
			out := append([]byte(nil), v...)
			out[i] ^= 0xff
			deliver()
			return out
		}
	case strings.HasPrefix(kind, "trunc-"):
		n := -1
		if kind != "trunc-len-1" {
			fmt.Sscanf(kind, "trunc-%d", &n)
		}
		f.Mutate = func(v []byte) []byte {
			m := n
			if m < 0 {
				m = len(v) - 1
			}
			if m < 0 || m >= len(v) {
				return v // nothing to truncate: not delivered
			}
			deliver()
			return append([]byte(nil), v[:m]...)
		}
	}
	return f
}

const c13Host = "app.example.com"

func c13KindOf(target string) string {
	p := pathOf(target)
	switch {
	case p == "/oauth2/auth":
		return "auth"
	case p == "/oauth2/userinfo":
		return "userinfo"
	case p == "/oauth2/sign_out":
		return "signout"
	case p == "/oauth2/start":
		return "start"
	case p == "/oauth2/callback":
		return "callback"
	case p == "/ready":
		return "ready"
	}
	return "page"
}

// sessionCookieValue returns the value of the session cookie in the jar ("" if none).
func (r *c13Run) sessionCookieValue() string {
	for _, ck := range r.b.Jar.For("http", c13Host, "/") {
		if ck.Name == r.px.Opts.Cookie.Name {
			return ck.Value
		}
	}
	return ""
}

// storedState tells what the store holds for the ticket inside a session-cookie value:
// "no-ticket", "absent", "undecodable" or "ok:<email>". Only meaningful for the Redis store.
func (r *c13Run) storedState(value string) (state string) {
	if r.rd == nil || r.closed {
		return "n/a"
	}
	ck := &http.Cookie{Name: r.px.Opts.Cookie.Name, Value: value}
	val, _, ok := encryption.Validate(ck, r.px.Opts.Cookie.Secret, r.px.Opts.Cookie.Expire)
	if !ok {
		return "no-ticket"
	}
	parts := strings.Split(string(val), ".")
	if len(parts) != 3 || parts[0] != "v2" {
		return "no-ticket"
	}
	id, err1 := base64.RawURLEncoding.DecodeString(parts[1])
	secret, err2 := base64.RawURLEncoding.DecodeString(parts[2])
	if err1 != nil || err2 != nil {
		return "no-ticket"
	}
	stored, err := r.rd.M.Get(string(id))
	if err != nil {
		return "absent"
	}
	defer func() {
		if recover() != nil {
			state = "undecodable"
		}
	}()
	ci, err := encryption.NewGCMCipher(secret)
	if err != nil {
		return "undecodable"
	}
	ss, err := sessions.DecodeSessionState([]byte(stored), ci, false)
	if err != nil || ss == nil {
		return "undecodable"
	}
	return "ok:" + ss.Email
}

// do sends one request of the browser (or a hand-made one) and records what the property
// observes: status class, upstream log, session Set-Cookie, panic, store calls and faults.
func (r *c13Run) do(what string, req *world.Req, useJar bool) *c13Req {
	q := &c13Req{What: what, Kind: c13KindOf(req.Target)}
	r.cur = q
	r.env.up.Take()
	before := ""
	if useJar {
		before = r.sessionCookieValue()
		q.preCookie = r.b.Jar.Header("http", c13Host, "/")
	}
	var resp *world.Resp
	if hr, perr := req.Parse(); perr != nil {
		resp = &world.Resp{Status: 400, ParseErr: perr, Header: http.Header{}}
	} else {
		// (the request's context is cancellable: a store operation that hangs is ended by the client giving up)
		ctx, cancel := context.WithCancel(context.Background())
		r.cancelCur = cancel
		// a request that does not come back within 60 s of real time is abandoned: with virtual clocks on one
		// side and real timers on the other a changed retry loop may never see its deadline — that says
		// nothing about the property, so the execution is inconclusive and this process explores no further
		if c13Wedged.Load() {
			resp = &world.Resp{Status: 599, Header: http.Header{}}
		} else {
			ch := make(chan *world.Resp, 1)
			go func() { ch <- world.ServeHTTP(r.px.H, hr.WithContext(ctx)) }()
			select {
			case resp = <-ch:
			case <-time.After(60 * time.Second):
				c13Wedged.Store(true)
				cancel()
				resp = &world.Resp{Status: 599, Header: http.Header{}}
				r.res.EnvErr = "INCONCLUSIVE request " + what + " did not return within 60 s of real time"
			}
		}
		r.cancelCur = nil
		cancel()
		if useJar {
			r.b.Jar.SetCookies(r.b.Scheme, r.b.Host, pathOf(req.Target), resp.Header)
		}
	}
	r.cur = nil
	if d, ok := resp.Panic.(explore.Divergence); ok {
		panic(d) // a harness problem, not a panic of the proxy
	}
	q.Status, q.Location = resp.Status, resp.Location()
	if resp.Panic != nil {
		q.Panic = fmt.Sprint(resp.Panic)
		q.PanicSite = resp.PanicSite()
	}
	hits := r.env.up.Take()
	if resp.Status == http.StatusBadGateway && len(hits) == 0 && r.res.EnvErr == "" {
		r.res.EnvErr = "the proxy could not reach the upstream in " + what
	}
	q.Upstream = len(hits)
	if len(hits) > 0 {
		q.UpEmail = hits[0].Header.Get("X-Forwarded-Email")
	}
	var sc []string
	for _, ck := range resp.Cookies() {
		if ck.Name == r.px.Opts.Cookie.Name {
			if ck.Value != "" {
				sc = append(sc, "set")
			} else {
				sc = append(sc, "clear")
			}
		}
	}
	q.SetCookie = strings.Join(sc, ",")
	if useJar {
		if after := r.sessionCookieValue(); after != "" && after != before {
			q.NewCookie = r.storedState(after)
		}
	}
	// outcome class
	switch {
	case q.Panic != "":
		q.Class = "panic"
	case q.Kind == "page" && q.Upstream > 0:
		q.Class = "authenticated"
	case q.Kind == "auth" && q.Status >= 200 && q.Status < 300:
		q.Class = "authenticated"
	case q.Kind == "userinfo" && q.Status == 200:
		q.Class = "authenticated"
	case q.Kind == "ready" && q.Status == 200:
		q.Class = "ready"
	case q.Kind == "ready":
		q.Class = "not-ready"
	case q.Kind == "signout" && q.Status >= 300 && q.Status < 400 && q.Location == "/bye":
		q.Class = "signout-redirect"
	case q.Kind == "callback" && q.Status == 302:
		q.Class = "login-redirect"
	case q.Kind == "start" && q.Status == 302:
		q.Class = "to-provider"
	case q.Status >= 500:
		q.Class = "error"
	default:
		q.Class = "rejected" // sign-in page, redirect to the provider, 401, 403
	}
	return q
}

func (r *c13Run) act(action string, faulted bool) {
	record := func(q *c13Req) {
		if faulted {
			r.res.Reqs = append(r.res.Reqs, q)
		}
	}
	switch {
	case action == "login":
		start := r.do("GET /oauth2/start", r.b.Req("GET", "/oauth2/start?rd=%2Fpage"), true)
		record(start)
		if start.Class != "to-provider" {
			r.res.FixtureErr = fmt.Sprintf("login start answered %d", start.Status)
			return
		}
		cb, _, err := r.idp.Authorize(start.Location, "alice")
		if err != nil {
			r.res.FixtureErr = "authorize: " + err.Error()
			return
		}
		u, err := url.Parse(cb)
		if err != nil {
			r.res.FixtureErr = "callback url: " + err.Error()
			return
		}
		q := r.do("GET /oauth2/callback", r.b.Req("GET", u.RequestURI()), true)
		record(q)
		// a browser follows the success redirect to the page it asked for
		if q.Class == "login-redirect" && q.Location == "/page" {
			record(r.do("GET /page (after login)", r.b.Req("GET", "/page"), true))
		}
	case strings.HasPrefix(action, "get:"):
		t := strings.TrimPrefix(action, "get:")
		record(r.do("GET "+t, r.b.Req("GET", t), true))
	case strings.HasPrefix(action, "advance:"):
		d, err := time.ParseDuration(strings.TrimPrefix(action, "advance:"))
		if err != nil {
			panic(err)
		}
		world.Advance(d)
	case action == "signout":
		q := r.do("GET /oauth2/sign_out", r.b.Req("GET", "/oauth2/sign_out?rd=%2Fbye"), true)
		record(q)
		r.signouts = append(r.signouts, q)
	case action == "ready":
		record(r.do("GET /ready", r.b.Req("GET", "/ready"), true))
	case action == "close-store":
		r.rd.M.Close()
		r.closed = true
	default:
		panic("unknown action " + action)
	}
}

// c13Exec runs one execution of a scenario under the choices x hands out and evaluates the oracle.
func c13Exec(env *c13Env, seed int64, sc c13Scenario, x *explore.Exec) *c13Result {
	tape := &c13Tape{}
	for attempt := 0; ; attempt++ {
		res := c13Attempt(env, seed, sc, x, tape)
		res.Retries = attempt
		if res.EnvErr == "" || attempt >= 5 || c13Wedged.Load() {
			return res
		}
		// the real connection to miniredis or to the upstream failed (busy machine): once more
		time.Sleep(300 * time.Millisecond)
	}
}

func c13Attempt(env *c13Env, seed int64, sc c13Scenario, x *explore.Exec, tape *c13Tape) *c13Result {
	res := &c13Result{Scenario: sc, opsSeen: map[string]bool{}}
	r := &c13Run{env: env, sc: sc, x: x, res: res, tape: tape}
	// fresh world
	world.ClearAdvanceHooks()
	world.ResetClock()
	world.SeedRandom(seed, 0)
	r.idp = world.NewIdP()
	cfg := &ProxyCfg{Flags: append(baseFlags(env.up.URL()), "--email-domain=*", "--cookie-secure=false",
		"--cookie-refresh=1m", "--cookie-expire=1h")}
	if sc.Store == "redis" {
		r.rd = c13NewRedis()
		defer func() {
			r.rd.Close() // (closing miniredis twice is harmless)
			world.ClearAdvanceHooks()
		}()
		cfg.Flags = append(cfg.Flags, "--session-store-type=redis", "--redis-connection-url="+r.rd.URL()+"?dial_timeout=30s&read_timeout=30s&write_timeout=30s&pool_timeout=60s")
		r.rd.Intercept = r.intercept
	}
	r.px = mustProxy(cfg)
	if r.rd != nil {
		// same wrapping as buildProxy does for ProxyCfg.Redis, with the guard in between and the
		// real client closed when the execution ends (thousands of proxies per process)
		m, ok := verifSessionStore(r.px.P).(*persistence.Manager)
		if !ok {
			panic(fmt.Sprintf("redis store is not a persistence.Manager: %T", verifSessionStore(r.px.P)))
		}
		rs, ok := m.Store.(*redisstore.SessionStore)
		if !ok {
			panic(fmt.Sprintf("manager store is not the redis store: %T", m.Store))
		}
		real := rs.Client
		rs.Client = r.rd.Wrap(&c13Guard{in: real, run: r})
		r.px.Redis = r.rd
		if cl, ok := real.(io.Closer); ok {
			defer cl.Close()
		}
	}
	r.b = newBrowser(r.px, "http", c13Host)
	env.up.Take()

	// setup with a healthy store
	for _, a := range sc.Setup {
		r.act(a, false)
		if res.FixtureErr != "" {
			return res
		}
	}
	// faulted phase
	if r.rd != nil {
		r.base = r.rd.NumCalls()
	}
	r.faulting = !r.closed
	for _, a := range sc.Faulted {
		r.act(a, true)
		if res.FixtureErr != "" {
			return res
		}
	}
	r.faulting = false
	res.Grants = r.idp.Grants

	// follow-up against the healthy store
	if !r.closed {
		q := r.do("follow-up GET /page (same browser)", r.b.Req("GET", "/page"), true)
		res.Follow = append(res.Follow, q)
		for _, so := range r.signouts {
			if so.Class == "signout-redirect" && so.preCookie != "" {
				rq := &world.Req{Method: "GET", Target: "/page", Host: c13Host, Headers: [][2]string{{"Cookie", so.preCookie}}}
				f := r.do("replay of the pre-sign-out cookie", rq, false)
				res.Follow = append(res.Follow, f)
			}
		}
		// a new visitor can still log in and be served
		r.b = newBrowser(r.px, "http", c13Host)
		start := r.do("fresh browser: start", r.b.Req("GET", "/oauth2/start?rd=%2Fpage"), true)
		res.Follow = append(res.Follow, start)
		if start.Class == "to-provider" {
			if cb, _, err := r.idp.Authorize(start.Location, "bob"); err == nil {
				if u, err := url.Parse(cb); err == nil {
					res.Follow = append(res.Follow, r.do("fresh browser: callback", r.b.Req("GET", u.RequestURI()), true))
					res.Follow = append(res.Follow, r.do("fresh browser: GET /page", r.b.Req("GET", "/page"), true))
				}
			}
		}
		res.Follow = append(res.Follow, r.do("GET /ready (healthy)", r.b.Req("GET", "/ready"), true))
	} else {
		// the store stays down: the proxy must at least keep answering
		r.b = newBrowser(r.px, "http", c13Host)
		res.Follow = append(res.Follow, r.do("fresh browser: GET /page (store down)", r.b.Req("GET", "/page"), true))
	}
	res.Choices = x.Choices()
	c13Oracle(r)
	return res
}

func c13PanicKey(q *c13Req) string {
	if strings.Contains(q.PanicSite, "gcmCipher") && strings.Contains(q.PanicSite, "Decrypt") {
		return "C13/gcm-decrypt-short-ciphertext-panic"
	}
	return "C13/panic@" + q.PanicSite
}

// c13Oracle evaluates the clauses of the property on one finished execution.
func c13Oracle(r *c13Run) {
	res := r.res
	viol := func(key, format string, a ...any) {
		res.Viol = append(res.Viol, [2]string{key, fmt.Sprintf(format, a...)})
	}
	for _, q := range res.Reqs {
		readFault, saveBefore, pingFault, otherFault, lockFault := "", "", "", "", ""
		for _, f := range q.Faults {
			switch {
			case f.Op == "GET":
				readFault = f.Pos + ":" + f.Kind
			case f.Op == "SET" && f.Kind == "err-before":
				saveBefore = f.Pos + ":" + f.Kind
			case f.Op == "PING":
				pingFault = f.Pos + ":" + f.Kind
			case f.Op == "OBTAIN" && (f.Kind == "err-before" || f.Kind == "lost-reply"):
				lockFault = f.Pos + ":" + f.Kind
			}
			if f.Op != "GET" && f.Kind != "not-obtained-once" {
				otherFault = f.Pos + ":" + f.Kind
			}
		}
		// request handling does not crash
		if q.Panic != "" {
			viol(c13PanicKey(q), "%s panicked in %s (%s) with store faults %v", q.What, q.PanicSite, q.Panic, q.Faults)
			continue
		}
		// never forwarded as authenticated when the session could not be loaded intact
		if readFault != "" && q.Class == "authenticated" {
			viol("C13/served-after-failed-session-load", "%s was answered as authenticated (status %d, upstream hits %d) although the session read %s failed", q.What, q.Status, q.Upstream, readFault)
		}
		// nor when the refresh lock could not be taken because the lock operation itself failed (not: was
		// held by somebody else): what the request goes on to do — reload, refresh, save — is only safe under the lock
		if lockFault != "" && q.Class == "authenticated" {
			viol("C13/served-after-failed-lock-operation", "%s was answered as authenticated (status %d, upstream hits %d) although taking the refresh lock failed (%s)", q.What, q.Status, q.Upstream, lockFault)
		}
		if readFault == "" && lockFault == "" && otherFault != "" && q.Class == "authenticated" {
			// the statement's first sentence read strictly would forbid this too; the session itself
			// was loaded intact, so the reading of DESIGN.md §4 admits it
			res.Ambiguous = append(res.Ambiguous, q.What+" served after "+otherFault)
		}
		// never hands out a cookie for a session it failed to persist
		if saveBefore != "" && strings.Contains(q.SetCookie, "set") {
			viol("C13/cookie-for-unpersisted-session", "%s set a session cookie although the store write %s failed without effect", q.What, saveBefore)
		}
		if q.NewCookie != "" && q.NewCookie != "n/a" && !strings.HasPrefix(q.NewCookie, "ok:") {
			viol("C13/cookie-for-unpersisted-session", "%s left the browser with a new session cookie whose session is %s in the store (faults %v)", q.What, q.NewCookie, q.Faults)
		}
		// readiness
		if q.Kind == "ready" && pingFault != "" && q.Status == 200 {
			viol("C13/ready-while-ping-fails", "%s answered 200 although the store ping %s failed", q.What, pingFault)
		}
		if q.Kind == "ready" && r.closed && q.Status == 200 {
			viol("C13/ready-while-store-unreachable", "%s answered 200 although the store is unreachable", q.What)
		}
		if r.closed && q.Class == "authenticated" {
			viol("C13/served-after-failed-session-load", "%s was answered as authenticated although the store is unreachable", q.What)
		}
		if r.closed && q.Class == "signout-redirect" {
			viol("C13/signout-success-but-session-loadable", "%s reported a successful sign-out although the store is unreachable (the stored session cannot have been deleted)", q.What)
		}
	}
	// follow-up with a healthy store
	fresh := ""
	for _, q := range res.Follow {
		if q.Panic != "" {
			viol(c13PanicKey(q), "%s (healthy store, after faults %v) panicked in %s (%s)", q.What, res.Faults, q.PanicSite, q.Panic)
			continue
		}
		switch {
		case strings.HasPrefix(q.What, "replay of the pre-sign-out cookie"):
			if q.Class == "authenticated" {
				viol("C13/signout-success-but-session-loadable", "sign-out answered with the success redirect, but the pre-sign-out cookie is still served as %q afterwards (faults %v)", q.UpEmail, res.Faults)
			}
		case strings.HasPrefix(q.What, "follow-up GET /page"):
			if q.Class == "authenticated" && q.UpEmail != "alice@example.com" {
				viol("C13/wrong-identity-after-faults", "follow-up request served as %q (faults %v)", q.UpEmail, res.Faults)
			}
			if q.NewCookie != "" && !strings.HasPrefix(q.NewCookie, "ok:") {
				viol("C13/cookie-for-unpersisted-session", "%s left the browser with a new session cookie whose session is %s in the store", q.What, q.NewCookie)
			}
		case q.What == "fresh browser: GET /page":
			fresh = q.Class + ":" + q.UpEmail
		case q.What == "GET /ready (healthy)":
			if q.Status != 200 && r.rd != nil {
				viol("C13/not-serving-after-store-faults", "readiness is %d with a healthy store after faults %v", q.Status, res.Faults)
			}
		}
	}
	if !r.closed && fresh != "authenticated:bob@other.org" {
		viol("C13/not-serving-after-store-faults", "a new login against the healthy store after faults %v ended as %q", res.Faults, fresh)
	}
}

// ---------------------------------------------------------------------------------------------
// exploration

type c13Replay struct {
	Scenario c13Scenario `json:"scenario"`
	Choices  []int       `json:"choices"`
	Faults   []c13Fault  `json:"faults"`
	Observed *c13Result  `json:"observed,omitempty"`
}

// sets whose union over all shard processes is counted by the parent (Info keys merge as a union)
const c13SetPrefix = "\x00set\x00"

func c13CountSets(c *Ctx) {
	for k := range c.Info {
		if strings.HasPrefix(k, c13SetPrefix) {
			name := strings.SplitN(strings.TrimPrefix(k, c13SetPrefix), "\x00", 2)[0]
			c.Counters[name]++
			delete(c.Info, k)
		}
	}
}

// c13Ops renders a store-call sequence with runs collapsed (OBTAIN*500).
func c13Ops(ops []string) string {
	var b strings.Builder
	for i := 0; i < len(ops); {
		j := i
		for j < len(ops) && ops[j] == ops[i] {
			j++
		}
		if b.Len() > 0 {
			b.WriteString(",")
		}
		b.WriteString(ops[i])
		if j-i > 2 {
			fmt.Fprintf(&b, "*%d", j-i)
		} else if j-i == 2 {
			b.WriteString("," + ops[i])
		}
		i = j
	}
	return b.String()
}

func c13Signature(res *c13Result) string {
	var b strings.Builder
	for _, q := range res.Reqs {
		fmt.Fprintf(&b, "%s=%s/%d/%s/%s;", q.Kind, q.Class, q.Status, q.SetCookie, c13Ops(q.Ops))
	}
	b.WriteString("|")
	for _, q := range res.Follow {
		fmt.Fprintf(&b, "%s;", q.Class)
	}
	return b.String()
}

// c13Size orders counterexamples: fewer faults, shorter scenario, earlier position, simpler kind.
func c13Size(sc c13Scenario, res *c13Result) int {
	n := len(res.Faults)*100000 + (len(sc.Setup)+len(sc.Faulted))*10000 + len(res.Choices)*100
	for _, ch := range res.Choices {
		n += ch
	}
	return n
}

func c13FaultKey(sc c13Scenario, fs []c13Fault) string {
	var b strings.Builder
	b.WriteString(sc.Name)
	for _, f := range fs {
		b.WriteString(" " + f.Pos + ":" + f.Kind)
	}
	return b.String()
}

// finding key -> size of the simplest case of it confirmed (5/5 re-executions) in this process
var c13Confirmed = map[string]int{}

func c13Explore(c *Ctx, env *c13Env, sc c13Scenario) {
	var rootSig string
	haveRoot := false
	cfg := explore.Config{MaxCost: sc.Bound, Deadline: c.Deadline, Stop: c13Wedged.Load}
	if sc.Spread {
		cfg.Shard, cfg.Shards, cfg.ShardDeviations = c.Shard, c.Shards, 2
	}
	stats := explore.Run(cfg, func(x *explore.Exec, own bool) {
		res := c13Exec(env, c.Seed, sc, x)
		if !own {
			return
		}
		c.Inc("evaluations")
		c.Inc(fmt.Sprintf("executions_with_%d_faults", len(res.Faults)))
		if res.FixtureErr != "" {
			c.Error("fixture failed in %q choices %v: %s", sc.Name, res.Choices, res.FixtureErr)
			return
		}
		c.Add("environment_retries", int64(res.Retries))
		if strings.HasPrefix(res.EnvErr, "INCONCLUSIVE") {
			c.Inc("executions_given_up_request_never_returned")
			c.Unstable("%q choices %v: %s", sc.Name, res.Choices, res.EnvErr)
			return
		}
		if res.EnvErr != "" {
			c.Error("environment: %q choices %v: %s", sc.Name, res.Choices, res.EnvErr)
			return
		}
		for op := range res.opsSeen {
			c.Inc("op_seen_" + op)
		}
		if len(res.Faults) != len(res.Offered) {
			c.Inc("executions_with_undeliverable_fault")
		}
		if len(res.Faults) > 0 {
			if c.Distinct("distinct_nontrivial", c13FaultKey(sc, res.Faults)) {
				for _, f := range res.Faults {
					c.Inc("delivered_" + f.Op + "_" + f.Kind)
				}
			}
			for _, f := range res.Faults {
				c.Info[c13SetPrefix+"distinct_fault_positions\x00"+sc.Name+" "+f.Pos] = 1
			}
		}
		c.Info[c13SetPrefix+"distinct_outcomes\x00"+sc.Name+"|"+c13Signature(res)] = 1
		for _, q := range res.Reqs {
			c.Inc("faulted_phase_requests")
			if len(q.Faults) > 0 {
				c.Inc("requests_hit_by_a_fault_" + q.Class)
			}
		}
		c.Add("ambiguous", int64(len(res.Ambiguous)))
		for _, so := range res.Follow {
			if strings.HasPrefix(so.What, "replay of the pre-sign-out cookie") {
				c.Inc("signout_replays_checked")
			}
		}
		if len(res.Faults) == 0 {
			// the 0-fault execution must do what the scenario is named after
			last := res.Reqs[len(res.Reqs)-1]
			if sc.Expect != "" && last.Class != sc.Expect {
				c.Error("scenario %q without faults ends as %q, expected %q (status %d)", sc.Name, last.Class, sc.Expect, last.Status)
			}
			if strings.HasPrefix(sc.Name, "refresh") && res.Grants != 1 {
				c.Error("scenario %q without faults did %d refresh grants, expected 1", sc.Name, res.Grants)
			}
			if !haveRoot {
				haveRoot = true
				rootSig = c13Signature(res)
				var ops []string
				for _, q := range res.Reqs {
					ops = append(ops, q.Ops...)
				}
				c.Info["store_calls_without_faults: "+sc.Name] = strings.Join(ops, " ")
				c.Sample(1, map[string]any{"scenario": sc.Name, "faults": []c13Fault{}, "store_calls": strings.Join(ops, " "), "outcome": rootSig})
			}
		} else if len(res.Faults) == sc.Bound && sc.Bound > 0 {
			c.Sample(2, map[string]any{"scenario": sc.Name, "faults": res.Faults, "outcome": c13Signature(res), "violations": len(res.Viol)})
		}
		seen := map[string]bool{}
		for _, v := range res.Viol {
			key, msg := v[0], v[1]
			if seen[key] {
				continue
			}
			seen[key] = true
			choices := append([]int(nil), res.Choices...)
			size := c13Size(sc, res)
			full := fmt.Sprintf("scenario %q: %s", sc.Name, msg)
			rp := c13Replay{Scenario: sc, Choices: choices, Faults: res.Faults}
			if best, ok := c13Confirmed[key]; ok && size >= best {
				// this finding is already confirmed by a simpler case: count the further one
				c.Violate(key, full, size, rp)
				continue
			}
			before := len(c.Errors)
			c.confirm(key, full, size, rp,
				func() (string, bool) {
					r2 := c13Exec(env, c.Seed, sc, explore.Replay(choices, nil))
					for _, v2 := range r2.Viol {
						if v2[0] == key {
							return key, true
						}
					}
					return "", false
				})
			if len(c.Errors) == before {
				c13Confirmed[key] = size
			}
		}
	})
	c.SetMax("max_choice_depth", int64(stats.MaxDepth))
	c.SetMax("max_faults_per_execution", int64(stats.LevelCompleted))
	if !stats.Exhaustive {
		c.Exhaustive = false
		c.Note("scenario %q: fault level completed %d of %d", sc.Name, stats.LevelCompleted, sc.Bound)
	}
	// determinism: the 0-fault execution replayed twice gives the same observation
	if haveRoot {
		for i := 0; i < 2; i++ {
			r2 := c13Exec(env, c.Seed, sc, explore.Replay(nil, nil))
			if s := c13Signature(r2); s != rootSig {
				c.Unstable("replay divergence in %q: %s vs %s", sc.Name, rootSig, s)
			}
		}
	}
}

func init() {
	register(&checkDef{
		id:    "C13",
		level: "fault_enumeration",
		rule: "every store call (GET SET DEL PING OBTAIN RELEASE) reached in the scenarios login callback, authenticated request, refresh, sign-out, readiness probe (plus store-unreachable variants and one whole-life journey) x every fault kind of that operation " +
			"(error before effect, lost reply, missing key, byte flip first/middle/last, truncation to 0,1,11,12,13,27,28,len-1 bytes, lock not obtained once/forever), singly, in pairs and deeper up to the recorded bound; " +
			"non-trivial = a distinct (scenario, position, kind[, further faults]) combination whose faults were all actually delivered to the proxy",
		assumptions: []string{
			"faults are injected at the store client interface (persistence.Manager.Store.Client) in front of a real go-redis client and miniredis; failures inside go-redis itself are represented by the error it would return",
			"'times out' is represented by an error returned after the operation took effect (lost reply); no real waiting",
			"a request whose session was loaded intact but whose refresh write or lock release failed may still be served (counted as ambiguous): the stored-session middleware documents that a failed preemptive refresh keeps a session that still validates",
			"'not obtained forever' is explored alone, not combined with other faults",
			"in an uninterrupted run of OBTAIN calls (retry loop waiting for a lock that an earlier fault left behind) only the first 3 calls are fault positions",
			"the session cookie is inspected with the configured cookie secret and the per-ticket secret (the harness plays the operator)",
		},
		shards: func(tier string) int { return 16 },
		run: func(c *Ctx) {
			env := c13NewEnv()
			defer env.up.Close()
			scs := c13Scenarios(c.Quick())
			c.Info["scenarios"] = len(scs)
			alpha := map[string]int{}
			for _, op := range []string{"GET", "SET", "DEL", "PING", "OBTAIN", "RELEASE", "REFRESH", "PEEK"} {
				alpha[op] = len(c13Kinds(op))
			}
			c.Info["fault_kinds_per_operation"] = alpha
			bounds := map[string]int{}
			for _, sc := range scs {
				bounds[sc.Name] = sc.Bound
			}
			c.Info["fault_bound_per_scenario"] = bounds
			only := int(envInt("VERIF_ONLY", -1))
			n := 0
			for i, sc := range scs {
				if only >= 0 && i != only {
					continue
				}
				if !sc.Spread {
					n++
					if !c.Mine(n) {
						continue
					}
				}
				if c.Expired() {
					return
				}
				c13Explore(c, env, sc)
			}
		},
		finish: c13CountSets,
		post: func(c *Ctx) {
			for _, op := range c13ExpectedOps {
				if c.Counters["op_seen_"+op] == 0 {
					c.Error("vacuous: no execution performed a %s", op)
				}
				for _, k := range c13Kinds(op) {
					if c.Counters["delivered_"+op+"_"+k] == 0 {
						c.Error("vacuous: fault kind %s of %s was never delivered", k, op)
					}
				}
			}
			rejected := c.Counters["requests_hit_by_a_fault_rejected"] + c.Counters["requests_hit_by_a_fault_error"] + c.Counters["requests_hit_by_a_fault_not-ready"] + c.Counters["requests_hit_by_a_fault_panic"]
			if c.Counters["requests_hit_by_a_fault_authenticated"] == 0 || rejected == 0 {
				c.Error("vacuous: faulted requests must be seen both served (harmless fault) and refused")
			}
			if c.Counters["signout_replays_checked"] == 0 {
				c.Error("vacuous: no sign-out was answered with the success redirect and replayed")
			}
		},
		replay: func(c *Ctx, raw json.RawMessage) string {
			var rp c13Replay
			if err := json.Unmarshal(raw, &rp); err != nil {
				return err.Error()
			}
			env := c13NewEnv()
			defer env.up.Close()
			res := c13Exec(env, c.Seed, rp.Scenario, explore.Replay(rp.Choices, nil))
			for _, v := range res.Viol {
				c.Violate(v[0], v[1], 1, rp)
			}
			var b strings.Builder
			fmt.Fprintf(&b, "faults delivered %v;", res.Faults)
			for _, q := range res.Reqs {
				fmt.Fprintf(&b, " [%s -> %d %s ops=%s set-cookie=%q panic=%q]", q.What, q.Status, q.Class, strings.Join(q.Ops, ","), q.SetCookie, q.PanicSite)
			}
			for _, q := range res.Follow {
				fmt.Fprintf(&b, " {%s -> %d %s}", q.What, q.Status, q.Class)
			}
			fmt.Fprintf(&b, " violations=%d", len(res.Viol))
			return b.String()
		},
	})
}
