//go:build verif

package main

import (
	"encoding/json"
	"fmt"
	"net/http"
	"net/http/httptest"
	"sort"
	"strings"
	"time"

	sessionsapi "github.com/oauth2-proxy/oauth2-proxy/v7/pkg/apis/sessions"
	"github.com/oauth2-proxy/oauth2-proxy/v7/verifx/world"
)

// "Two requests in flight" scenario lists for C02, C09, C16 and C18 (exploration and oracle:
// conc_util_test.go). Each list pairs a request the property wants answered one way with a request it
// wants answered the other way, so that both the sequential orders (a verdict remembered from the
// first request) and the interleavings (a value shared between two statements) are covered.

func concMint(px *Proxy, s *sessionsapi.SessionState, host string) (string, error) {
	if s.CreatedAt == nil {
		s.CreatedAtNow()
	}
	rec := httptest.NewRecorder()
	req := httptest.NewRequest("GET", "http://"+host+"/", nil)
	if err := verifSessionStore(px.P).Save(rec, req, s); err != nil {
		return "", err
	}
	jar := world.NewJar()
	jar.SetCookies("http", host, "/", rec.Header())
	return jar.Header("http", host, "/"), nil
}

func concIdentityView(up *world.Upstream) (reset func(), view func(i int, r *world.Resp) string) {
	var log []*world.UpReq
	reset = func() { up.Take(); log = nil }
	view = func(i int, r *world.Resp) string {
		log = append(log, up.Take()...)
		seen := "not-forwarded"
		for _, u := range log {
			if u.Header.Get("X-Req") == fmt.Sprint(i) {
				seen = fmt.Sprintf("upstream(user=%s,email=%s)", u.Header.Get("X-Forwarded-User"), u.Header.Get("X-Forwarded-Email"))
			}
		}
		body := ""
		if strings.HasPrefix(strings.TrimSpace(r.Body), "{") {
			body = strings.TrimSpace(r.Body)
		}
		var cleared []string
		for _, ck := range r.Cookies() {
			if ck.MaxAge < 0 {
				cleared = append(cleared, ck.Name)
			}
		}
		sort.Strings(cleared)
		return fmt.Sprintf("status=%d %s body=%s cleared=%v", r.Status, seen, body, cleared)
	}
	return
}

// ---- C02: an altered cookie while (or after) the genuine one is being honoured

func c02ConcScenarios(up *world.Upstream) []*concScenario {
	type w02 struct {
		px, rx *Proxy
		redis  *world.Redis
		ck     map[string]string
	}
	var w *w02
	get := func() (*w02, string) {
		if w != nil {
			return w, ""
		}
		world.NewIdP()
		flags := append(baseFlags(up.URL()), "--email-domain=*", "--cookie-secure=false", "--cookie-refresh=0")
		px, err := buildProxy(&ProxyCfg{Flags: flags})
		if err != nil {
			return nil, err.Error()
		}
		x := &w02{px: px, ck: map[string]string{}, redis: world.NewRedis()}
		if x.rx, err = buildProxy(&ProxyCfg{Flags: flags, Redis: x.redis}); err != nil {
			return nil, err.Error()
		}
		for _, who := range []string{"alice", "bobby"} {
			for name, p := range map[string]*Proxy{"cookie:": x.px, "redis:": x.rx} {
				c, err := concMint(p, &sessionsapi.SessionState{User: who + "-sub", Email: who + "@example.com", AccessToken: "at-" + who}, "app.example.com")
				if err != nil {
					return nil, err.Error()
				}
				x.ck[name+who] = c
			}
		}
		w = x
		return w, ""
	}
	split := func(hdr string) (name, v string) {
		i := strings.IndexByte(hdr, '=')
		return hdr[:i], hdr[i+1:]
	}
	alter := func(how string, x *w02, store string) string {
		name, a := split(x.ck[store+"alice"])
		_, b := split(x.ck[store+"bobby"])
		pa, pb := strings.Split(a, "|"), strings.Split(b, "|")
		switch how {
		case "tail": // last ciphertext byte changed, name / timestamp / signature genuine
			return name + "=" + c03TamperTail(a)
		case "recombined": // alice's value with bobby's timestamp and signature
			return name + "=" + pa[0] + "|" + pb[1] + "|" + pb[2]
		case "value-swapped": // bobby's value under alice's timestamp and signature
			return name + "=" + pb[0] + "|" + pa[1] + "|" + pa[2]
		case "unsigned":
			return name + "=" + pa[0] + "|" + pa[1] + "|"
		}
		panic(how)
	}
	reset, view := concIdentityView(up)
	mk := func(store, how, target string) *concScenario {
		return &concScenario{Name: fmt.Sprintf("%s genuine | %s on %s", store, how, target), prepare: func() (http.Handler, [2]*world.Req, func(int, *world.Resp) string, string) {
			x, err := get()
			if err != "" {
				return nil, [2]*world.Req{}, nil, err
			}
			reset()
			px := x.px
			if store == "redis:" {
				px = x.rx
			}
			r := func(i int, cookie string) *world.Req {
				return &world.Req{Method: "GET", Target: target, Host: "app.example.com", Headers: [][2]string{{"Cookie", cookie}, {"X-Req", fmt.Sprint(i)}}}
			}
			return px.H, [2]*world.Req{r(0, x.ck[store+"alice"]), r(1, alter(how, x, store))}, view, ""
		}}
	}
	var scs []*concScenario
	// two genuine cookies of two users: each decodes to its own session
	for _, store := range []string{"cookie:", "redis:"} {
		store := store
		scs = append(scs, &concScenario{Name: store + " genuine alice | genuine bobby on /oauth2/userinfo", prepare: func() (http.Handler, [2]*world.Req, func(int, *world.Resp) string, string) {
			x, err := get()
			if err != "" {
				return nil, [2]*world.Req{}, nil, err
			}
			reset()
			px := x.px
			if store == "redis:" {
				px = x.rx
			}
			r := func(i int, cookie string) *world.Req {
				return &world.Req{Method: "GET", Target: "/oauth2/userinfo", Host: "app.example.com", Headers: [][2]string{{"Cookie", cookie}, {"X-Req", fmt.Sprint(i)}}}
			}
			return px.H, [2]*world.Req{r(0, x.ck[store+"alice"]), r(1, x.ck[store+"bobby"])}, view, ""
		}})
	}
	for _, store := range []string{"cookie:", "redis:"} {
		for _, how := range []string{"tail", "recombined", "value-swapped", "unsigned"} {
			scs = append(scs, mk(store, how, "/oauth2/userinfo"))
		}
		scs = append(scs, mk(store, "tail", "/app"))
	}
	return scs
}

// ---- C09: an expired session while a valid one is being honoured

func c09ConcScenarios(up *world.Upstream) []*concScenario {
	type w09 struct {
		px           *Proxy
		old, fresh   string
		preparedOnce bool
	}
	var w *w09
	reset, view := concIdentityView(up)
	get := func() (*w09, string) {
		if w != nil {
			return w, ""
		}
		world.NewIdP()
		world.ResetClock()
		px, err := buildProxy(&ProxyCfg{Flags: append(baseFlags(up.URL()), "--email-domain=*", "--cookie-secure=false", "--cookie-refresh=0", "--cookie-expire=2h")})
		if err != nil {
			return nil, err.Error()
		}
		x := &w09{px: px}
		if x.old, err = concMint(px, &sessionsapi.SessionState{User: "alice-sub", Email: "alice@example.com", AccessToken: "at-alice"}, "app.example.com"); err != nil {
			return nil, err.Error()
		}
		world.Advance(2*time.Hour + time.Minute)
		if x.fresh, err = concMint(px, &sessionsapi.SessionState{User: "bobby-sub", Email: "bobby@example.com", AccessToken: "at-bobby"}, "app.example.com"); err != nil {
			return nil, err.Error()
		}
		w = x
		return w, ""
	}
	mk := func(target string) *concScenario {
		return &concScenario{Name: "valid session | session issued 2h01m ago (cookie-expire 2h) on " + target, prepare: func() (http.Handler, [2]*world.Req, func(int, *world.Resp) string, string) {
			x, err := get()
			if err != "" {
				return nil, [2]*world.Req{}, nil, err
			}
			reset()
			r := func(i int, cookie string) *world.Req {
				return &world.Req{Method: "GET", Target: target, Host: "app.example.com", Headers: [][2]string{{"Cookie", cookie}, {"X-Req", fmt.Sprint(i)}}}
			}
			return x.px.H, [2]*world.Req{r(0, x.fresh), r(1, x.old)}, view, ""
		}}
	}
	return []*concScenario{mk("/oauth2/userinfo"), mk("/app"), mk("/oauth2/auth")}
}

// ---- C16: forwarding headers on one request, none (or others) on the other

func c16ConcScenarios(up *world.Upstream) []*concScenario {
	type w16 struct{ off, on *Proxy }
	var w *w16
	get := func() (*w16, string) {
		if w != nil {
			return w, ""
		}
		world.NewIdP()
		flags := append(baseFlags(up.URL()), "--email-domain=*", "--cookie-secure=false", "--cookie-domain=app.example.com", "--cookie-domain=evil.example.net", "--whitelist-domain=.example.net", "--skip-auth-route=^/pub")
		off, err := buildProxy(&ProxyCfg{Flags: flags})
		if err != nil {
			return nil, err.Error()
		}
		on, err := buildProxy(&ProxyCfg{Flags: append(append([]string{}, flags...), "--reverse-proxy=true")})
		if err != nil {
			return nil, err.Error()
		}
		w = &w16{off: off, on: on}
		return w, ""
	}
	view := func(_ int, r *world.Resp) string {
		loc := r.Location()
		if strings.HasPrefix(loc, world.Issuer+"/authorize") {
			// keep what depends on how the request was seen: the redirect URI and the state's redirect
			if i := strings.Index(loc, "redirect_uri="); i >= 0 {
				ru := loc[i:]
				if j := strings.IndexByte(ru, '&'); j >= 0 {
					ru = ru[:j]
				}
				st := ""
				if k := strings.Index(loc, "state="); k >= 0 {
					st = loc[k:]
					if j := strings.IndexByte(st, '&'); j >= 0 {
						st = st[:j]
					}
					if c := strings.Index(st, "%3A"); c >= 0 {
						st = st[c:]
					}
				}
				loc = "idp-authorize " + ru + " state-redirect" + st
			}
		}
		var cks []string
		for _, ck := range r.Cookies() {
			cks = append(cks, fmt.Sprintf("%s;domain=%s;secure=%v", ck.Name, ck.Domain, ck.Secure))
		}
		sort.Strings(cks)
		return fmt.Sprintf("status=%d location=%s cookies=%v", r.Status, loc, cks)
	}
	fwd := [][2]string{{"X-Forwarded-Host", "evil.example.net"}, {"X-Forwarded-Proto", "https"}, {"X-Forwarded-Uri", "/pub/x"}, {"X-Forwarded-For", "10.0.0.1"}}
	fwd2 := [][2]string{{"X-Forwarded-Host", "other.example.net"}, {"X-Forwarded-Proto", "http"}, {"X-Forwarded-Uri", "/private/y"}}
	mk := func(name string, px func(x *w16) *Proxy, target string, a, b [][2]string) *concScenario {
		return &concScenario{Name: name + " on " + target, prepare: func() (http.Handler, [2]*world.Req, func(int, *world.Resp) string, string) {
			x, err := get()
			if err != "" {
				return nil, [2]*world.Req{}, nil, err
			}
			up.Take()
			return px(x).H, [2]*world.Req{
				{Method: "GET", Target: target, Host: "app.example.com", Headers: a},
				{Method: "GET", Target: target, Host: "app.example.com", Headers: b}}, view, ""
		}}
	}
	off := func(x *w16) *Proxy { return x.off }
	on := func(x *w16) *Proxy { return x.on }
	var scs []*concScenario
	for _, t := range []string{"/oauth2/start?rd=%2Fpage", "/private/y", "/oauth2/auth", "/oauth2/sign_out?rd=https%3A%2F%2Fa.example.net%2F"} {
		scs = append(scs, mk("reverse-proxy off: forwarding headers | none", off, t, fwd, nil))
		scs = append(scs, mk("reverse-proxy on: forwarding headers | other forwarding headers", on, t, fwd, fwd2))
	}
	scs = append(scs, mk("reverse-proxy on: forwarding headers | none", on, "/oauth2/start?rd=%2Fpage", fwd, nil))
	return scs
}

// ---- C18: cookies for two hosts that select different cookie domains

func c18ConcScenarios(up *world.Upstream) []*concScenario {
	var px *Proxy
	get := func() (*Proxy, string) {
		if px != nil {
			return px, ""
		}
		world.NewIdP()
		p, err := buildProxy(&ProxyCfg{Flags: append(baseFlags(up.URL()), "--email-domain=*", "--cookie-secure=false", "--cookie-domain=a.example.com", "--cookie-domain=example.org",
			"--cookie-path=/", "--cookie-samesite=lax", "--cookie-csrf-per-request=true")})
		if err != nil {
			return nil, err.Error()
		}
		px = p
		return px, ""
	}
	view := func(_ int, r *world.Resp) string {
		var lines []string
		for _, l := range r.SetCookieLines() {
			// name and attributes; the value is random per request
			name, rest, _ := strings.Cut(l, "=")
			if i := strings.IndexByte(name, '_'); strings.HasSuffix(name, "_csrf") && i >= 0 {
				name = "<csrf>"
			}
			_, attrs, _ := strings.Cut(rest, ";")
			var as []string
			for _, a := range strings.Split(attrs, ";") {
				a = strings.TrimSpace(a)
				if strings.HasPrefix(strings.ToLower(a), "expires=") {
					continue
				}
				as = append(as, a)
			}
			lines = append(lines, name+" ["+strings.Join(as, "; ")+"]")
		}
		sort.Strings(lines)
		return fmt.Sprintf("status=%d set-cookie=%v", r.Status, lines)
	}
	mk := func(target, hostA, hostB string) *concScenario {
		return &concScenario{Name: fmt.Sprintf("%s for %s | %s", target, hostA, hostB), prepare: func() (http.Handler, [2]*world.Req, func(int, *world.Resp) string, string) {
			p, err := get()
			if err != "" {
				return nil, [2]*world.Req{}, nil, err
			}
			// a session cookie is presented so that the clearing paths have something to delete
			ck := [][2]string{{"Cookie", "_oauth2_proxy=bm90LWEtc2Vzc2lvbg==|1|x; _oauth2_proxy_1=cGFydA=="}}
			return p.H, [2]*world.Req{{Method: "GET", Target: target, Host: hostA, Headers: ck}, {Method: "GET", Target: target, Host: hostB, Headers: ck}}, view, ""
		}}
	}
	var scs []*concScenario
	for _, t := range []string{"/oauth2/start?rd=%2Fpage", "/oauth2/sign_out", "/oauth2/sign_in", "/page"} {
		scs = append(scs, mk(t, "app.a.example.com", "www.example.org"))
		scs = append(scs, mk(t, "app.a.example.com", "unrelated.example.net"))
	}
	return scs
}

// ---- C04: bearer tokens of two users (main issuer and extra issuer) verified at the same time

func c04ConcScenarios(up *world.Upstream) []*concScenario {
	type w04 struct {
		px  *Proxy
		tok map[string]string
	}
	var w *w04
	reset, view := concIdentityView(up)
	get := func() (*w04, string) {
		if w != nil {
			return w, ""
		}
		idp := world.NewIdP()
		px, err := buildProxy(&ProxyCfg{Flags: append(baseFlags(up.URL()), "--email-domain=*", "--cookie-secure=false", "--skip-jwt-bearer-tokens=true",
			"--extra-jwt-issuers="+world.Issuer2+"=api-aud", "--pass-user-headers=true")})
		if err != nil {
			return nil, err.Error()
		}
		x := &w04{px: px, tok: map[string]string{}}
		for _, u := range []string{"alice", "bob"} {
			x.tok["main:"+u] = idp.MintIDToken(idp.Users[u], &world.TokenSpec{DropNonce: true})
			x.tok["extra:"+u] = idp.MintIDToken(idp.Users[u], &world.TokenSpec{DropNonce: true, Signer: "issuer2", Audience: "api-aud"})
		}
		// a service token of the extra issuer without e-mail and groups
		x.tok["extra:svc"] = idp.MintIDToken(idp.Users["alice"], &world.TokenSpec{DropNonce: true, Signer: "issuer2", Audience: "api-aud",
			Claims: map[string]any{"sub": "svc-42", "email": nil, "groups": nil, "preferred_username": nil, "email_verified": nil}})
		// tokens that must be refused: wrong audience for each verifier
		x.tok["main:wrong-aud"] = idp.MintIDToken(idp.Users["bob"], &world.TokenSpec{DropNonce: true, Audience: "someone-else"})
		x.tok["extra:wrong-aud"] = idp.MintIDToken(idp.Users["bob"], &world.TokenSpec{DropNonce: true, Signer: "issuer2", Audience: "someone-else"})
		w = x
		return w, ""
	}
	mk := func(a, b, target string) *concScenario {
		return &concScenario{Name: fmt.Sprintf("bearer %s | bearer %s on %s", a, b, target), prepare: func() (http.Handler, [2]*world.Req, func(int, *world.Resp) string, string) {
			x, err := get()
			if err != "" {
				return nil, [2]*world.Req{}, nil, err
			}
			reset()
			r := func(i int, k string) *world.Req {
				return &world.Req{Method: "GET", Target: target, Host: "app.example.com", Headers: [][2]string{{"Authorization", "Bearer " + x.tok[k]}, {"X-Req", fmt.Sprint(i)}}}
			}
			return x.px.H, [2]*world.Req{r(0, a), r(1, b)}, view, ""
		}}
	}
	var scs []*concScenario
	for _, t := range []string{"/oauth2/userinfo", "/app"} {
		scs = append(scs, mk("main:alice", "main:bob", t), mk("extra:alice", "extra:bob", t), mk("extra:alice", "extra:svc", t),
			mk("main:alice", "main:wrong-aud", t), mk("extra:alice", "extra:wrong-aud", t), mk("main:alice", "extra:bob", t))
	}
	return scs
}

// concReplayFor dispatches a recorded concurrent case of one of the four lists.
// concEvery: the packages scheduled at every statement, per property.
var concEvery = map[string][]string{
	"C02": {"pkg/encryption", "pkg/sessions/cookie", "pkg/sessions/persistence", "pkg/apis/sessions", "pkg/cookies"},
	"C04": {"pkg/apis/middleware", "pkg/providers/oidc", "pkg/middleware"},
	"C06": {"pkg/app/redirect", "pkg/app/pagewriter"},
	"C08": {"pkg/util"},
	"C09": {"pkg/encryption", "pkg/sessions/cookie", "pkg/cookies"},
	"C16": {"pkg/requests/util", "pkg/cookies"},
	"C18": {"pkg/cookies", "pkg/sessions/cookie"},
}

func concReplayFor(c *Ctx, id string, raw json.RawMessage) (string, bool) {
	var cr0 concReplay
	if json.Unmarshal(raw, &cr0) != nil || cr0.Kind != concKind {
		return "", false
	}
	up := world.NewUpstream("conc")
	defer up.Close()
	var scs []*concScenario
	switch id {
	case "C02":
		scs = c02ConcScenarios(up)
	case "C04":
		scs = c04ConcScenarios(up)
	case "C09":
		scs = c09ConcScenarios(up)
	case "C16":
		scs = c16ConcScenarios(up)
	case "C18":
		scs = c18ConcScenarios(up)
	}
	return concReplayOne(c, id, scs, cr0, concEvery[id]...), true
}

func concRunFor(c *Ctx, id string) {
	up := world.NewUpstream("conc")
	defer up.Close()
	switch id {
	case "C02":
		concExplore(c, id, c02ConcScenarios(up), 1, 2, concEvery[id]...)
	case "C04":
		concExplore(c, id, c04ConcScenarios(up), 1, 2, concEvery[id]...)
	case "C09":
		concExplore(c, id, c09ConcScenarios(up), 1, 2, concEvery[id]...)
	case "C16":
		concExplore(c, id, c16ConcScenarios(up), 1, 2, concEvery[id]...)
	case "C18":
		concExplore(c, id, c18ConcScenarios(up), 1, 2, concEvery[id]...)
	}
	world.ResetClock()
}
