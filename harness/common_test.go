//go:build verif

package main

import (
	"encoding/json"
	"fmt"
	"io"
	"net/http"
	"net/url"
	"os"
	"os/exec"
	"path/filepath"
	"runtime/pprof"
	"sort"
	"strconv"
	"strings"
	"sync"
	"testing"
	"time"

	"github.com/oauth2-proxy/oauth2-proxy/v7/pkg/apis/options"
	sessionsapi "github.com/oauth2-proxy/oauth2-proxy/v7/pkg/apis/sessions"
	"github.com/oauth2-proxy/oauth2-proxy/v7/pkg/logger"
	"github.com/oauth2-proxy/oauth2-proxy/v7/pkg/sessions/persistence"
	redisstore "github.com/oauth2-proxy/oauth2-proxy/v7/pkg/sessions/redis"
	"github.com/oauth2-proxy/oauth2-proxy/v7/pkg/validation"
	"github.com/oauth2-proxy/oauth2-proxy/v7/verifx/evidence"
	"github.com/oauth2-proxy/oauth2-proxy/v7/verifx/vtime"
	"github.com/oauth2-proxy/oauth2-proxy/v7/verifx/world"
	"github.com/spf13/pflag"
	"reflect"
	"unsafe"
)

// ---------------------------------------------------------------------------------------------
// check registry and process orchestration

type checkDef struct {
	id          string
	level       string // manifest category
	rule        string
	assumptions []string
	shards      func(tier string) int
	run         func(c *Ctx)
	replay      func(c *Ctx, raw json.RawMessage) string
	// post (optional) runs once in the parent on the merged counters of all shards, before the
	// evidence is written: the place for non-vacuity assertions (c.Error) over the whole run.
	post func(c *Ctx)
	// finish (optional): like post, but also runs when the run was not exhaustive.
	finish func(c *Ctx)
}

var checks = map[string]*checkDef{}

func register(d *checkDef) { checks[d.id] = d }

// Ctx is what a check body gets.
type Ctx struct {
	*evidence.Part
	ID       string
	Tier     string
	Seed     int64
	Shard    int
	Shards   int
	Deadline time.Time
	VerifDir string
}

func (c *Ctx) Quick() bool { return c.Tier != "thorough" }

// Mine reports whether case number i belongs to this shard.
func (c *Ctx) Mine(i int) bool { return c.Shards <= 1 || i%c.Shards == c.Shard }

// Expired reports whether the internal deadline has passed (then the run ends with
// exhaustive=false and exit 0).
func (c *Ctx) Expired() bool {
	if time.Now().After(c.Deadline) {
		c.Exhaustive = false
		return true
	}
	return false
}

func envInt(name string, def int64) int64 {
	if v := os.Getenv(name); v != "" {
		if n, err := strconv.ParseInt(v, 10, 64); err == nil {
			return n
		}
	}
	return def
}

func TestMain(m *testing.M) {
	if rr := os.Getenv("VERIF_RACE_RUN"); rr != "" {
		// free-running body inside the -race binary
		quietLogger()
		world.SeedRandom(1, 0)
		world.ResetClock()
		vtime.RealSleep = true
		if f := raceSupplements[rr]; f != nil {
			f()
		}
		if scratchDir != "" {
			os.RemoveAll(scratchDir)
		}
		os.Exit(0)
	}
	id := os.Getenv("VERIF_CHECK")
	if id == "" {
		os.Exit(m.Run())
	}
	os.Exit(runCheck(id))
}

func runCheck(id string) int {
	defer func() {
		if scratchDir != "" {
			os.RemoveAll(scratchDir)
		}
	}()
	d := checks[id]
	if d == nil {
		fmt.Fprintf(os.Stderr, "unknown check %q\n", id)
		return 2
	}
	tier := os.Getenv("VERIF_TIER")
	if tier != "thorough" {
		tier = "quick"
	}
	seed := envInt("VERIF_SEED", 1)
	verifDir := os.Getenv("VERIF_DIR")
	if verifDir == "" {
		verifDir = "/verif"
	}
	deadlineS := envInt("VERIF_DEADLINE_S", 0)
	if deadlineS == 0 {
		deadlineS = 600
		if tier == "thorough" {
			deadlineS = 2400
		}
	}
	start := time.Now()

	if replayPath := os.Getenv("VERIF_REPLAY"); replayPath != "" {
		return runReplay(d, replayPath, verifDir, tier, seed)
	}

	if sh := os.Getenv("VERIF_SHARD"); sh != "" {
		// child: run one shard, write the part
		var i, n int
		fmt.Sscanf(sh, "%d/%d", &i, &n)
		c := &Ctx{Part: evidence.NewPart(), ID: id, Tier: tier, Seed: seed, Shard: i, Shards: n,
			Deadline: start.Add(time.Duration(deadlineS) * time.Second), VerifDir: verifDir}
		runBody(d, c)
		if err := evidence.WritePart(os.Getenv("VERIF_PART"), c.Part); err != nil {
			fmt.Fprintln(os.Stderr, err)
			return 2
		}
		return 0
	}

	n := 1
	if d.shards != nil {
		n = d.shards(tier)
	}
	if max := int(envInt("VERIF_MAXSHARDS", 16)); n > max {
		n = max
	}
	total := evidence.NewPart()
	if n <= 1 {
		c := &Ctx{Part: total, ID: id, Tier: tier, Seed: seed, Shard: 0, Shards: 1,
			Deadline: start.Add(time.Duration(deadlineS) * time.Second), VerifDir: verifDir}
		runBody(d, c)
	} else {
		tmp, err := os.MkdirTemp(filepath.Dir(os.Args[0]), "parts-")
		if err != nil {
			fmt.Fprintln(os.Stderr, err)
			return 2
		}
		defer os.RemoveAll(tmp)
		var wg sync.WaitGroup
		errs := make([]error, n)
		outs := make([][]byte, n)
		for i := 0; i < n; i++ {
			wg.Add(1)
			go func(i int) {
				defer wg.Done()
				cmd := exec.Command(os.Args[0])
				cmd.Env = append(os.Environ(),
					fmt.Sprintf("VERIF_SHARD=%d/%d", i, n),
					"VERIF_PART="+filepath.Join(tmp, fmt.Sprintf("part-%d.json", i)),
					fmt.Sprintf("VERIF_DEADLINE_S=%d", deadlineS),
					"GOMAXPROCS=2")
				outs[i], errs[i] = cmd.CombinedOutput()
			}(i)
		}
		wg.Wait()
		for i := 0; i < n; i++ {
			if errs[i] != nil {
				out := string(outs[i])
				if len(out) > 4000 {
					out = out[len(out)-4000:]
				}
				total.Error("shard %d/%d failed: %v\n%s", i, n, errs[i], out)
				continue
			}
			p, err := evidence.ReadPart(filepath.Join(tmp, fmt.Sprintf("part-%d.json", i)))
			if err != nil {
				total.Error("shard %d/%d: %v", i, n, err)
				continue
			}
			total.Merge(p)
		}
		total.Info["shards"] = n
	}
	if os.Getenv("VERIF_PLAIN") == "1" {
		// check.sh could not build the instrumented tree: scheduler explorations had no statement-level
		// scheduling points and no access records (races invisible); what ran is reported, not as exhaustive
		total.Note("built without access instrumentation (the instrumented tree did not compile): data-race detection and statement-level interleavings were not available")
		total.Exhaustive = false
	}
	if d.post != nil && total.Exhaustive {
		d.post(&Ctx{Part: total, ID: id, Tier: tier, Seed: seed, Shard: 0, Shards: 1, Deadline: start.Add(time.Duration(deadlineS) * time.Second), VerifDir: verifDir})
	}
	if tier == "thorough" {
		runRaceSupplement(&Ctx{Part: total, ID: id, Tier: tier, Seed: seed, Shards: 1, Deadline: start.Add(time.Duration(deadlineS) * time.Second), VerifDir: verifDir}, id)
	}
	if d.finish != nil {
		d.finish(&Ctx{Part: total, ID: id, Tier: tier, Seed: seed, Shard: 0, Shards: n, Deadline: start.Add(time.Duration(deadlineS) * time.Second), VerifDir: verifDir})
	}
	wall := time.Since(start).Seconds()
	code := evidence.Finish(verifDir, id, tier, seed, d.level, d.rule, d.assumptions, total, wall)
	fmt.Printf("check %s tier=%s exit=%d wall=%.1fs exhaustive=%v counters=%s\n", id, tier, code, wall, total.Exhaustive, counterLine(total))
	return code
}

func counterLine(p *evidence.Part) string {
	var ks []string
	for k := range p.Counters {
		ks = append(ks, k)
	}
	sort.Strings(ks)
	var b strings.Builder
	for _, k := range ks {
		fmt.Fprintf(&b, "%s=%d ", k, p.Counters[k])
	}
	return b.String()
}

func runBody(d *checkDef, c *Ctx) {
	if pf := os.Getenv("VERIF_PROFILE"); pf != "" {
		f, err := os.Create(pf)
		if err == nil {
			pprof.StartCPUProfile(f)
			defer pprof.StopCPUProfile()
		}
	}
	defer func() {
		if r := recover(); r != nil {
			buf := make([]byte, 8192)
			buf = buf[:runtimeStack(buf)]
			c.Error("harness panic in %s: %v\n%s", d.id, r, buf)
		}
	}()
	quietLogger()
	world.SeedRandom(c.Seed, 0)
	world.ResetClock()
	d.run(c)
}

func runReplay(d *checkDef, path, verifDir, tier string, seed int64) int {
	b, err := os.ReadFile(path)
	if err != nil {
		fmt.Fprintln(os.Stderr, err)
		return 2
	}
	var f struct {
		Key    string          `json:"key"`
		Msg    string          `json:"msg"`
		Replay json.RawMessage `json:"replay"`
	}
	if err := json.Unmarshal(b, &f); err != nil {
		fmt.Fprintln(os.Stderr, err)
		return 2
	}
	fmt.Printf("replaying %s: recorded: %s\n", f.Key, f.Msg)
	if d.replay == nil {
		fmt.Println("this check has no stand-alone replay function; the replay file documents the failing case")
		return 0
	}
	c := &Ctx{Part: evidence.NewPart(), ID: d.id, Tier: tier, Seed: seed, Shards: 1, Deadline: time.Now().Add(time.Hour), VerifDir: verifDir}
	quietLogger()
	world.SeedRandom(seed, 0)
	world.ResetClock()
	obs := d.replay(c, f.Replay)
	fmt.Printf("observed now: %s\n", obs)
	if len(c.Violations) > 0 {
		for k, v := range c.Violations {
			fmt.Printf("VIOLATION property=%s replay=%s\n  key=%s: %s\n", d.id, path, k, v.Msg)
		}
		return 1
	}
	return 0
}

func quietLogger() {
	logger.SetOutput(io.Discard)
	logger.SetErrOutput(io.Discard)
}

// confirm re-executes a failing case 5 times. A case that fails identically every time is a
// confirmed violation. A case that was observed once on the real code but does not repeat is still
// reported (the observation is real: a request got an answer the property excludes), marked as not
// reproducible: the implementation's answer then depends on state outside the explored world (a
// process-wide cache or pool that survives the fresh proxy, read-ahead randomness, map iteration
// order). On the unchanged tree this never happens (counter unreproducible_violations is 0 in every
// committed run); treating it as a harness error would turn a detection into a broken check.
func (c *Ctx) confirm(key, msg string, size int, replay any, again func() (string, bool)) {
	if again != nil {
		for i := 0; i < 5; i++ {
			k, failed := again()
			if !failed || k != key {
				c.Unstable("case reported %q but re-execution %d gave failed=%v key=%q", key, i, failed, k)
				c.Inc("unreproducible_violations")
				c.Violate(key, "[observed once, did not repeat on re-execution: the answer depends on state outside the explored world] "+msg, size+1<<20, replay)
				return
			}
		}
	}
	c.Violate(key, msg, size, replay)
}

// Unstable records that the implementation (or, on the unchanged tree, the harness) did not behave
// deterministically for identical inputs: counted, noted, and the run is not exhaustive.
func (c *Ctx) Unstable(format string, a ...any) {
	c.Inc("nondeterministic_observations")
	c.Exhaustive = false
	if c.Counters["nondeterministic_observations"] <= 5 {
		c.Note("NONDETERMINISM: "+format, a...)
	}
}

// ---------------------------------------------------------------------------------------------
// building a proxy through the real configuration path

const cookieSecret32 = "0123456789abcdef0123456789abcdef"

// ProxyCfg describes one proxy configuration.
type ProxyCfg struct {
	Flags  []string
	Alpha  string // alpha config YAML (optional)
	Mutate func(o *options.Options)
	Redis  *world.Redis
	NoBase bool
}

// Proxy is a built proxy plus the handles the harness needs.
type Proxy struct {
	P     *OAuthProxy
	Opts  *options.Options
	H     http.Handler
	Redis *world.Redis
	Cfg   *ProxyCfg
}

// verifSessionStore returns the proxy's session store without naming the unexported field: the
// first field of OAuthProxy whose type implements sessions.SessionStore.
func verifSessionStore(p *OAuthProxy) sessionsapi.SessionStore {
	iface := reflect.TypeOf((*sessionsapi.SessionStore)(nil)).Elem()
	rv := reflect.ValueOf(p).Elem()
	for i := 0; i < rv.NumField(); i++ {
		f := rv.Field(i)
		if f.Type().Implements(iface) || (f.Kind() == reflect.Interface && f.Type() == iface) {
			v := reflect.NewAt(f.Type(), unsafe.Pointer(f.UnsafeAddr())).Elem()
			if s, ok := v.Interface().(sessionsapi.SessionStore); ok && s != nil {
				return s
			}
		}
	}
	panic("verif: OAuthProxy has no field holding a session store")
}

func baseFlags(upstreamURL string) []string {
	return []string{
		"--provider=oidc",
		"--oidc-issuer-url=" + world.Issuer,
		"--client-id=" + world.ClientID,
		"--client-secret=" + world.ClientSecret,
		"--cookie-secret=" + cookieSecret32,
		"--http-address=-",
		"--upstream=" + upstreamURL,
	}
}

var tmpSeq int

func tempFile(dir, pattern, content string) string {
	f, err := os.CreateTemp(dir, pattern)
	if err != nil {
		panic(err)
	}
	f.WriteString(content)
	f.Close()
	return f.Name()
}

var scratchDir string

// scratch returns a per-process scratch directory next to the test binary (never /tmp).
func scratch() string {
	if scratchDir == "" {
		// runtime scratch: memory-backed if available (file operations on the disk cost ~1 ms),
		// removed when the check ends
		base := "/dev/shm"
		if st, err := os.Stat(base); err != nil || !st.IsDir() {
			base, _ = filepath.Abs(filepath.Dir(os.Args[0]))
		}
		d, err := os.MkdirTemp(base, "verif-scratch-")
		if err != nil {
			base, _ = filepath.Abs(filepath.Dir(os.Args[0]))
			d, err = os.MkdirTemp(base, "scratch-")
		}
		if err != nil {
			panic(err)
		}
		scratchDir = d
	}
	return scratchDir
}

// buildProxy runs flags -> loadConfiguration -> Validate -> NewValidator -> NewOAuthProxy.
func buildProxy(cfg *ProxyCfg) (*Proxy, error) {
	quietLogger()
	args := append([]string{}, cfg.Flags...)
	if cfg.Redis != nil {
		args = append(args, "--session-store-type=redis", "--redis-connection-url="+cfg.Redis.URL())
	}
	alphaPath := ""
	if cfg.Alpha != "" {
		alphaPath = tempFile(scratch(), "alpha-*.yaml", cfg.Alpha)
		defer os.Remove(alphaPath)
	}
	fs := pflag.NewFlagSet("oauth2-proxy", pflag.ContinueOnError)
	fs.ParseErrorsWhitelist.UnknownFlags = true
	fs.String("config", "", "")
	fs.String("alpha-config", "", "")
	fs.Bool("convert-config-to-alpha", false, "")
	fs.Bool("version", false, "")
	fs.SetOutput(io.Discard)
	_ = fs.Parse(args)
	opts, err := loadConfiguration("", alphaPath, fs, args)
	if err != nil {
		return nil, fmt.Errorf("load: %w", err)
	}
	if cfg.Mutate != nil {
		cfg.Mutate(opts)
	}
	err = validation.Validate(opts)
	quietLogger()
	if err != nil {
		return nil, fmt.Errorf("validate: %w", err)
	}
	validator := NewValidator(opts.EmailDomains, opts.AuthenticatedEmailsFile)
	p, err := NewOAuthProxy(opts, validator)
	if err != nil {
		return nil, fmt.Errorf("new: %w", err)
	}
	px := &Proxy{P: p, Opts: opts, Redis: cfg.Redis, Cfg: cfg}
	px.H = p
	if opts.AllowQuerySemicolons {
		px.H = http.AllowQuerySemicolons(p)
	}
	if cfg.Redis != nil {
		m, ok := verifSessionStore(p).(*persistence.Manager)
		if !ok {
			return nil, fmt.Errorf("redis store is not a persistence.Manager: %T", verifSessionStore(p))
		}
		rs, ok := m.Store.(*redisstore.SessionStore)
		if !ok {
			return nil, fmt.Errorf("manager store is not the redis store: %T", m.Store)
		}
		rs.Client = cfg.Redis.Wrap(rs.Client)
	}
	return px, nil
}

func mustProxy(cfg *ProxyCfg) *Proxy {
	p, err := buildProxy(cfg)
	if err != nil {
		panic(fmt.Sprintf("buildProxy(%v): %v", cfg.Flags, err))
	}
	return p
}

// ---------------------------------------------------------------------------------------------
// a browser driving the proxy

// Browser is a user agent with a jar, talking to one proxy at one origin.
type Browser struct {
	Jar    *world.Jar
	Scheme string
	Host   string
	Remote string
	Px     *Proxy
	Extra  [][2]string // headers added to every request
}

func newBrowser(px *Proxy, scheme, host string) *Browser {
	return &Browser{Jar: world.NewJar(), Scheme: scheme, Host: host, Px: px}
}

func pathOf(target string) string {
	p := target
	if i := strings.IndexAny(p, "?#"); i >= 0 {
		p = p[:i]
	}
	if p == "" {
		p = "/"
	}
	return p
}

// Req builds the request the browser would send (cookies from the jar).
func (b *Browser) Req(method, target string, hdr ...[2]string) *world.Req {
	r := &world.Req{Method: method, Target: target, Host: b.Host, Remote: b.Remote, HTTPS: b.Scheme == "https"}
	r.Headers = append(r.Headers, b.Extra...)
	r.Headers = append(r.Headers, hdr...)
	if ck := b.Jar.Header(b.Scheme, b.Host, pathOf(target)); ck != "" {
		r.Headers = append(r.Headers, [2]string{"Cookie", ck})
	}
	return r
}

// Do sends a request and applies the response's cookies to the jar.
func (b *Browser) Do(r *world.Req) *world.Resp {
	resp := world.Serve(b.Px.H, r)
	b.Jar.SetCookies(b.Scheme, b.Host, pathOf(r.Target), resp.Header)
	return resp
}

func (b *Browser) Get(target string, hdr ...[2]string) *world.Resp {
	return b.Do(b.Req("GET", target, hdr...))
}

func (b *Browser) PostForm(target string, form url.Values, hdr ...[2]string) *world.Resp {
	r := b.Req("POST", target, append(hdr, [2]string{"Content-Type", "application/x-www-form-urlencoded"})...)
	r.Body = form.Encode()
	return b.Do(r)
}

// Login runs start -> provider -> callback for `user`; rd is the page requested before login.
// It returns the callback response and the provider's record of the authorization request.
func (b *Browser) Login(idp *world.IdP, user, rd string) (*world.Resp, *world.AuthRequest, error) {
	start, loginURL, err := b.Start(rd)
	if err != nil {
		return start, nil, err
	}
	cb, a, err := idp.Authorize(loginURL, user)
	if err != nil {
		return start, nil, err
	}
	resp := b.Callback(cb)
	return resp, a, nil
}

// Start requests /oauth2/start and returns the login URL.
func (b *Browser) Start(rd string) (*world.Resp, string, error) {
	t := b.Px.Opts.ProxyPrefix + "/start"
	if rd != "" {
		t += "?rd=" + url.QueryEscape(rd)
	}
	resp := b.Get(t)
	if resp.Status != 302 {
		return resp, "", fmt.Errorf("start: status %d", resp.Status)
	}
	return resp, resp.Location(), nil
}

// Callback follows the provider's redirect back to the proxy.
func (b *Browser) Callback(cbURL string) *world.Resp {
	u, err := url.Parse(cbURL)
	if err != nil {
		panic(err)
	}
	return b.Get(u.RequestURI())
}

func runtimeStack(buf []byte) int { return runtimeStackImpl(buf) }

// ---------------------------------------------------------------------------------------------
// credentials and small fixtures shared by several checks

func shaEntry(pw string) string {
	s := sha1Sum([]byte(pw))
	return "{SHA}" + b64Std(s)
}

// writeHtpasswd writes an htpasswd file with {SHA} entries into the scratch directory.
func writeHtpasswd(users map[string]string) string {
	var names []string
	for u := range users {
		names = append(names, u)
	}
	sort.Strings(names)
	var b strings.Builder
	for _, u := range names {
		fmt.Fprintf(&b, "%s:%s\n", u, shaEntry(users[u]))
	}
	return tempFile(scratch(), "htpasswd-*", b.String())
}

func writeEmails(emails ...string) string {
	return tempFile(scratch(), "emails-*", strings.Join(emails, "\n")+"\n")
}

func basicAuth(user, pw string) string {
	return "Basic " + b64Std([]byte(user+":"+pw))
}

// substitution classes for single-position mutations (C02, C19): another base64 character,
// '=', '|', '.', a digit, '-', '_', '%'
var mutClasses = []string{"b64", "=", "|", ".", "digit", "-", "_", "%"}

func substituteAt(v string, pos int, class string) (string, bool) {
	if pos < 0 || pos >= len(v) {
		return v, false
	}
	var r byte
	switch class {
	case "b64":
		r = 'A'
		if v[pos] == 'A' {
			r = 'B'
		}
	case "digit":
		r = '7'
		if v[pos] == '7' {
			r = '3'
		}
	default:
		r = class[0]
	}
	if v[pos] == r {
		return v, false
	}
	return v[:pos] + string(r) + v[pos+1:], true
}
