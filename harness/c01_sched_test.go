//go:build verif

package main

import (
	"fmt"
	"os"
	"strings"

	"github.com/oauth2-proxy/oauth2-proxy/v7/verifx/explore"
	"github.com/oauth2-proxy/oauth2-proxy/v7/verifx/sched"
	"github.com/oauth2-proxy/oauth2-proxy/v7/verifx/vrt"
	"github.com/oauth2-proxy/oauth2-proxy/v7/verifx/world"
)

// C01 under concurrency. "... only if it carries a session credential ... Every other request gets a
// sign-in page, a redirect, or a 401/403, and no upstream ever sees it." The statement quantifies
// over requests, not over quiet servers: a request without a credential must be refused also while
// a request WITH one is being served by the same process, at whatever point of its processing
// (the request scope, the loaded session, the injectors, a cache are all places where one
// request's authentication could be picked up by another). With the "wide" instrumentation every
// statement of every repository package that touches a field of one of the package's structs
// through a pointer, a map, a package-level variable or a variable captured by a closure is a
// scheduling point; two requests are served by two threads and all interleavings with at most
// `bound` preemptions are explored. Oracle (differential): status, whether and as whom the upstream
// saw the request, and the user-info body are what they are when the request is served alone.

type c01ConcScenario struct {
	Creds [2]string `json:"credentials"`
	Paths [2]string `json:"paths"` // proxied | auth-only | userinfo
}

type c01ConcReplay struct {
	Stmt     bool            `json:"statement_level_scheduling"`
	Kind     string          `json:"kind"`
	Scenario c01ConcScenario `json:"scenario"`
	Choices  []int           `json:"choices"`
	Order    string          `json:"thread_order"`
	What     string          `json:"what"`
}

func c01ConcScenarios(quick bool) []c01ConcScenario {
	var out []c01ConcScenario
	with := []string{"cookie-oidc-alice", "basic-htpasswd", "bearer"}
	paths := []string{"proxied", "auth-only", "userinfo"}
	for wi, w := range with {
		for pi, p := range paths {
			for qi, q := range paths {
				if quick && (wi+pi+qi)%3 != 0 {
					continue
				}
				out = append(out, c01ConcScenario{Creds: [2]string{w, "none"}, Paths: [2]string{p, q}})
			}
		}
	}
	// two different users: neither may be served as the other
	out = append(out, c01ConcScenario{Creds: [2]string{"cookie-oidc-alice", "cookie-oidc-three"}, Paths: [2]string{"userinfo", "userinfo"}})
	out = append(out, c01ConcScenario{Creds: [2]string{"cookie-oidc-alice", "bearer-noemail"}, Paths: [2]string{"proxied", "userinfo"}})
	return out
}

func c01ConcRequest(e *c07Env, sc c01ConcScenario, i int) *world.Req {
	cr := e.cred(sc.Creds[i])
	hdrs := append([][2]string{}, c07ClientHeaders(cr, "none")...)
	hdrs = append(hdrs, [2]string{"X-Req", fmt.Sprint(i)})
	target := map[string]string{"proxied": "/app", "auth-only": "/oauth2/auth", "userinfo": "/oauth2/userinfo"}[sc.Paths[i]]
	return &world.Req{Method: "GET", Target: target, Host: c07Host, Headers: hdrs}
}

type c01ConcView struct {
	Status   int
	Upstream string // "" = not forwarded; else the identity headers the upstream saw
	Body     string // user-info body
}

func c01ConcViews(e *c07Env, sc c01ConcScenario, resps [2]*world.Resp) (v [2]c01ConcView, err string) {
	ups := map[string]string{}
	for _, r := range e.up.Take() {
		k := r.Header.Get("X-Req")
		var id []string
		for _, n := range []string{"X-Forwarded-User", "X-Forwarded-Email", "X-Forwarded-Groups", "X-Forwarded-Preferred-Username", "X-Forwarded-Access-Token", "Authorization"} {
			id = append(id, n+"="+strings.Join(r.Header.Values(n), ","))
		}
		ups[k] += "forwarded{" + strings.Join(id, ";") + "}"
	}
	for i := 0; i < 2; i++ {
		if resps[i] == nil {
			return v, fmt.Sprintf("request %d got no response", i)
		}
		if resps[i].Panic != nil {
			return v, fmt.Sprintf("panic in request %d: %v at %s", i, resps[i].Panic, resps[i].PanicSite())
		}
		v[i].Status = resps[i].Status
		v[i].Upstream = ups[fmt.Sprint(i)]
		if sc.Paths[i] == "userinfo" {
			v[i].Body = strings.TrimSpace(resps[i].Body)
		}
	}
	return v, ""
}

func c01ConcSetup(e *c07Env, sc c01ConcScenario, px *Proxy) (solo [2]c01ConcView, body func(x *explore.Exec) (*sched.Outcome, [2]c01ConcView, string), diff func(v [2]c01ConcView) (string, string), serr string) {
	for i := 0; i < 2; i++ {
		e.up.Take()
		var rs [2]*world.Resp
		rs[i] = world.Serve(px.H, c01ConcRequest(e, sc, i))
		rs[1-i] = &world.Resp{}
		v, err := c01ConcViews(e, sc, rs)
		if err != "" {
			return solo, nil, nil, fmt.Sprintf("request %d alone: %s", i, err)
		}
		solo[i] = v[i]
		cred := sc.Creds[i] != "none"
		served := v[i].Upstream != "" || v[i].Status == 202 || (sc.Paths[i] == "userinfo" && v[i].Status == 200)
		if cred != served {
			return solo, nil, nil, fmt.Sprintf("request %d alone (credential %s, %s): status %d served=%v — the sequential part of C01 judges this; the concurrent part needs the expected baseline", i, sc.Creds[i], sc.Paths[i], v[i].Status, served)
		}
	}
	body = func(x *explore.Exec) (*sched.Outcome, [2]c01ConcView, string) {
		e.up.Take()
		s := sched.New(x, sched.Options{Horizon: 400, MaxSteps: 50000})
		var resps [2]*world.Resp
		for i := 0; i < 2; i++ {
			i := i
			s.Go(fmt.Sprintf("req%d", i), func() { resps[i] = world.Serve(px.H, c01ConcRequest(e, sc, i)) })
		}
		out := s.Run()
		if out.Aborted != "" {
			e.up.Take()
			return out, [2]c01ConcView{}, concAbortText(out)
		}
		v, err := c01ConcViews(e, sc, resps)
		return out, v, err
	}
	diff = func(v [2]c01ConcView) (key, msg string) {
		for i := 0; i < 2; i++ {
			if v[i] == solo[i] {
				continue
			}
			key = "answer-differs-from-serving-alone"
			if sc.Creds[i] == "none" && (v[i].Upstream != "" || v[i].Status == 202 || v[i].Status == 200) {
				key = "request-without-credential-served"
			} else if v[i].Upstream != solo[i].Upstream || v[i].Body != solo[i].Body {
				key = "served-under-another-identity"
			}
			return key, fmt.Sprintf("request %d (credential %s, %s) served concurrently with a request carrying %s: status %d, upstream saw %q, body %q; served alone: status %d, upstream saw %q, body %q",
				i, sc.Creds[i], sc.Paths[i], sc.Creds[1-i], v[i].Status, clipMid(v[i].Upstream, 600), clipMid(v[i].Body, 300), solo[i].Status, clipMid(solo[i].Upstream, 600), clipMid(solo[i].Body, 300))
		}
		return "", ""
	}
	return solo, body, diff, ""
}

func c01ConcProxy(e *c07Env) (*Proxy, error) {
	f := c07Flags{PassUser: true, PassBasic: true, PassAT: true, SetX: true}
	return buildProxy(&ProxyCfg{Flags: append(c07BaseFlags(e), f.args()...)})
}

func c01Concurrent(c *Ctx) {
	if os.Getenv("VERIF_WIDE") != "1" {
		c.Info["concurrent_part"] = "skipped: the wide instrumentation did not build on this tree (see check.sh)"
		c.Note("concurrent part skipped: no wide instrumentation")
		c.Exhaustive = false
		return
	}
	e := c07NewEnv(c)
	defer e.up.Close()
	vrt.Enabled = true
	vrt.AllStatements = map[string]bool{"pkg/middleware": true}
	defer func() { vrt.Enabled = false; vrt.AllStatements = nil }()
	bound := 1
	if !c.Quick() {
		bound = 2
	}
	px, err := c01ConcProxy(e)
	if err != nil {
		c.Error("C01 concurrent: proxy does not build: %v", err)
		return
	}
	scs := c01ConcScenarios(c.Quick())
	c.Info["concurrent_part"] = map[string]any{"scenarios": len(scs), "preemption_bound": bound, "instrumentation": "wide"}
	for si, sc := range scs {
		if c.Expired() {
			return
		}
		sc := sc
		_, body, diff, serr := c01ConcSetup(e, sc, px)
		if serr != "" {
			c.Error("C01 concurrent %+v: %s", sc, serr)
			continue
		}
		every := vrt.AllStatements
		if len(every) > 0 && !concStatementLevelOK(func(x *explore.Exec) { body(x) }) {
			vrt.AllStatements = nil
			c.Inc("conc_scenarios_without_statement_level_scheduling")
			if c.Shard == 0 {
				c.Note("concurrent scenario %+v: statement paths differ between identical executions (map iteration order?): explored with access-based scheduling points only", sc)
			}
		}
		for _, pass := range concPasses(bound, len(vrt.AllStatements) > 0) {
			if !pass.stmt {
				vrt.AllStatements = nil
			}
			stats := explore.Run(explore.Config{Stop: schedStuck, MaxCost: pass.bound, Deadline: c.Deadline, Shard: c.Shard, Shards: c.Shards, ShardDepth: 2, TolerateDivergence: true, MaxDivergences: 16}, func(x *explore.Exec, own bool) {
				out, v, berr := body(x)
				if !own {
					return
				}
				if concInconclusive(c, berr) {
					return
				}
				c.Inc("evaluations")
				c.Inc("conc_executions")
				c.Inc("traces_validated_against_impl")
				c.Add("transitions", int64(out.Steps))
				c.SetMax("conc_max_steps_per_execution", int64(out.Steps))
				order := sched.DescribeOrder(out.Order)
				c.Distinct("distinct_nontrivial", fmt.Sprintf("conc|%d|%s", si, order))
				for _, r := range out.Races {
					if c.Distinct("conc_distinct_unsynchronised_conflicts", r.Key()) {
						c.Note("unsynchronised conflicting accesses (counted, not the deciding oracle): %s", r.Key())
					}
				}
				rp := c01ConcReplay{Kind: "concurrent-requests", Stmt: len(vrt.AllStatements) > 0, Scenario: sc, Choices: x.Choices(), Order: order}
				if berr != "" {
					rp.What = berr
					key := "C01/concurrent/" + strings.Fields(berr)[0]
					c.confirm(key, fmt.Sprintf("%+v: %s [thread order %s]", sc, berr, order), len(rp.Choices), rp, func() (string, bool) {
						_, _, e2 := body(explore.Replay(rp.Choices, nil))
						return key, e2 != ""
					})
					return
				}
				if key, msg := diff(v); key != "" {
					rp.What = msg
					c.confirm("C01/concurrent/"+key, fmt.Sprintf("%s [thread order %s]", msg, order), len(rp.Choices), rp, func() (string, bool) {
						_, v2, e2 := body(explore.Replay(rp.Choices, nil))
						k2, _ := diff(v2)
						return "C01/concurrent/" + key, e2 == "" && k2 == key
					})
				}
			})
			c.Add("states", int64(stats.Executions))
			vrt.AllStatements = every
			if stats.Divergences > 0 {
				c.Unstable("concurrent scenario %+v: %d executions did not reproduce their replayed prefix", sc, stats.Divergences)
			}
			if !stats.Exhaustive {
				c.Exhaustive = false
				c.Note("concurrent part %+v: not exhaustive (level completed %d)", sc, stats.LevelCompleted)
			}
		}
	}
}

func c01ConcReplayOne(c *Ctx, rp c01ConcReplay) string {
	if os.Getenv("VERIF_WIDE") != "1" {
		return "the wide instrumentation did not build: the schedule cannot be replayed"
	}
	e := c07NewEnv(c)
	defer e.up.Close()
	vrt.Enabled = true
	vrt.AllStatements = map[string]bool{"pkg/middleware": true}
	if !rp.Stmt {
		vrt.AllStatements = nil
	}
	defer func() { vrt.Enabled = false; vrt.AllStatements = nil }()
	px, err := c01ConcProxy(e)
	if err != nil {
		return err.Error()
	}
	_, body, diff, serr := c01ConcSetup(e, rp.Scenario, px)
	if serr != "" {
		return serr
	}
	out, v, berr := body(explore.Replay(rp.Choices, nil))
	if berr != "" {
		c.Violate("C01/concurrent/"+strings.Fields(berr)[0], berr, 1, rp)
	} else if key, msg := diff(v); key != "" {
		c.Violate("C01/concurrent/"+key, msg, 1, rp)
	}
	return fmt.Sprintf("order %s, %d unsynchronised conflicts", sched.DescribeOrder(out.Order), len(out.Races))
}
