//go:build verif

package main

import (
	"fmt"
	"net/url"
	"strings"
	"time"

	"github.com/oauth2-proxy/oauth2-proxy/v7/pkg/apis/options"
	"github.com/oauth2-proxy/oauth2-proxy/v7/verifx/world"
)

// C19, part "carry": request SEQUENCES of one browser, where every request carries the cookies the
// earlier responses set — in particular the cookies of a session that came from ANOTHER source than
// the one the request is about to create (form login while holding an OAuth ticket, OAuth login while
// holding a form-login cookie, bearer / basic request while holding either, login after sign-out by a
// client that ignored the cookie deletion, login after the store lost the entry, after the refresh
// period, after the cookie lifetime). Enumerated: configuration (both stores x header/claim/refresh
// options) x cookie policy of the client (RFC 6265 jar | a client that never drops or expires a
// cookie) x every history over the operation alphabet up to the depth bound. Oracle: no panic escapes
// ServeHTTP in any request of the history, a status line was produced.

type c19CarryCfg struct {
	Name  string
	Flags []string
	Redis bool
	Claim []string
}

func c19CarryCfgs() []c19CarryCfg {
	ts := []string{"created_at", "expires_on"}
	legacy := []string{"--pass-basic-auth=true", "--basic-auth-password=pw", "--pass-access-token=true", "--set-xauthrequest=true", "--set-authorization-header=true"}
	return []c19CarryCfg{
		{Name: "cookie-store"},
		{Name: "redis-store", Redis: true},
		{Name: "cookie-store+timestamp-claims", Claim: ts},
		{Name: "redis-store+timestamp-claims", Redis: true, Claim: ts},
		{Name: "cookie-store+refresh", Flags: []string{"--cookie-refresh=1m"}, Claim: []string{"id_token", "email"}},
		{Name: "redis-store+refresh", Redis: true, Flags: []string{"--cookie-refresh=1m"}},
		{Name: "redis-store+csrf-per-request+legacy-headers", Redis: true, Flags: append([]string{"--cookie-csrf-per-request=true", "--cookie-csrf-expire=5m"}, legacy...)},
		{Name: "cookie-store+legacy-headers+minimal", Flags: []string{"--session-cookie-minimal=true", "--prefer-email-to-user=true", "--pass-basic-auth=true", "--basic-auth-password=pw"}},
		{Name: "redis-store+groups", Redis: true, Flags: []string{"--allowed-group=staff", "--htpasswd-user-group=staff"}, Claim: []string{"groups"}},
	}
}

func c19CarryBuild(cfg c19CarryCfg, up *world.Upstream) (*Proxy, error) {
	flags := append(baseFlags(up.URL()), "--email-domain=*", "--cookie-secure=false", "--cookie-expire=1h", "--skip-jwt-bearer-tokens=true",
		"--htpasswd-file="+writeHtpasswd(map[string]string{"hugo": "pw1", "ida": "pw2"}), "--display-htpasswd-form=true")
	if !strings.Contains(strings.Join(cfg.Flags, " "), "--cookie-refresh") {
		flags = append(flags, "--cookie-refresh=0")
	}
	flags = append(flags, cfg.Flags...)
	pc := &ProxyCfg{Flags: flags}
	if cfg.Redis {
		pc.Redis = c19FreshRedis()
	}
	if len(cfg.Claim) > 0 {
		pc.Mutate = func(o *options.Options) {
			var hv []options.HeaderValue
			for _, cl := range cfg.Claim {
				hv = append(hv, options.HeaderValue{ClaimSource: &options.ClaimSource{Claim: cl}})
			}
			o.InjectRequestHeaders = append(o.InjectRequestHeaders, options.Header{Name: "X-Verif-Claim", Values: hv})
			o.InjectResponseHeaders = append(o.InjectResponseHeaders, options.Header{Name: "X-Verif-Claim", Values: hv})
		}
	}
	return buildProxy(pc)
}

// operations of the browser / the world between two requests
var c19CarryOps = []string{
	"oauth-login:alice", "oauth-login:bob", "form-login:hugo", "form-login:ida", "form-login:bad-password",
	"page", "page+bearer", "page+basic", "auth-endpoint", "userinfo", "sign-out", "sign-in-page",
	"start-only", "callback-again", "advance:2m", "advance:61m", "store-loses-everything",
}

// c19CarryModifiers: operations that change what the carried cookies mean without creating a session
var c19CarryModifiers = map[string]bool{"sign-out": true, "start-only": true, "advance:2m": true, "advance:61m": true, "store-loses-everything": true, "form-login:bad-password": true}

type c19CarryStep struct {
	Op     string `json:"op"`
	Sent   string `json:"cookies_sent"`
	Status []int  `json:"status"`
}

type c19CarryCase struct {
	Config  string         `json:"config"`
	Client  string         `json:"client_cookie_policy"`
	History []c19CarryStep `json:"history"`
	Panic   string         `json:"panic,omitempty"`
	Site    string         `json:"site,omitempty"`
}

type c19CarryEnv struct {
	cfg    c19CarryCfg
	px     *Proxy
	idp    *world.IdP
	jar    *world.Jar
	sticky bool
	steps  []c19CarryStep
	// source of the session cookie the browser holds ("" none, "oauth", "form")
	held     string
	lastCB   string
	badKey   string
	badMsg   string
	badPanic string
	badSite  string
	created  []string // "<op-class>:<held-before>" for every session-creating request that succeeded
}

const c19CarryHost = "app.example.com"

// cookieHeader: what this client sends. The forgetful-never client keeps the latest value it was
// ever given under each name (ignores deletions, Max-Age and Expires).
func (e *c19CarryEnv) cookieHeader(path string) string {
	if !e.sticky {
		return e.jar.Header("http", c19CarryHost, path)
	}
	var names []string
	latest := map[string]string{}
	for _, ck := range e.jar.History {
		if _, ok := latest[ck.Name]; !ok {
			names = append(names, ck.Name)
		}
		latest[ck.Name] = ck.Value
	}
	var parts []string
	for _, n := range names {
		parts = append(parts, n+"="+latest[n])
	}
	return strings.Join(parts, "; ")
}

func (e *c19CarryEnv) holdsSession() bool {
	name := e.px.Opts.Cookie.Name
	for _, p := range strings.Split(e.cookieHeader("/"), "; ") {
		if strings.HasPrefix(p, name+"=") && len(p) > len(name)+1 {
			return true
		}
	}
	return false
}

func c19CookieNames(hdr string) string {
	if hdr == "" {
		return "-"
	}
	var out []string
	for _, p := range strings.Split(hdr, "; ") {
		if i := strings.Index(p, "="); i > 0 {
			p = p[:i]
		}
		if len(p) > 24 {
			p = p[:24] + "~"
		}
		out = append(out, p)
	}
	return strings.Join(out, ",")
}

func (e *c19CarryEnv) send(method, target string, body string, hdr ...[2]string) *world.Resp {
	r := &world.Req{Method: method, Target: target, Host: c19CarryHost}
	r.Headers = append(r.Headers, hdr...)
	ck := e.cookieHeader(pathOf(target))
	if ck != "" {
		r.Headers = append(r.Headers, [2]string{"Cookie", ck})
	}
	if body != "" {
		r.Headers = append(r.Headers, [2]string{"Content-Type", "application/x-www-form-urlencoded"})
		r.Body = body
	}
	resp := world.Serve(e.px.H, r)
	e.jar.SetCookies("http", c19CarryHost, pathOf(target), resp.Header)
	st := &e.steps[len(e.steps)-1]
	if len(st.Status) == 0 {
		st.Sent = c19CookieNames(ck)
	}
	st.Status = append(st.Status, resp.Status)
	if e.badKey == "" {
		switch {
		case resp.Panic != nil:
			e.badSite = resp.PanicSite()
			e.badPanic = fmt.Sprint(resp.Panic)
			e.badKey = "C19/panic@" + e.badSite
			e.badMsg = fmt.Sprintf("%s %s: panic: %v", method, clip(target), resp.Panic)
		case !resp.Aborted && resp.ParseErr == nil && (resp.Status < 200 || resp.Status > 599):
			e.badKey = "C19/no-response"
			e.badMsg = fmt.Sprintf("%s %s: status %d", method, clip(target), resp.Status)
		}
	}
	return resp
}

func (e *c19CarryEnv) setsSession(resp *world.Resp) bool {
	name := e.px.Opts.Cookie.Name
	for _, ck := range resp.Cookies() {
		if (ck.Name == name || strings.HasPrefix(ck.Name, name+"_0")) && ck.Value != "" && ck.MaxAge >= 0 {
			return true
		}
	}
	return false
}

func (e *c19CarryEnv) do(op string) {
	e.steps = append(e.steps, c19CarryStep{Op: op})
	prefix := e.px.Opts.ProxyPrefix
	heldBefore := "none"
	if e.holdsSession() && e.held != "" {
		heldBefore = e.held
	}
	switch {
	case strings.HasPrefix(op, "oauth-login:"), op == "start-only":
		r := e.send("GET", prefix+"/start?rd=%2Fapp", "")
		if r.Status != 302 || op == "start-only" {
			return
		}
		cb, _, err := e.idp.Authorize(r.Location(), strings.TrimPrefix(op, "oauth-login:"))
		if err != nil {
			return
		}
		u, err := url.Parse(cb)
		if err != nil {
			return
		}
		e.lastCB = u.RequestURI()
		r = e.send("GET", e.lastCB, "")
		if r.Status == 302 && e.setsSession(r) {
			e.held = "oauth"
			e.created = append(e.created, "oauth-login:"+heldBefore)
		}
	case strings.HasPrefix(op, "form-login:"):
		user, pw := strings.TrimPrefix(op, "form-login:"), "pw1"
		switch user {
		case "ida":
			pw = "pw2"
		case "bad-password":
			user, pw = "hugo", "nope"
		}
		r := e.send("POST", prefix+"/sign_in", url.Values{"username": {user}, "password": {pw}, "rd": {"/app"}}.Encode())
		if r.Status == 302 && e.setsSession(r) {
			e.held = "form"
			e.created = append(e.created, "form-login:"+heldBefore)
		}
	case op == "page":
		e.send("GET", "/app/x", "")
	case op == "page+bearer":
		tok := e.idp.MintIDToken(e.idp.Users["bob"], &world.TokenSpec{DropNonce: true})
		if r := e.send("GET", "/app/x", "", [2]string{"Authorization", "Bearer " + tok}); r.Status == 200 {
			e.created = append(e.created, "bearer-request:"+heldBefore)
		}
	case op == "page+basic":
		if r := e.send("GET", "/app/x", "", [2]string{"Authorization", basicAuth("ida", "pw2")}); r.Status == 200 {
			e.created = append(e.created, "basic-request:"+heldBefore)
		}
	case op == "auth-endpoint":
		e.send("GET", prefix+"/auth?allowed_groups=staff", "")
	case op == "userinfo":
		e.send("GET", prefix+"/userinfo", "")
	case op == "sign-out":
		e.send("GET", prefix+"/sign_out?rd=%2Fbye", "")
		if !e.sticky {
			e.held = ""
		}
	case op == "sign-in-page":
		e.send("GET", prefix+"/sign_in?rd=%2Fapp", "")
	case op == "callback-again":
		t := e.lastCB
		if t == "" {
			t = prefix + "/callback?code=none&state=bm9uY2U6L2FwcA"
		}
		r := e.send("GET", t, "")
		if r.Status == 302 && e.setsSession(r) {
			e.held = "oauth"
		}
	case strings.HasPrefix(op, "advance:"):
		d, _ := time.ParseDuration(strings.TrimPrefix(op, "advance:"))
		world.Advance(d)
		e.steps[len(e.steps)-1].Status = []int{}
	case op == "store-loses-everything":
		if e.px.Redis != nil {
			e.px.Redis.M.FlushAll()
		}
		e.steps[len(e.steps)-1].Status = []int{}
	}
}

func c19CarryPlay(cfg c19CarryCfg, px *Proxy, idp *world.IdP, sticky bool, hist []int) *c19CarryEnv {
	world.ResetClock()
	if px.Redis != nil {
		px.Redis.M.FlushAll()
		px.Redis.M.SetTime(world.Now())
	}
	e := &c19CarryEnv{cfg: cfg, px: px, idp: idp, jar: world.NewJar(), sticky: sticky}
	for _, oi := range hist {
		e.do(c19CarryOps[oi])
	}
	return e
}

func c19CarryHistory(c *Ctx, cfg c19CarryCfg, px *Proxy, idp *world.IdP, sticky bool, hist []int) {
	e := c19CarryPlay(cfg, px, idp, sticky, hist)
	c.Inc("evaluations")
	c.Inc("carry_histories")
	store := "cookie"
	if cfg.Redis {
		store = "redis"
	}
	reqs := 0
	var sig []string
	for _, s := range e.steps {
		reqs += len(s.Status)
		sig = append(sig, fmt.Sprintf("%s%v", s.Op, s.Status))
	}
	c.Add("carry_requests", int64(reqs))
	for _, cr := range e.created {
		c.Inc("carry_created:" + store + ":" + cr)
	}
	client := "rfc6265-jar"
	if sticky {
		client = "never-forgets"
	}
	if len(e.created) > 0 || e.holdsSession() {
		c.Distinct("distinct_nontrivial", fmt.Sprintf("carry|%s|%s|%v", cfg.Name, client, hist))
	}
	c.Distinct("distinct_outcomes", fmt.Sprintf("carry|%s|%s|%v", cfg.Name, client, sig[len(sig)-1]))
	cs := c19CarryCase{Config: cfg.Name, Client: client, History: e.steps}
	if e.badKey != "" {
		cs.Panic, cs.Site = e.badPanic, e.badSite
		key := e.badKey
		c.confirm(key, fmt.Sprintf("config %s, client %s, history %s: %s", cfg.Name, client, strings.Join(sig, " -> "), e.badMsg), len(hist), cs, func() (string, bool) {
			again := c19CarryPlay(cfg, px, idp, sticky, hist)
			return again.badKey, again.badKey != ""
		})
		return
	}
	if len(e.created) > 1 {
		c.Sample(5, cs)
	}
}

func c19CarryPart(c *Ctx, up *world.Upstream) {
	cfgs := c19CarryCfgs()
	c.Info["carry_configurations"] = len(cfgs)
	c.Info["carry_operations"] = len(c19CarryOps)
	n := 0
	for _, cfg := range cfgs {
		if c.Expired() {
			return
		}
		world.ClearAdvanceHooks()
		idp := world.NewIdP()
		px, err := c19CarryBuild(cfg, up)
		if err != nil {
			c.Error("carry part: configuration %s does not build: %v", cfg.Name, err)
			continue
		}
		nops := len(c19CarryOps)
		run := func(sticky bool, hist ...int) {
			n++
			if c.Mine(n) {
				c19CarryHistory(c, cfg, px, idp, sticky, hist)
			}
		}
		for _, sticky := range []bool{false, true} {
			for a := 0; a < nops; a++ {
				run(sticky, a)
				for b := 0; b < nops; b++ {
					run(sticky, a, b)
					for d := 0; d < nops; d++ {
						// quick: depth 3 where the middle operation changes what the carried cookies mean;
						// thorough: every history of depth 3, and depth 4 with two such operations in the middle
						if c.Quick() && !c19CarryModifiers[c19CarryOps[b]] {
							continue
						}
						run(sticky, a, b, d)
						if c.Quick() || !c19CarryModifiers[c19CarryOps[b]] {
							continue
						}
						for m := 0; m < nops; m++ {
							if c19CarryModifiers[c19CarryOps[m]] && m != b {
								run(sticky, a, b, m, d)
							}
						}
					}
				}
				if c.Expired() {
					return
				}
			}
		}
		if px.Redis != nil {
			px.Redis.CloseClients()
		}
		up.Take()
	}
	world.ClearAdvanceHooks()
}

// c19CarryPost: every session-creating request must have succeeded while the browser held no
// session cookie, an OAuth session's and a form login's, on both stores.
func c19CarryPost(c *Ctx) {
	for _, store := range []string{"cookie", "redis"} {
		for _, op := range []string{"oauth-login", "form-login", "bearer-request", "basic-request"} {
			for _, held := range []string{"none", "oauth", "form"} {
				k := "carry_created:" + store + ":" + op + ":" + held
				if c.Counters[k] == 0 {
					c.Error("C19 carry part is vacuous: counter %s is 0", k)
				}
			}
		}
	}
}
