//go:build verif

package main

import (
	"fmt"
	"net/url"
	"strings"
)

// C16, third part — redirect targets that name a host, against forwarding headers that name the
// same host (reverse-proxy OFF).
//
// The other two parts carry one absolute redirect target (a whitelisted foreign host, an
// application path) and forwarded hosts unrelated to it. A decision about the redirect target
// that compares its host with "the host we are known under" is only exercised when the target,
// the request and the forwarding headers talk about the same hosts. This part therefore runs the
// paired-run oracle over
//
//	redirect target  = scheme://H/P for every H of {request hosts, whitelisted hosts (plain and with
//	                   a wildcard port), a host off the whitelist} x P of {/, /app, the proxy prefix
//	                   itself and its sign_in, start and callback endpoints}
//	carrier          = rd parameter | X-Auth-Request-Redirect header (present in both runs)
//	endpoint         = sign_out, start (target inside the OAuth state), sign_in page (target inside
//	                   the form), sign_in form login, callback (target taken from the state), a
//	                   protected path answered with the sign-in page
//	request Host     = a whitelisted host | a host off the whitelist (so the target's host is equal
//	                   to and different from the request's)
//	forwarding headers = X-Forwarded-Host over exactly those hosts and upper/mixed-case variants,
//	                   alone and paired with X-Forwarded-Proto / X-Forwarded-Uri; X-Original-Host,
//	                   X-Forwarded-Server and Forwarded: host= over the same values
//
// Oracle: as everywhere in C16 — the run with the forwarding headers equals the run without them.
// Non-trivial (measured): the baseline answer depends on the redirect target (it differs from the
// same request without the carrier) and the assignment names a host.

var (
	c16rReqHosts = []string{c16Host, "proxy.internal:4180", "other.example.com"} // quick: the first two
	// hosts a redirect target or a forwarding header may name
	c16rHosts = []string{c16Host, "other.example.com", "other.test:8443", "evil.test", "proxy.internal:4180"}
	// further spellings for the forwarding headers only
	c16rHostVariants = []string{"APP.example.com", "Other.Example.Com", "OTHER.TEST:8443", "other.test"}
	c16rPaths        = []string{"/", "/app", "/oauth2/sign_in", "/oauth2/start", "/oauth2/callback", "/oauth2"}
	c16rEndpoints    = []string{"sign_out", "start", "sign_in", "sign_in-form-login", "callback-state", "protected"}
	c16rCarriers     = []string{"rd", "X-Auth-Request-Redirect"}
)

func c16rConfigs(quick bool) []*c16Config {
	out := []*c16Config{{Name: "r-whitelist", Flags: c16WhitelistFlags, Whitelist: true, Htpasswd: true}}
	if !quick {
		out = append(out, &c16Config{Name: "r-whitelist-idp", Flags: c16Cat(c16WhitelistFlags, []string{"--skip-provider-button=true"}), Whitelist: true, SPB: true, Htpasswd: true})
	}
	return out
}

type c16rDef struct {
	Cfg      *c16Config
	Endpoint string
	Carrier  string
	RD       string
	Rq       *c16Request // with the carrier
	Bare     *c16Request // the same request without the carrier
	Fixed    [][2]string // carrier header (both runs)
	Class    string      // class of the baseline, from the documentation
}

// c16rDefs enumerates the blocks.
func c16rDefs(quick bool) []*c16rDef {
	schemes := []string{"https", "http"}
	reqHosts := c16rReqHosts
	if quick {
		schemes, reqHosts = schemes[:1], reqHosts[:2]
	}
	var out []*c16rDef
	for _, cfg := range c16rConfigs(quick) {
		for _, ep := range c16rEndpoints {
			for _, carrier := range c16rCarriers {
				for _, rh := range reqHosts {
					for _, scheme := range schemes {
						for _, h := range c16rHosts {
							for _, p := range c16rPaths {
								out = append(out, c16rDef1(cfg, ep, carrier, rh, scheme+"://"+h+p))
							}
						}
					}
				}
			}
		}
	}
	return out
}

func c16rDef1(cfg *c16Config, ep, carrier, reqHost, rd string) *c16rDef {
	d := &c16rDef{Cfg: cfg, Endpoint: ep, Carrier: carrier, RD: rd}
	q := ""
	if carrier == "rd" {
		q = "rd=" + url.QueryEscape(rd)
	} else {
		d.Fixed = [][2]string{{carrier, rd}}
	}
	with := func(target string) string {
		if q == "" {
			return target
		}
		if strings.Contains(target, "?") {
			return target + "&" + q
		}
		return target + "?" + q
	}
	mk := func(target string) *c16Request {
		return &c16Request{Name: fmt.Sprintf("%s|%s|%s|%s", ep, carrier, reqHost, rd), Target: target, Host: reqHost}
	}
	form := url.Values{"username": {"hugo"}, "password": {"pw1"}}.Encode()
	switch ep {
	case "sign_out":
		d.Rq, d.Bare, d.Class = mk(with("/oauth2/sign_out")), mk("/oauth2/sign_out"), "redirect"
	case "start":
		d.Rq, d.Bare, d.Class = mk(with("/oauth2/start")), mk("/oauth2/start"), "idp-redirect"
	case "sign_in":
		d.Rq, d.Bare, d.Class = mk(with("/oauth2/sign_in")), mk("/oauth2/sign_in"), "signin-page"
		if cfg.SPB {
			d.Class = "idp-redirect"
		}
	case "sign_in-form-login":
		d.Rq, d.Bare, d.Class = mk(with("/oauth2/sign_in")), mk("/oauth2/sign_in"), "login-complete"
		d.Rq.Method, d.Rq.Body, d.Bare.Method, d.Bare.Body = "POST", form, "POST", form
	case "callback-state":
		// the target enters the OAuth state at the start step (no forwarding headers there), the
		// forwarding headers travel on the callback
		d.Rq, d.Bare, d.Class = mk(""), mk(""), "login-complete"
		d.Rq.Flow, d.Bare.Flow = "callback", "callback"
		d.Rq.StartTarget, d.Bare.StartTarget = with("/oauth2/start"), "/oauth2/start"
		d.Rq.StartHeaders = d.Fixed
	case "protected":
		d.Rq, d.Bare, d.Class = mk(with(c16Protected)), mk(c16Protected), "signin-page"
		if cfg.SPB {
			d.Class = "idp-redirect"
		}
	}
	return d
}

// c16rAssigns: the forwarding-header assignments of this part.
func c16rAssigns(quick bool) []*c16Assign {
	vals := append(append([]string{}, c16rHosts...), c16rHostVariants...)
	protos := []string{"https", "http"}
	uris := []string{"/oauth2/sign_in", "/app"}
	if quick {
		protos, uris = protos[:1], uris[:1]
	}
	var out []*c16Assign
	add := func(lines ...[2]string) {
		a := &c16Assign{Lines: lines}
		for _, l := range lines {
			a.Parts = append(a.Parts, l[0]+"="+l[1])
		}
		a.Key = strings.Join(a.Parts, ",")
		out = append(out, a)
	}
	for _, v := range vals {
		add([2]string{"X-Forwarded-Host", v})
		for _, p := range protos {
			add([2]string{"X-Forwarded-Host", v}, [2]string{"X-Forwarded-Proto", p})
		}
		for _, u := range uris {
			add([2]string{"X-Forwarded-Host", v}, [2]string{"X-Forwarded-Uri", u})
		}
		add([2]string{"X-Original-Host", v})
		add([2]string{"X-Forwarded-Server", v})
		add([2]string{"Forwarded", "host=" + v + ";proto=https"})
	}
	for _, p := range protos {
		add([2]string{"X-Forwarded-Proto", p})
	}
	for _, u := range uris {
		add([2]string{"X-Forwarded-Uri", u})
	}
	return out
}

// c16rNamedHost: the host a forwarding-header line names ("" = none).
func c16rNamedHost(l [2]string) string {
	switch l[0] {
	case "X-Forwarded-Host", "X-Original-Host", "X-Forwarded-Server":
		return l[1]
	case "Forwarded":
		for _, kv := range strings.Split(l[1], ";") {
			if strings.HasPrefix(kv, "host=") {
				return kv[5:]
			}
		}
	}
	return ""
}

// c16rTarget extracts the redirect target the response commits to: the Location of a plain
// redirect, the target inside the OAuth state of a provider redirect, the form field of a page.
func c16rTargets(o *c16Obs) []string {
	if o.Status == 302 {
		if u, err := url.Parse(o.Location); err == nil && u.Query().Get("state") != "" && u.Query().Get("client_id") != "" {
			st := u.Query().Get("state")
			if i := strings.Index(st, ":"); i >= 0 {
				return []string{st[i+1:]}
			}
			return nil
		}
		return []string{o.Location}
	}
	return o.Links
}

func c16rHas(list []string, s string) bool {
	for _, x := range list {
		if x == s {
			return true
		}
	}
	return false
}

type c16rBlock struct {
	No       int
	D        *c16rDef
	Px       *Proxy
	Base     *c16Obs
	BaseStr  string
	RdCounts bool // the baseline depends on the redirect target
	single   map[string]int
}

func (e *c16Env) rrun(b *c16rBlock, rq *c16Request, fixed, lines [][2]string) *c16Obs {
	all := append(append([][2]string{}, fixed...), lines...)
	return e.run(b.Px, b.D.Cfg, rq, all, uint64(b.No))
}

func (b *c16rBlock) mkCase(a *c16Assign, obs *c16Obs) *c16Case {
	d := b.D
	return &c16Case{Mode: "rp-off-redirects", Config: d.Cfg.Name, Flags: d.Cfg.Flags, Request: d.Rq.Name, Method: d.Rq.Method, Body: d.Rq.Body, Target: d.Rq.Target, Host: d.Rq.Host,
		Fixed: d.Fixed, Headers: a.Lines, Expected: b.BaseStr, Observed: obs.str()}
}

// rkey: culprit header / group of differing fields; marked when the difference needs the
// redirect target (the same pair is equal on the request without the carrier).
func (e *c16Env) rkey(b *c16rBlock, a *c16Assign, x, y *c16Obs) string {
	culprit := "combination"
	for i, p := range a.Parts {
		if b.single[p] == 0 {
			b.single[p] = 1
			if e.rrun(b, b.D.Rq, b.D.Fixed, a.Lines[i:i+1]).str() != b.BaseStr {
				b.single[p] = 2
			}
		}
		if b.single[p] == 2 {
			culprit = a.Lines[i][0]
			break
		}
	}
	group, _ := c16Diff(x, y)
	if group == "" {
		group = "response"
	}
	key := fmt.Sprintf("C16/rp-off/%s/%s", culprit, group)
	if e.rrun(b, b.D.Bare, nil, nil).str() == e.rrun(b, b.D.Bare, nil, a.Lines).str() {
		key += "@host-of-redirect-target"
	}
	return key
}

func (e *c16Env) runRedirects() {
	c := e.c
	defs := c16rDefs(c.Quick())
	assigns := c16rAssigns(c.Quick())
	blockNo := 1 << 24
	for i, d := range defs {
		blockNo++
		if !c.Mine(i) || c.Expired() {
			continue
		}
		b := &c16rBlock{No: blockNo, D: d, Px: e.proxy(d.Cfg, ""), single: map[string]int{}}
		b.Base = e.rrun(b, d.Rq, d.Fixed, nil)
		b.BaseStr = b.Base.str()
		if again := e.rrun(b, d.Rq, d.Fixed, nil); again.str() != b.BaseStr {
			c.Unstable("config %s request %s: the baseline is not reproducible on an identically seeded world: %s vs %s", d.Cfg.Name, d.Rq.Name, b.BaseStr, again.str())
		}
		if cls := b.Base.class(); cls != d.Class {
			c.Error("fixture: config %s request %s: baseline class %q, the documentation prescribes %q (%s)", d.Cfg.Name, d.Rq.Name, cls, d.Class, c16Clip(b.BaseStr, 600))
		}
		c.Inc("rx_blocks")
		b.RdCounts = e.rrun(b, d.Bare, nil, nil).str() != b.BaseStr
		// does the answer commit to the requested target? (the documentation: a target on a whitelisted
		// domain is used, anything else falls back; counted, both must occur for every endpoint)
		if c16rHas(c16rTargets(b.Base), d.RD) {
			c.Inc("rx_target_used_" + d.Endpoint)
			if strings.Contains(d.RD, "/oauth2") {
				c.Inc("rx_target_used_under_proxy_prefix")
			}
		} else {
			c.Inc("rx_target_replaced_" + d.Endpoint)
		}
		rdURL, _ := url.Parse(d.RD)
		for _, a := range assigns {
			obs := e.rrun(b, d.Rq, d.Fixed, a.Lines)
			c.Inc("evaluations")
			c.Inc("rx_pairs_reverse_proxy_off")
			named, same := false, false
			for _, l := range a.Lines {
				if h := c16rNamedHost(l); h != "" {
					named = true
					if rdURL != nil && strings.EqualFold(h, rdURL.Host) {
						same = true
					}
				}
			}
			if b.RdCounts && named {
				if c.Distinct("distinct_nontrivial", fmt.Sprintf("rx|%d|%s", b.No, a.Key)) {
					c.Inc("rx_nontrivial")
				}
				if same {
					c.Inc("rx_header_names_host_of_target")
					if !strings.EqualFold(d.Rq.Host, rdURL.Host) {
						c.Inc("rx_header_names_host_of_target_request_host_differs")
					} else {
						c.Inc("rx_header_names_host_of_target_request_host_equal")
					}
					c.Sample(7, b.mkCase(a, obs))
				}
			}
			if obs.str() == b.BaseStr {
				continue
			}
			key := e.rkey(b, a, b.Base, obs)
			_, detail := c16Diff(b.Base, obs)
			msg := fmt.Sprintf("reverse-proxy OFF, config %s %v: %s with redirect target %q in %s, request host %s, answered differently with forwarding headers %v: %s [without | with]",
				d.Cfg.Name, d.Cfg.Flags, d.Endpoint, d.RD, d.Carrier, d.Rq.Host, a.Lines, detail)
			size := len(a.Lines)*1000 + len(d.RD) + len(d.Rq.Target)
			if d.Rq.Flow != "" {
				size += 500
			}
			cs := b.mkCase(a, obs)
			if e.confirmed[key] >= 2 {
				c.Violate(key, msg, size, cs)
				continue
			}
			e.confirmed[key]++
			a := a
			c.confirm(key, msg, size, cs, func() (string, bool) {
				x := e.rrun(b, d.Rq, d.Fixed, nil)
				y := e.rrun(b, d.Rq, d.Fixed, a.Lines)
				return e.rkey(b, a, x, y), x.str() != y.str()
			})
		}
		if again := e.rrun(b, d.Rq, d.Fixed, nil); again.str() != b.BaseStr {
			c.Error("config %s request %s: baseline drifted during the block: %s vs %s", d.Cfg.Name, d.Rq.Name, b.BaseStr, again.str())
		}
	}
	c.Info["alphabet_redirect_targets_part"] = map[string]any{
		"configurations": len(c16rConfigs(c.Quick())), "endpoints": c16rEndpoints, "carriers": c16rCarriers, "target_hosts": c16rHosts, "target_paths": c16rPaths,
		"header_only_host_spellings": c16rHostVariants, "blocks": len(defs), "assignments_per_block": len(assigns),
	}
}

func c16rPost(c *Ctx) {
	need := func(name, why string) {
		if c.Counters[name] == 0 {
			c.Error("vacuity: counter %s is 0: %s", name, why)
		}
	}
	for _, ep := range c16rEndpoints {
		need("rx_target_used_"+ep, "no baseline of this endpoint committed to the requested redirect target")
		need("rx_target_replaced_"+ep, "no baseline of this endpoint replaced the requested redirect target")
	}
	need("rx_target_used_under_proxy_prefix", "no baseline committed to a target under the proxy prefix")
	need("rx_header_names_host_of_target_request_host_differs", "no pair had a forwarding header naming the target's host on a request to another host")
	need("rx_header_names_host_of_target_request_host_equal", "no pair had a forwarding header naming the target's host on a request to that host")
}

func c16rReplay(c *Ctx, e *c16Env, cs *c16Case) string {
	for _, quick := range []bool{true, false} {
		for i, d := range c16rDefs(quick) {
			if d.Cfg.Name != cs.Config || d.Rq.Name != cs.Request {
				continue
			}
			b := &c16rBlock{No: 1<<24 + i, D: d, Px: e.proxy(d.Cfg, ""), single: map[string]int{}}
			x := e.rrun(b, d.Rq, d.Fixed, nil)
			y := e.rrun(b, d.Rq, d.Fixed, cs.Headers)
			if x.str() != y.str() {
				g, det := c16Diff(x, y)
				c.Violate("C16/rp-off/replayed/"+g, det, 1, cs)
			}
			return c16Clip(fmt.Sprintf("without forwarding headers: %s; with: %s", x.str(), y.str()), 2400)
		}
	}
	return "unknown configuration or request in the replay file"
}
