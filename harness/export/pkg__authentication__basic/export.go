//go:build verif

package basic

import (
	"fmt"
	"reflect"
	"strings"
	"unsafe"
)

// VerifReload calls the validator's own reload (what the file watcher would call).
func VerifReload(v Validator, path string) error {
	return v.(*htpasswdMap).loadHTPasswdFile(path)
}

// VerifResetLocks puts every synchronisation object embedded in the validator into its zero
// state between executions (all threads of the previous execution have finished or were
// unwound). Done by reflection so that it keeps compiling when the lock's type changes.
func VerifResetLocks(v Validator) {
	rv := reflect.ValueOf(v)
	if rv.Kind() != reflect.Ptr || rv.Elem().Kind() != reflect.Struct {
		return
	}
	e := rv.Elem()
	for i := 0; i < e.NumField(); i++ {
		f := e.Field(i)
		pp := f.Type().PkgPath()
		if strings.HasSuffix(pp, "/vsync") || strings.HasSuffix(pp, "/vatomic") {
			reflect.NewAt(f.Type(), unsafe.Pointer(f.UnsafeAddr())).Elem().Set(reflect.Zero(f.Type()))
		}
	}
}

// VerifSnapshot renders the validator's complete state (user table and lock state) for state
// keys; fmt prints maps in key order. Called by the scheduler between steps, never
// concurrently with a running thread.
func VerifSnapshot(v Validator) string {
	rv := reflect.ValueOf(v)
	if rv.Kind() == reflect.Ptr && !rv.IsNil() {
		return fmt.Sprintf("%+v", rv.Elem())
	}
	return fmt.Sprintf("%+v", v)
}
