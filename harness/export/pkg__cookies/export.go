//go:build verif

package cookies

import (
	"fmt"
	"net/http"
	"reflect"

	"github.com/oauth2-proxy/oauth2-proxy/v7/pkg/apis/options"
)

// VerifCSRFSecrets loads the CSRF cookie `cookieName` from req exactly the way the callback
// handler does (signature check, decryption with the proxy's cookie options) and returns the
// raw values that otherwise never leave the encrypted cookie: the OAuth state nonce, the OIDC
// nonce and the PKCE code verifier. Read-only accessor for the C05 check. The concrete type is
// inspected by reflection (fields by name, else the first two byte-slice fields in declaration
// order; the verifier through the interface's own getter), so that renaming it does not break the build.
func VerifCSRFSecrets(req *http.Request, cookieName string, opts *options.Cookie) (state, nonce []byte, verifier string, err error) {
	c, err := LoadCSRFCookie(req, cookieName, opts)
	if err != nil {
		return nil, nil, "", err
	}
	rv := reflect.ValueOf(c)
	for rv.Kind() == reflect.Ptr || rv.Kind() == reflect.Interface {
		if rv.IsNil() {
			return nil, nil, "", fmt.Errorf("CSRF implementation is nil")
		}
		rv = rv.Elem()
	}
	if rv.Kind() != reflect.Struct {
		return nil, nil, "", fmt.Errorf("CSRF implementation is %T, not a struct", c)
	}
	bytesOf := func(f reflect.Value) ([]byte, bool) {
		if f.IsValid() && f.Kind() == reflect.Slice && f.Type().Elem().Kind() == reflect.Uint8 {
			out := make([]byte, f.Len())
			reflect.Copy(reflect.ValueOf(out), f)
			return out, true
		}
		return nil, false
	}
	var okS, okN bool
	state, okS = bytesOf(rv.FieldByName("OAuthState"))
	nonce, okN = bytesOf(rv.FieldByName("OIDCNonce"))
	if !okS || !okN {
		var found [][]byte
		for i := 0; i < rv.NumField(); i++ {
			if b, ok := bytesOf(rv.Field(i)); ok {
				found = append(found, b)
			}
		}
		if len(found) < 2 {
			return nil, nil, "", fmt.Errorf("CSRF implementation %T has no two byte-slice fields", c)
		}
		state, nonce = found[0], found[1]
	}
	if g, ok := c.(interface{ GetCodeVerifier() string }); ok {
		verifier = g.GetCodeVerifier()
	} else if f := rv.FieldByName("CodeVerifier"); f.IsValid() && f.Kind() == reflect.String {
		verifier = f.String()
	}
	return state, nonce, verifier, nil
}
