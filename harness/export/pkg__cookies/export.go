//go:build verif

package cookies

import (
	"fmt"
	"net/http"

	"github.com/oauth2-proxy/oauth2-proxy/v7/pkg/apis/options"
)

// VerifCSRFSecrets loads the CSRF cookie `cookieName` from req exactly the way the callback
// handler does (signature check, decryption with the proxy's cookie options) and returns the
// raw values that otherwise never leave the encrypted cookie: the OAuth state nonce, the OIDC
// nonce and the PKCE code verifier. Read-only accessor for the C05 check.
func VerifCSRFSecrets(req *http.Request, cookieName string, opts *options.Cookie) (state, nonce []byte, verifier string, err error) {
	c, err := LoadCSRFCookie(req, cookieName, opts)
	if err != nil {
		return nil, nil, "", err
	}
	cc, ok := c.(*csrf)
	if !ok {
		return nil, nil, "", fmt.Errorf("CSRF implementation is %T, not *csrf", c)
	}
	return append([]byte(nil), cc.OAuthState...), append([]byte(nil), cc.OIDCNonce...), cc.GetCodeVerifier(), nil
}
