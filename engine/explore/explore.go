// Package explore is the stateless explorer: it re-executes a body once per choice sequence,
// in order of increasing deviation cost (0 deviations, then 1, then 2 ...), each sequence
// exactly once. Choice points are environment answers (ENV), scheduler decisions (SCHED) or
// alphabet members. See DESIGN.md §3.2.
package explore

import (
	"fmt"
	"hash/fnv"
	"time"
)

// Divergence is the panic value raised when a replayed prefix does not reproduce.
type Divergence struct{ Msg string }

func (d Divergence) Error() string { return "replay divergence: " + d.Msg }

type point struct {
	label  string
	costs  []int
	chosen int
}

// Exec is one execution; it implements sched.Chooser and sched.Pruner.
type Exec struct {
	r       *Runner
	prefix  []int
	labels  []string // labels recorded by the parent for the prefix (divergence check)
	points  []point
	cost    int
	Pruned  bool
	visited bool
	// Diverged: a replayed prefix did not reproduce (only with Config.TolerateDivergence; the
	// execution then simply continued with default choices)
	Diverged bool
}

// ChooseCost returns the alternative to take at this choice point. costs[0] must be 0.
func (x *Exec) ChooseCost(label string, costs []int) int {
	i := len(x.points)
	c := 0
	if i < len(x.prefix) {
		c = x.prefix[i]
		mismatch := ""
		if c >= len(costs) {
			mismatch = fmt.Sprintf("point %d %q: replayed choice %d out of range %d", i, label, c, len(costs))
		} else if i < len(x.labels) && x.labels[i] != label {
			mismatch = fmt.Sprintf("point %d: label %q, recorded %q", i, label, x.labels[i])
		}
		if mismatch != "" {
			if !x.r.cfg.TolerateDivergence {
				panic(Divergence{mismatch})
			}
			// the code under test is not deterministic given its choices (e.g. it iterates over
			// a map): stop replaying, go on with defaults; the exploration is no longer exhaustive
			x.Diverged = true
			x.r.stats.Divergences++
			x.prefix = x.prefix[:i]
			c = 0
		}
	}
	x.points = append(x.points, point{label: label, costs: costs, chosen: c})
	x.cost += costs[c]
	return c
}

// Choose is ChooseCost with cost 1 for every non-default alternative.
func (x *Exec) Choose(label string, n int) int {
	if n <= 1 {
		return 0
	}
	costs := make([]int, n)
	for i := 1; i < n; i++ {
		costs[i] = 1
	}
	return x.ChooseCost(label, costs)
}

// ChooseFree is a choice whose alternatives cost nothing (alphabet members).
func (x *Exec) ChooseFree(label string, n int) int {
	if n <= 1 {
		return 0
	}
	return x.ChooseCost(label, make([]int, n))
}

// Cost so far.
func (x *Exec) Cost() int { return x.cost }

// Choices returns the choice sequence taken so far.
func (x *Exec) Choices() []int {
	out := make([]int, len(x.points))
	for i, p := range x.points {
		out[i] = p.chosen
	}
	return out
}

// Labels of the choice points so far.
func (x *Exec) Labels() []string {
	out := make([]string, len(x.points))
	for i, p := range x.points {
		out[i] = p.label
	}
	return out
}

// Visit implements visited-state pruning that is aware of the remaining budget: a state is
// skipped only if it was already expanded with at least as much budget left. Pruning is only
// applied past the replayed prefix (the prefix leads to the deviation this execution exists for).
func (x *Exec) Visit(key string) bool {
	if x.r.visited == nil || len(x.points) < len(x.prefix) {
		return true
	}
	h := fnv.New64a()
	h.Write([]byte(key))
	k := h.Sum64()
	rem := x.r.cfg.MaxCost - x.cost
	if old, ok := x.r.visited[k]; ok && old >= rem+1 {
		x.Pruned = true
		x.r.stats.Pruned++
		return false
	}
	x.r.visited[k] = rem + 1
	x.r.stats.States++
	return true
}

// Config of one exploration.
type Config struct {
	MaxCost    int       // deviation bound
	Deadline   time.Time // zero = none; on expiry Exhaustive=false
	Prune      bool      // enable Visit
	Shard      int       // this process
	Shards     int       // number of processes (0/1 = no sharding)
	ShardDepth int       // choice depth on which subtrees are distributed (default 2)
	// ShardDeviations > 0 distributes subtrees by their first k non-default choices (position and
	// alternative) instead of by the first ShardDepth choices: the right key when nearly all
	// choices are 0 (fault enumeration). Executions with fewer than k deviations are shared.
	ShardDeviations int
	MaxExecs        int // safety cap (0 = none); hitting it sets Exhaustive=false
	// TolerateDivergence: a prefix that does not reproduce is not a harness error; the execution
	// continues with default choices, Stats.Divergences counts it and Exhaustive becomes false
	TolerateDivergence bool
	// MaxDivergences > 0: stop the exploration (Exhaustive=false) once that many executions have
	// diverged — a tree that keeps moving under the explorer cannot be enumerated, only wasted on
	MaxDivergences int
	// Stop, if set, is asked before every execution; true ends the exploration (Exhaustive=false)
	Stop func() bool
}

// Stats of one exploration.
type Stats struct {
	Executions     int
	ChoicePoints   int
	MaxDepth       int
	States         int
	Pruned         int
	LevelCompleted int  // highest cost level fully explored (-1 = none)
	Exhaustive     bool // all levels up to MaxCost completed
	PerLevel       []int
	DeadlineHit    bool
	Divergences    int
}

type work struct {
	prefix []int
	labels []string
	cost   int
}

// Runner drives one exploration.
type Runner struct {
	cfg     Config
	visited map[uint64]int
	stats   Stats
	buckets [][]work
}

// Run explores body. body must be deterministic given the choices it is handed. It receives
// a fresh Exec per execution; `own` tells whether this shard is responsible for checking and
// counting the execution (shared top-of-tree executions are run by every shard but owned by
// shard 0 only).
func Run(cfg Config, body func(x *Exec, own bool)) Stats {
	if cfg.Shards <= 0 {
		cfg.Shards = 1
	}
	if cfg.ShardDepth <= 0 {
		cfg.ShardDepth = 2
	}
	r := &Runner{cfg: cfg}
	if cfg.Prune {
		r.visited = map[uint64]int{}
	}
	r.buckets = make([][]work, cfg.MaxCost+1)
	r.buckets[0] = []work{{}}
	r.stats.PerLevel = make([]int, cfg.MaxCost+1)
	r.stats.LevelCompleted = -1
	r.stats.Exhaustive = true
	for level := 0; level <= cfg.MaxCost; level++ {
		for len(r.buckets[level]) > 0 {
			if !cfg.Deadline.IsZero() && time.Now().After(cfg.Deadline) {
				r.stats.Exhaustive = false
				r.stats.DeadlineHit = true
				return r.stats
			}
			if cfg.Stop != nil && cfg.Stop() {
				r.stats.Exhaustive = false
				return r.stats
			}
			if cfg.MaxDivergences > 0 && r.stats.Divergences >= cfg.MaxDivergences {
				r.stats.Exhaustive = false
				return r.stats
			}
			if cfg.MaxExecs > 0 && r.stats.Executions >= cfg.MaxExecs {
				r.stats.Exhaustive = false
				return r.stats
			}
			n := len(r.buckets[level])
			w := r.buckets[level][n-1]
			r.buckets[level] = r.buckets[level][:n-1]
			r.runOne(w, body)
		}
		r.stats.LevelCompleted = level
	}
	return r.stats
}

func (r *Runner) owner(choices []int) (shard int, shared bool) {
	if r.cfg.Shards == 1 {
		return 0, false
	}
	if k := r.cfg.ShardDeviations; k > 0 {
		h := fnv.New32a()
		n := 0
		for i, c := range choices {
			if c != 0 {
				h.Write([]byte{byte(i), byte(i >> 8), byte(c), byte(c >> 8)})
				if n++; n == k {
					v := h.Sum32() // (FNV's low bits alone are a poor spread for such short keys)
					v ^= v >> 16
					v *= 0x7feb352d
					v ^= v >> 15
					return int(v % uint32(r.cfg.Shards)), false
				}
			}
		}
		return 0, true
	}
	if len(choices) < r.cfg.ShardDepth {
		return 0, true
	}
	h := fnv.New32a()
	for _, c := range choices[:r.cfg.ShardDepth] {
		h.Write([]byte{byte(c), byte(c >> 8)})
	}
	return int(h.Sum32() % uint32(r.cfg.Shards)), false
}

func (r *Runner) runOne(w work, body func(x *Exec, own bool)) {
	x := &Exec{r: r, prefix: w.prefix, labels: w.labels}
	// ownership is decided on the work item's prefix (what identifies the subtree)
	sh, shared := r.owner(w.prefix)
	if !shared && sh != r.cfg.Shard {
		return
	}
	own := sh == r.cfg.Shard
	body(x, own)
	if len(x.points) < len(w.prefix) && !x.Diverged {
		if !r.cfg.TolerateDivergence {
			panic(Divergence{fmt.Sprintf("execution ended after %d choice points, prefix has %d", len(x.points), len(w.prefix))})
		}
		x.Diverged = true
		r.stats.Divergences++
	}
	if x.Diverged {
		r.stats.Exhaustive = false
	}
	if own {
		r.stats.Executions++
		r.stats.ChoicePoints += len(x.points)
		if x.cost < len(r.stats.PerLevel) {
			r.stats.PerLevel[x.cost]++
		}
	}
	if len(x.points) > r.stats.MaxDepth {
		r.stats.MaxDepth = len(x.points)
	}
	// children: every alternative at every point past the prefix
	choices := x.Choices()
	labels := x.Labels()
	cost := 0
	plen := len(w.prefix)
	if x.Diverged {
		plen = len(x.prefix)
	}
	for i, p := range x.points {
		if i >= plen {
			for alt := 1; alt < len(p.costs); alt++ {
				c := cost + p.costs[alt]
				if c > r.cfg.MaxCost {
					continue
				}
				np := make([]int, i+1)
				copy(np, choices[:i])
				np[i] = alt
				// prune foreign subtrees early
				if s, shared := r.owner(np); !shared && s != r.cfg.Shard {
					continue
				}
				r.buckets[c] = append(r.buckets[c], work{prefix: np, labels: labels[:i+1], cost: c})
			}
		}
		cost += p.costs[p.chosen]
	}
}

// Replay returns an Exec that follows a fixed choice sequence (defaults after its end); if
// body is non-nil it is run once with it. No exploration, no pruning.
func Replay(choices []int, body func(x *Exec, own bool)) *Exec {
	// tolerant: a recorded choice that no longer fits (the code under test is not deterministic given its
	// choices, or it changed) does not panic inside a thread of the code under test — the execution goes on
	// with defaults and x.Diverged says so
	r := &Runner{cfg: Config{MaxCost: 1 << 30, Shards: 1, TolerateDivergence: true}}
	x := &Exec{r: r, prefix: choices}
	if body != nil {
		body(x, true)
	}
	return x
}
