package world

import "github.com/oauth2-proxy/oauth2-proxy/v7/verifx/sched"

// Store and provider calls are scheduling points only when made by a controlled thread's own
// goroutine (see sched.Strict).
func schedPoint(label string) {
	if sched.Active() != nil && sched.Strict() {
		sched.Point(label)
	}
}

func schedObserve(v string) {
	if sched.Active() != nil && sched.Strict() {
		sched.Observe(v)
	}
}
