package world

import (
	"context"
	"fmt"
	"net"
	"os"
	"sort"
	"strings"
	"sync"
	"time"

	"github.com/alicebob/miniredis/v2"
	miniserver "github.com/alicebob/miniredis/v2/server"
	"github.com/oauth2-proxy/oauth2-proxy/v7/pkg/apis/sessions"
	"github.com/oauth2-proxy/oauth2-proxy/v7/pkg/sessions/redis"
	"github.com/oauth2-proxy/oauth2-proxy/v7/verifx/sched"
)

// StoreCall describes one store operation about to be performed.
type StoreCall struct {
	Seq    int
	Op     string // GET SET DEL PING OBTAIN RELEASE REFRESH PEEK
	Key    string
	Thread int
}

// StoreFault is an injected store answer.
type StoreFault struct {
	Kind string
	// BeforeErr: fail without performing the operation.
	BeforeErr error
	// AfterErr: perform the operation, then report failure (lost reply).
	AfterErr error
	// Mutate transforms the value a GET returns (corruption / truncation).
	Mutate func([]byte) []byte
	// Missing: GET answers "no such key".
	Missing bool
	// NotObtained: OBTAIN answers ErrLockNotObtained without trying.
	NotObtained bool
	// Hang: the operation neither succeeds nor fails; it returns the context's error once the
	// caller's context is done (PING only).
	Hang bool
}

// Redis is miniredis plus the hookable client that replaces the store's own.
type Redis struct {
	M     *miniredis.Miniredis
	mu    sync.Mutex
	Calls []*StoreCall
	seq   int
	// Intercept is consulted before every operation (ENV choice points).
	Intercept func(c *StoreCall) *StoreFault
	// Canon, if set, renders a stored value canonically for the calling thread's observation
	// hash (the raw bytes contain real-clock noise: token expiry computed by dependencies).
	Canon func(key string, val []byte) string

	// DirectFaults makes "error before effect" faults return from the hook itself instead of
	// being produced by the server (see failAtServer).
	DirectFaults bool

	inners   []redis.Client
	unixPath string
	unixL    net.Listener

	// command-level facility (WatchCommands): the commands the SERVER received, and the decision
	// function that may turn a single command into an error reply
	cmdMu    sync.Mutex
	cmdWatch func(c *ServerCmd) string
	cmdLog   []*ServerCmd
	cmdSeq   int
}

// ServerCmd is one Redis command as the server received it, i.e. beneath the repository's own
// client code (pkg/sessions/redis client.go / lock.go), beneath redislock and go-redis: one store
// operation of the hooked Client interface may consist of several of them.
type ServerCmd struct {
	Seq  int      // running number since WatchCommands was called (0-based)
	Name string   // upper case: GET SET DEL EVALSHA ...
	Args []string // arguments as sent (Args[0] is the key for the single-key commands)
}

// WatchCommands installs (f != nil) or removes (f == nil) a server-side pre-hook that sees every
// single command the server receives. f returns "" to let the command execute, or the text of an
// error reply ("ERR ...") that the server sends INSTEAD of executing it (error before effect, at the
// granularity of one command). Every watched command is logged (Commands). The running number and
// the log start afresh with every call. It coexists with the "error before effect" faults of
// Intercept (failAtServer re-installs the watcher after its own server-wide error).
func (r *Redis) WatchCommands(f func(c *ServerCmd) string) {
	r.cmdMu.Lock()
	r.cmdWatch, r.cmdLog, r.cmdSeq = f, nil, 0
	r.cmdMu.Unlock()
	r.installCmdHook()
}

func (r *Redis) installCmdHook() {
	r.cmdMu.Lock()
	f := r.cmdWatch
	r.cmdMu.Unlock()
	if r.M == nil {
		return
	}
	if f == nil {
		r.M.Server().SetPreHook(nil)
		return
	}
	r.M.Server().SetPreHook(func(p *miniserver.Peer, cmd string, args ...string) bool {
		r.cmdMu.Lock()
		w := r.cmdWatch
		if w == nil {
			r.cmdMu.Unlock()
			return false
		}
		c := &ServerCmd{Seq: r.cmdSeq, Name: strings.ToUpper(cmd), Args: append([]string{}, args...)}
		r.cmdSeq++
		r.cmdLog = append(r.cmdLog, c)
		reply := w(c)
		r.cmdMu.Unlock()
		if reply == "" {
			return false
		}
		p.WriteError(reply)
		return true
	})
}

// Commands returns the commands the server received since WatchCommands was called.
func (r *Redis) Commands() []*ServerCmd {
	r.cmdMu.Lock()
	defer r.cmdMu.Unlock()
	return append([]*ServerCmd{}, r.cmdLog...)
}

// NewRedis starts a miniredis on loopback.
func NewRedis() *Redis {
	m, err := miniredis.Run()
	if err != nil {
		panic(err)
	}
	r := &Redis{M: m}
	r.hookClock()
	return r
}

func (r *Redis) hookClock() {
	m := r.M
	m.SetTime(Now())
	OnAdvance(func(d time.Duration) {
		if d > 0 {
			m.FastForward(d)
		}
		m.SetTime(Now())
	})
}

// URL is the connection URL (redis://host:port, or unix://path after ListenUnix).
func (r *Redis) URL() string {
	if r.unixPath != "" {
		return "unix://" + r.unixPath
	}
	return "redis://" + r.M.Addr()
}

// Close stops the server.
func (r *Redis) Close() {
	if r.unixL != nil {
		r.unixL.Close()
		os.Remove(r.unixPath)
		r.unixL = nil
	}
	r.M.Close()
}

// ListenUnix additionally serves the store on a unix-domain socket and makes URL() point to
// it, so that client connections consume no TCP ports (harnesses that build many thousands of
// proxies in one process; every closed loopback TCP connection blocks a port for a minute).
func (r *Redis) ListenUnix(path string) error {
	l, err := net.Listen("unix", path)
	if err != nil {
		return err
	}
	r.unixL, r.unixPath = l, path
	srv := r.M.Server()
	go func() {
		for {
			c, err := l.Accept()
			if err != nil {
				return
			}
			srv.ServeConn(c)
		}
	}()
	return nil
}

// Reset makes the store as good as new for the next world in the same process: all keys
// dropped, call log and hooks cleared, wrapped clients closed, store time = virtual now, and the
// clock hook registered again (callers clear the advance hooks between worlds).
func (r *Redis) Reset() {
	r.CloseClients()
	r.M.FlushAll()
	r.mu.Lock()
	r.Calls, r.seq, r.Intercept, r.Canon = nil, 0, nil, nil
	r.mu.Unlock()
	r.cmdMu.Lock()
	watched := r.cmdWatch != nil
	r.cmdMu.Unlock()
	if watched {
		r.WatchCommands(nil)
	}
	r.hookClock()
}

// CloseClients closes the connection pools of the store clients that were wrapped (the proxy
// never closes its own); for harnesses that build many thousands of worlds in one process.
func (r *Redis) CloseClients() {
	r.mu.Lock()
	in := r.inners
	r.inners = nil
	r.mu.Unlock()
	for _, c := range in {
		if cl, ok := c.(interface{ Close() error }); ok {
			_ = cl.Close()
		}
	}
}

// Wrap returns a client that routes every operation through the hooks and then to inner.
func (r *Redis) Wrap(inner redis.Client) redis.Client {
	r.mu.Lock()
	r.inners = append(r.inners, inner)
	r.mu.Unlock()
	return &hookClient{r: r, in: inner}
}

type hookClient struct {
	r  *Redis
	in redis.Client
}

func (r *Redis) begin(op, key string) (*StoreCall, *StoreFault) {
	schedPoint("store:" + op)
	r.mu.Lock()
	r.seq++
	c := &StoreCall{Seq: r.seq, Op: op, Key: key, Thread: sched.CurrentID()}
	r.Calls = append(r.Calls, c)
	icpt := r.Intercept
	r.mu.Unlock()
	if icpt != nil {
		if f := icpt(c); f != nil {
			schedObserve("store-fault:" + op + ":" + f.Kind)
			return c, f
		}
	}
	return c, nil
}

func obs(op string, err error, extra string) {
	e := ""
	if err != nil {
		e = err.Error()
	}
	schedObserve("store:" + op + ":" + e + ":" + extra)
}

func (h *hookClient) Get(ctx context.Context, key string) ([]byte, error) {
	_, f := h.r.begin("GET", key)
	if f != nil {
		if f.BeforeErr != nil {
			return nil, h.r.failAtServer(f.BeforeErr, func() error { _, e := h.in.Get(ctx, key); return e })
		}
		if f.Missing {
			return nil, fmt.Errorf("redis: nil")
		}
	}
	v, err := h.in.Get(ctx, key)
	if f != nil {
		if f.AfterErr != nil {
			return nil, f.AfterErr
		}
		if f.Mutate != nil && err == nil {
			v = f.Mutate(v)
		}
	}
	if h.r.Canon != nil && err == nil {
		obs("GET", err, h.r.Canon(key, v))
	} else {
		obs("GET", err, fmt.Sprintf("%x", fnvb(v)))
	}
	return v, err
}

func (h *hookClient) Set(ctx context.Context, key string, value []byte, exp time.Duration) error {
	_, f := h.r.begin("SET", key)
	if f != nil && f.BeforeErr != nil {
		return h.r.failAtServer(f.BeforeErr, func() error { return h.in.Set(ctx, key, value, exp) })
	}
	err := h.in.Set(ctx, key, value, exp)
	if f != nil && f.AfterErr != nil {
		return f.AfterErr
	}
	obs("SET", err, "")
	return err
}

func (h *hookClient) Del(ctx context.Context, key string) error {
	_, f := h.r.begin("DEL", key)
	if f != nil && f.BeforeErr != nil {
		return h.r.failAtServer(f.BeforeErr, func() error { return h.in.Del(ctx, key) })
	}
	err := h.in.Del(ctx, key)
	if f != nil && f.AfterErr != nil {
		return f.AfterErr
	}
	obs("DEL", err, "")
	return err
}

func (h *hookClient) Ping(ctx context.Context) error {
	_, f := h.r.begin("PING", "")
	if f != nil && f.Hang {
		<-ctx.Done()
		return ctx.Err()
	}
	if f != nil && f.BeforeErr != nil {
		return h.r.failAtServer(f.BeforeErr, func() error { return h.in.Ping(ctx) })
	}
	err := h.in.Ping(ctx)
	if f != nil && f.AfterErr != nil {
		return f.AfterErr
	}
	obs("PING", err, "")
	return err
}

// failAtServer delivers an "error before effect" beneath the repository's own client and lock
// code: the server answers the operation's commands with an error reply, so the error travels
// through pkg/sessions/redis (client.go, lock.go) and its dependencies exactly as a real one
// would, instead of being returned by the hook above them. If the operation reports success all
// the same, the injected error is returned.
func (r *Redis) failAtServer(injected error, op func() error) error {
	if r.DirectFaults || r.M == nil {
		return injected
	}
	r.M.SetError("ERR " + injected.Error())
	err := op()
	r.M.SetError("")
	r.cmdMu.Lock()
	watched := r.cmdWatch != nil
	r.cmdMu.Unlock()
	if watched {
		// SetError shares the server's single pre-hook slot with WatchCommands: put the watcher back
		r.installCmdHook()
	}
	if err == nil {
		return injected
	}
	return err
}

func (h *hookClient) Lock(key string) sessions.Lock {
	return &hookLock{r: h.r, in: h.in.Lock(key), key: key}
}

type hookLock struct {
	r   *Redis
	in  sessions.Lock
	key string
}

func (l *hookLock) Obtain(ctx context.Context, exp time.Duration) error {
	_, f := l.r.begin("OBTAIN", l.key)
	if f != nil {
		if f.BeforeErr != nil {
			return l.r.failAtServer(f.BeforeErr, func() error { return l.in.Obtain(ctx, exp) })
		}
		if f.NotObtained {
			return sessions.ErrLockNotObtained
		}
	}
	err := l.in.Obtain(ctx, exp)
	if f != nil && f.AfterErr != nil {
		return f.AfterErr
	}
	if err != sessions.ErrLockNotObtained {
		// a failed poll leaves the caller where it was (top of its retry loop): it is not folded
		// into the observation hash, so that polling does not create new states
		obs("OBTAIN", err, "")
	}
	return err
}

func (l *hookLock) Peek(ctx context.Context) (bool, error) {
	_, f := l.r.begin("PEEK", l.key)
	if f != nil && f.BeforeErr != nil {
		return false, l.r.failAtServer(f.BeforeErr, func() error { _, e := l.in.Peek(ctx); return e })
	}
	ok, err := l.in.Peek(ctx)
	obs("PEEK", err, fmt.Sprint(ok))
	return ok, err
}

func (l *hookLock) Refresh(ctx context.Context, exp time.Duration) error {
	_, f := l.r.begin("REFRESH", l.key)
	if f != nil && f.BeforeErr != nil {
		return l.r.failAtServer(f.BeforeErr, func() error { return l.in.Refresh(ctx, exp) })
	}
	err := l.in.Refresh(ctx, exp)
	if f != nil && f.AfterErr != nil {
		return f.AfterErr
	}
	obs("REFRESH", err, "")
	return err
}

func (l *hookLock) Release(ctx context.Context) error {
	_, f := l.r.begin("RELEASE", l.key)
	if f != nil && f.BeforeErr != nil {
		return l.r.failAtServer(f.BeforeErr, func() error { return l.in.Release(ctx) })
	}
	err := l.in.Release(ctx)
	if f != nil && f.AfterErr != nil {
		return f.AfterErr
	}
	obs("RELEASE", err, "")
	return err
}

func fnvb(b []byte) uint32 {
	h := uint32(2166136261)
	for _, c := range b {
		h ^= uint32(c)
		h *= 16777619
	}
	return h
}

// Keys lists the keys currently in the store, sorted.
func (r *Redis) Keys() []string {
	ks := r.M.Keys()
	sort.Strings(ks)
	return ks
}

// SessionKeys lists keys that are not lock keys.
func (r *Redis) SessionKeys() []string {
	var out []string
	for _, k := range r.Keys() {
		if !strings.HasSuffix(k, ".lock") {
			out = append(out, k)
		}
	}
	return out
}

// NumCalls is the number of store calls so far.
func (r *Redis) NumCalls() int {
	r.mu.Lock()
	defer r.mu.Unlock()
	return len(r.Calls)
}

// Ops renders the op sequence since index from.
func (r *Redis) Ops(from int) []string {
	r.mu.Lock()
	defer r.mu.Unlock()
	var out []string
	for _, c := range r.Calls[from:] {
		out = append(out, c.Op)
	}
	return out
}
