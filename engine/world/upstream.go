package world

import (
	"crypto/sha256"
	"encoding/hex"
	"fmt"
	"io"
	"net"
	"net/http"
	"net/http/httptest"
	"os"
	"sync"
)

// UpReq is what a recording upstream saw.
type UpReq struct {
	Upstream   string
	Method     string
	RequestURI string
	Host       string
	Header     http.Header
	BodyLen    int
	BodySHA    string
	Proto      string
}

// Upstream is a recording echo server on loopback.
type Upstream struct {
	Name string
	srv  *httptest.Server
	mu   sync.Mutex
	Log  []*UpReq
	// Respond customises the answer (default: 200, X-Upstream: name, body "upstream:<name>")
	Respond func(w http.ResponseWriter, r *http.Request)
	sock    string
}

// NewUpstream starts a recording upstream.
func NewUpstream(name string) *Upstream {
	u := &Upstream{Name: name}
	l, err := net.Listen("tcp", "127.0.0.1:0")
	if err != nil {
		panic(err)
	}
	u.srv = &httptest.Server{Listener: l, Config: &http.Server{Handler: http.HandlerFunc(u.handle)}}
	u.srv.Start()
	return u
}

// NewUpstreamUnix starts a recording upstream on a unix socket (URL() is unix://<path>).
func NewUpstreamUnix(name, sock string) *Upstream {
	u := &Upstream{Name: name, sock: sock}
	_ = os.Remove(sock)
	l, err := net.Listen("unix", sock)
	if err != nil {
		panic(err)
	}
	u.srv = &httptest.Server{Listener: l, Config: &http.Server{Handler: http.HandlerFunc(u.handle)}}
	u.srv.Start()
	return u
}

func (u *Upstream) handle(w http.ResponseWriter, r *http.Request) {
	body, _ := io.ReadAll(r.Body)
	sum := sha256.Sum256(body)
	rec := &UpReq{Upstream: u.Name, Method: r.Method, RequestURI: r.RequestURI, Host: r.Host, Header: r.Header.Clone(),
		BodyLen: len(body), BodySHA: hex.EncodeToString(sum[:8]), Proto: r.Proto}
	u.mu.Lock()
	u.Log = append(u.Log, rec)
	u.mu.Unlock()
	if u.Respond != nil {
		u.Respond(w, r)
		return
	}
	w.Header().Set("X-Upstream", u.Name)
	w.Header().Set("Content-Type", "text/plain")
	w.WriteHeader(200)
	fmt.Fprintf(w, "upstream:%s", u.Name)
}

// URL of the upstream (http://127.0.0.1:port).
func (u *Upstream) URL() string {
	if u.sock != "" {
		return "unix://" + u.sock
	}
	return u.srv.URL
}

// Take returns and clears the log.
func (u *Upstream) Take() []*UpReq {
	u.mu.Lock()
	defer u.mu.Unlock()
	l := u.Log
	u.Log = nil
	return l
}

// Hits is the current log length.
func (u *Upstream) Hits() int {
	u.mu.Lock()
	defer u.mu.Unlock()
	return len(u.Log)
}

// Close stops the server.
func (u *Upstream) Close() { u.srv.Close() }
