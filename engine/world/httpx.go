package world

import (
	"bufio"
	"bytes"
	"context"
	"fmt"
	"net/http"
	"net/http/httptest"
	"runtime"
	"strings"

	"github.com/oauth2-proxy/oauth2-proxy/v7/verifx/sched"
)

// Req describes one request as raw as a server would see it.
type Req struct {
	Method  string
	Target  string // request-target exactly as on the wire
	Host    string
	Headers [][2]string // in order, names as sent
	Body    string
	Remote  string // RemoteAddr ("ip:port"); default 192.0.2.1:40000
	HTTPS   bool
	RawHead string // if set, used verbatim instead of Method/Target/Host/Headers
	HTTP10  bool   // send as HTTP/1.0 (with Host == "" this is a legal request without a Host header)
}

// Resp is the recorded response.
type Resp struct {
	Status   int
	Header   http.Header
	Body     string
	Panic    any
	Stack    string
	ParseErr error
	Info     []Informational // interim 1xx responses, in order
	// Aborted: the handler ended with panic(http.ErrAbortHandler) — net/http's server then drops the
	// connection without completing the response (what httputil.ReverseProxy does when the upstream
	// breaks off mid-body). Status, Header and Body are what had been sent until then.
	Aborted bool
}

// Parse turns the description into the *http.Request a Go server would hand to a handler.
func (r *Req) Parse() (*http.Request, error) {
	var b bytes.Buffer
	if r.RawHead != "" {
		b.WriteString(r.RawHead)
	} else {
		m := r.Method
		if m == "" {
			m = "GET"
		}
		proto := "HTTP/1.1"
		if r.HTTP10 {
			proto = "HTTP/1.0"
		}
		fmt.Fprintf(&b, "%s %s %s\r\n", m, r.Target, proto)
		if r.Host != "" {
			fmt.Fprintf(&b, "Host: %s\r\n", r.Host)
		}
		hasCL := false
		for _, h := range r.Headers {
			fmt.Fprintf(&b, "%s: %s\r\n", h[0], h[1])
			if strings.EqualFold(h[0], "Content-Length") || strings.EqualFold(h[0], "Transfer-Encoding") {
				hasCL = true
			}
		}
		if r.Body != "" && !hasCL {
			fmt.Fprintf(&b, "Content-Length: %d\r\n", len(r.Body))
		}
		b.WriteString("\r\n")
	}
	b.WriteString(r.Body)
	req, err := http.ReadRequest(bufio.NewReader(&b))
	if err != nil {
		return nil, err
	}
	req.RemoteAddr = r.Remote
	if req.RemoteAddr == "" {
		req.RemoteAddr = "192.0.2.1:40000"
	}
	return req, nil
}

// Serve runs the request through h with a recover() directly around ServeHTTP.
func Serve(h http.Handler, r *Req) *Resp {
	req, err := r.Parse()
	if err != nil {
		return &Resp{Status: 400, ParseErr: err, Header: http.Header{}}
	}
	return ServeHTTP(h, req)
}

// clientWriter is the ResponseWriter handed to the handler: httptest's recorder, except that an
// informational status (1xx other than 101) is what it is for net/http's server — an interim
// response sent with the current headers, after which the handler goes on to the final one (the
// recorder would take the first WriteHeader for the final status).
type clientWriter struct {
	rec  *httptest.ResponseRecorder
	Info []Informational
}

// Informational is an interim (1xx) response the client received before the final one.
type Informational struct {
	Status int
	Header http.Header
}

func (w *clientWriter) Header() http.Header               { return w.rec.Header() }
func (w *clientWriter) Write(b []byte) (int, error)       { return w.rec.Write(b) }
func (w *clientWriter) WriteString(s string) (int, error) { return w.rec.WriteString(s) }
func (w *clientWriter) Flush()                            { w.rec.Flush() }
func (w *clientWriter) WriteHeader(code int) {
	if code >= 100 && code <= 199 && code != http.StatusSwitchingProtocols {
		w.Info = append(w.Info, Informational{Status: code, Header: w.rec.Header().Clone()})
		return
	}
	w.rec.WriteHeader(code)
}

var serverForContext = &http.Server{}

// ServeHTTP runs an already built request.
func ServeHTTP(h http.Handler, req *http.Request) (out *Resp) {
	rec := httptest.NewRecorder()
	cw := &clientWriter{rec: rec}
	out = &Resp{}
	func() {
		defer func() {
			if p := recover(); p != nil {
				if sched.IsAbort(p) {
					panic(p)
				}
				if p == http.ErrAbortHandler {
					out.Aborted = true
					return
				}
				out.Panic = p
				buf := make([]byte, 8192)
				out.Stack = string(buf[:runtime.Stack(buf, false)])
			}
		}()
		// as under net/http's server: handlers (httputil.ReverseProxy) look for this key to decide whether
		// aborting the response by panic(http.ErrAbortHandler) is available to them
		h.ServeHTTP(cw, req.WithContext(context.WithValue(req.Context(), http.ServerContextKey, serverForContext)))
	}()
	out.Info = cw.Info
	// the header snapshot taken when the status line was written: what a client receives
	// (rec.Header() would also show headers a handler adds too late)
	res := rec.Result()
	out.Status = res.StatusCode
	out.Header = res.Header.Clone()
	out.Body = rec.Body.String()
	return out
}

// SetCookieLines returns the raw Set-Cookie lines.
func (r *Resp) SetCookieLines() []string { return r.Header.Values("Set-Cookie") }

// Cookies parses the Set-Cookie headers.
func (r *Resp) Cookies() []*http.Cookie {
	return (&http.Response{Header: r.Header}).Cookies()
}

// Location header.
func (r *Resp) Location() string { return r.Header.Get("Location") }

// PanicSite extracts the first repository frame of a recorded panic stack (finding keys).
func (r *Resp) PanicSite() string {
	lines := strings.Split(r.Stack, "\n")
	for i := 0; i+1 < len(lines); i++ {
		l := strings.TrimSpace(lines[i+1])
		if strings.Contains(l, "/verifx/") || strings.Contains(l, "zz_verif_") || strings.Contains(l, "/verif/") {
			continue
		}
		// (the function line identifies repository code also when the tree under test is a scratch worktree)
		fnLine := strings.TrimSpace(lines[i])
		repoFn := strings.HasPrefix(fnLine, "github.com/oauth2-proxy/oauth2-proxy/") && !strings.Contains(fnLine, "/verifx/")
		if (strings.Contains(l, "oauth2-proxy") || strings.HasPrefix(l, "/repo/") || repoFn) && strings.Contains(l, ".go:") {
			fn := strings.TrimSpace(lines[i])
			if j := strings.LastIndex(fn, "("); j > 0 {
				fn = fn[:j]
			}
			if j := strings.LastIndex(fn, "/"); j >= 0 {
				fn = fn[j+1:]
			}
			return fn
		}
	}
	return "unknown"
}
