package world

import (
	"bytes"
	"crypto"
	"crypto/hmac"
	"crypto/rand"
	"crypto/rsa"
	"crypto/sha256"
	"crypto/x509"
	"encoding/base64"
	"encoding/json"
	"encoding/pem"
	"errors"
	"fmt"
	"io"
	"net/http"
	"net/url"
	"regexp"
	"sort"
	"strings"
	"sync"
	"time"

	jose "github.com/go-jose/go-jose/v3"
	"github.com/oauth2-proxy/oauth2-proxy/v7/pkg/requests"
	"github.com/oauth2-proxy/oauth2-proxy/v7/verifx/sched"
)

const (
	IssuerHost   = "idp.example"
	Issuer       = "https://idp.example"
	Issuer2Host  = "idp2.example"
	Issuer2      = "https://idp2.example"
	ClientID     = "proxy-client"
	ClientSecret = "proxy-secret"
)

// process-wide keys (generated once with the real generator; RSA key generation is
// deliberately non-deterministic in the standard library)
var (
	keyOnce                       sync.Once
	KeyMain, KeyOther, KeyIssuer2 *rsa.PrivateKey
)

func genKeys() {
	keyOnce.Do(func() {
		var err error
		for _, k := range []**rsa.PrivateKey{&KeyMain, &KeyOther, &KeyIssuer2} {
			*k, err = rsa.GenerateKey(realReader, 2048)
			if err != nil {
				panic(err)
			}
		}
	})
}

// User is an account at the identity provider.
type User struct {
	Sub               string
	Email             string
	EmailVerified     any // bool, string, nil = claim absent
	Groups            any // []string, string, nil, anything
	PreferredUsername string
	Extra             map[string]any // additional / overriding claims ("" value = drop claim)
}

// AuthRequest is what the provider recorded for one authorization request.
type AuthRequest struct {
	ClientID, RedirectURI, Scope, State, Nonce string
	Challenge, ChallengeMethod                 string
	Raw                                        url.Values
	Code                                       string
	User                                       *User
	Used                                       bool
}

// Call is one logged request to the provider.
type Call struct {
	Seq      int
	Endpoint string // discovery, jwks, token, userinfo, validate
	Grant    string // authorization_code / refresh_token
	Form     url.Values
	Header   http.Header
	Status   int
	Note     string
	Thread   int
}

// TokenSpec controls how an ID token is minted.
type TokenSpec struct {
	Signer    string // "main" (default), "other", "none", "hs256-pem", "hs256-jwk", "unknown-kid", "issuer2"
	Issuer    *string
	Audience  any // nil = client id; "" (string) with DropAud = absent
	DropAud   bool
	Expiry    string // "" = valid (+24h beyond horizon), "expired", "absent"
	Nonce     *string
	DropNonce bool
	Claims    map[string]any // extra/override; value nil = drop
}

type family struct {
	id      int
	current string
	revoked bool
	user    *User
	nonce   string
	gen     int
}

// Fault is an injected provider answer.
type Fault struct {
	Kind string
	// Respond, if non-nil, produces the response (or transport error) instead of the healthy one.
	Respond func(req *http.Request, healthy func() *http.Response) (*http.Response, error)
}

// IdP is the in-memory identity provider (DESIGN.md Appendix E).
type IdP struct {
	mu       sync.Mutex
	Users    map[string]*User
	Auths    map[string]*AuthRequest // by code
	AuthLog  []*AuthRequest
	Calls    []*Call
	families map[string]*family // by refresh token (current or old)
	famList  []*family
	access   map[string]*User // live access tokens
	seq      int
	codeSeq  int

	// knobs
	NonceMode          string                      // "echo" (default), "other", "empty", "absent", "raw"
	RawNonce           func(a *AuthRequest) string // for "raw"
	OtherNonce         string
	IDTokenSpec        func(a *AuthRequest, u *User, refresh bool) *TokenSpec
	NoRefreshToken     bool
	NoIDTokenOnRefresh bool
	// Issuer2Discovery: how the second issuer answers OIDC discovery: "" = well-formed, "404" = it has
	// no discovery document (only /.well-known/jwks.json), "trailing-slash" = the document spells the
	// issuer with a trailing slash (the verifier set up at start-up has to cope with its first attempt failing)
	Issuer2Discovery   string
	StaticRefreshToken bool // refresh grants do not rotate the refresh token (one saved browser state can be refreshed repeatedly)
	RefreshFails       bool
	TokenPadding       int // extra bytes in access tokens minted on refresh (growing sessions)
	// TokenPaddingRandom: the padding is taken from a deterministic hash stream (keyed by the
	// token generation) instead of a repeated 'x', so that compression cannot shrink it away.
	TokenPaddingRandom bool
	AccessTTL          time.Duration
	ValidateOK         bool
	UserinfoClaims     map[string]any // overrides for the userinfo response
	PKCEMethods        []string
	// Intercept is consulted for every call (ENV choice points); returning a Fault replaces
	// the healthy answer.
	Intercept func(c *Call, req *http.Request) *Fault

	// violations the provider itself detects (PKCE etc.)
	Problems   []string
	Verifiers  []string
	Grants     int // successful refresh grants
	CodeGrants int
}

// NewIdP creates a provider with two standard users and installs it as the transport of
// every HTTP client the proxy uses to reach its provider.
func NewIdP() *IdP {
	genKeys()
	p := &IdP{
		Users:       map[string]*User{},
		Auths:       map[string]*AuthRequest{},
		families:    map[string]*family{},
		access:      map[string]*User{},
		NonceMode:   "echo",
		AccessTTL:   time.Hour,
		ValidateOK:  true,
		PKCEMethods: []string{"S256", "plain"},
	}
	p.Users["alice"] = &User{Sub: "alice-sub", Email: "alice@example.com", EmailVerified: true, Groups: []string{"staff", "admins"}, PreferredUsername: "alice"}
	p.Users["bob"] = &User{Sub: "bob-sub", Email: "bob@other.org", EmailVerified: true, Groups: []string{"guests"}, PreferredUsername: "bobby"}
	p.Install()
	return p
}

type routed struct {
	idp  *IdP
	next http.RoundTripper
}

func (r *routed) RoundTrip(req *http.Request) (*http.Response, error) {
	h := req.URL.Hostname()
	if h == IssuerHost || h == Issuer2Host {
		return r.idp.RoundTrip(req)
	}
	if r.next == nil {
		return nil, errors.New("world: no network")
	}
	return r.next.RoundTrip(req)
}

var origDefaultClientTransport = http.DefaultClient.Transport

// Install makes this provider the one reachable at idp.example.
func (p *IdP) Install() {
	requests.DefaultHTTPClient.Transport = &routed{idp: p, next: http.DefaultTransport}
	http.DefaultClient.Transport = &routed{idp: p, next: http.DefaultTransport}
}

func jsonResp(req *http.Request, status int, v any) *http.Response {
	var body []byte
	switch b := v.(type) {
	case []byte:
		body = b
	case string:
		body = []byte(b)
	default:
		body, _ = json.Marshal(v)
	}
	return &http.Response{
		StatusCode: status, Status: fmt.Sprintf("%d %s", status, http.StatusText(status)),
		Proto: "HTTP/1.1", ProtoMajor: 1, ProtoMinor: 1,
		Header:        http.Header{"Content-Type": {"application/json"}},
		Body:          io.NopCloser(bytes.NewReader(body)),
		ContentLength: int64(len(body)),
		Request:       req,
	}
}

// RawResponse builds a response with arbitrary body and content type.
func RawResponse(req *http.Request, status int, ctype string, body []byte) *http.Response {
	r := jsonResp(req, status, body)
	r.Header.Set("Content-Type", ctype)
	return r
}

// RoundTrip serves one provider request.
func (p *IdP) RoundTrip(req *http.Request) (*http.Response, error) {
	endpoint := "unknown"
	switch req.URL.Path {
	case "/.well-known/openid-configuration":
		endpoint = "discovery"
	case "/jwks", "/.well-known/jwks.json":
		endpoint = "jwks"
	case "/token":
		endpoint = "token"
	case "/userinfo":
		endpoint = "userinfo"
	case "/validate":
		endpoint = "validate"
	case "/logout":
		endpoint = "logout"
	}
	schedPoint("idp:" + endpoint)
	var form url.Values
	if req.Body != nil {
		b, _ := io.ReadAll(req.Body)
		req.Body.Close()
		form, _ = url.ParseQuery(string(b))
	}
	p.mu.Lock()
	p.seq++
	c := &Call{Seq: p.seq, Endpoint: endpoint, Form: form, Header: req.Header.Clone(), Grant: form.Get("grant_type"), Thread: sched.CurrentID()}
	p.Calls = append(p.Calls, c)
	icpt := p.Intercept
	p.mu.Unlock()

	healthy := func() *http.Response {
		p.mu.Lock()
		defer p.mu.Unlock()
		r := p.serve(c, req, form)
		c.Status = r.StatusCode
		return r
	}
	if icpt != nil {
		if f := icpt(c, req); f != nil {
			c.Note = "fault:" + f.Kind
			resp, err := f.Respond(req, healthy)
			if resp != nil {
				c.Status = resp.StatusCode
			}
			schedObserve(fmt.Sprintf("idp-fault:%s", f.Kind))
			return resp, err
		}
	}
	resp := healthy()
	schedObserve(fmt.Sprintf("idp:%s:%d:%s", endpoint, resp.StatusCode, c.Note))
	return resp, nil
}

func (p *IdP) issuerOf(req *http.Request) (string, *rsa.PrivateKey, string) {
	if req.URL.Hostname() == Issuer2Host {
		return Issuer2, KeyIssuer2, "key-issuer2"
	}
	return Issuer, KeyMain, "key-main"
}

func (p *IdP) serve(c *Call, req *http.Request, form url.Values) *http.Response {
	iss, key, kid := p.issuerOf(req)
	switch c.Endpoint {
	case "discovery":
		if req.URL.Hostname() == Issuer2Host {
			switch p.Issuer2Discovery {
			case "404":
				return RawResponse(req, 404, "text/plain", []byte("no discovery document here"))
			case "trailing-slash":
				iss += "/"
			}
		}
		return jsonResp(req, 200, map[string]any{
			"issuer":                                iss,
			"authorization_endpoint":                iss + "/authorize",
			"token_endpoint":                        iss + "/token",
			"userinfo_endpoint":                     iss + "/userinfo",
			"jwks_uri":                              iss + "/jwks",
			"id_token_signing_alg_values_supported": []string{"RS256"},
			"code_challenge_methods_supported":      p.PKCEMethods,
			"response_types_supported":              []string{"code"},
			"subject_types_supported":               []string{"public"},
		})
	case "jwks":
		ks := jose.JSONWebKeySet{Keys: []jose.JSONWebKey{{Key: &key.PublicKey, KeyID: kid, Algorithm: "RS256", Use: "sig"}}}
		return jsonResp(req, 200, ks)
	case "token":
		return p.token(c, req, form)
	case "userinfo":
		auth := req.Header.Get("Authorization")
		tok := strings.TrimPrefix(auth, "Bearer ")
		u, ok := p.access[tok]
		if !ok {
			return jsonResp(req, 401, map[string]any{"error": "invalid_token"})
		}
		claims := p.userClaims(u)
		for k, v := range p.UserinfoClaims {
			if v == nil {
				delete(claims, k)
			} else {
				claims[k] = v
			}
		}
		return jsonResp(req, 200, claims)
	case "validate":
		tok := strings.TrimPrefix(req.Header.Get("Authorization"), "Bearer ")
		if tok == "" {
			tok = req.URL.Query().Get("access_token")
		}
		if _, ok := p.access[tok]; ok && p.ValidateOK {
			return jsonResp(req, 200, map[string]any{"ok": true})
		}
		return jsonResp(req, 401, map[string]any{"error": "invalid_token"})
	case "logout":
		return jsonResp(req, 200, map[string]any{})
	}
	return jsonResp(req, 404, map[string]any{"error": "not_found"})
}

func (p *IdP) userClaims(u *User) map[string]any {
	m := map[string]any{"sub": u.Sub}
	if u.Email != "" {
		m["email"] = u.Email
	}
	if u.EmailVerified != nil {
		m["email_verified"] = u.EmailVerified
	}
	if u.Groups != nil {
		m["groups"] = u.Groups
	}
	if u.PreferredUsername != "" {
		m["preferred_username"] = u.PreferredUsername
	}
	for k, v := range u.Extra {
		if v == nil {
			delete(m, k)
		} else {
			m[k] = v
		}
	}
	return m
}

var verifierRE = regexp.MustCompile(`^[A-Za-z0-9\-._~]{43,128}$`)

func oauthErr(req *http.Request, code string) *http.Response {
	return jsonResp(req, 400, map[string]any{"error": code})
}

func (p *IdP) problem(format string, a ...any) {
	p.Problems = append(p.Problems, fmt.Sprintf(format, a...))
}

func (p *IdP) token(c *Call, req *http.Request, form url.Values) *http.Response {
	// client authentication: basic or form
	cid, csec := form.Get("client_id"), form.Get("client_secret")
	if u, pw, ok := req.BasicAuth(); ok {
		cid, _ = url.QueryUnescape(u)
		csec, _ = url.QueryUnescape(pw)
	}
	if cid != ClientID || csec != ClientSecret {
		c.Note = "bad-client"
		return jsonResp(req, 401, map[string]any{"error": "invalid_client"})
	}
	switch form.Get("grant_type") {
	case "authorization_code":
		a := p.Auths[form.Get("code")]
		if a == nil {
			c.Note = "unknown-code"
			return oauthErr(req, "invalid_grant")
		}
		if a.Used {
			c.Note = "code-reuse"
			return oauthErr(req, "invalid_grant")
		}
		a.Used = true
		if form.Get("redirect_uri") != a.RedirectURI {
			c.Note = "redirect-mismatch"
			return oauthErr(req, "invalid_grant")
		}
		// PKCE (RFC 7636 §4.6)
		v := form.Get("code_verifier")
		if a.Challenge != "" {
			if v == "" {
				c.Note = "pkce-missing-verifier"
				p.problem("token request for code %s lacks code_verifier although a challenge was sent", a.Code)
				return oauthErr(req, "invalid_grant")
			}
			if !verifierRE.MatchString(v) {
				p.problem("code_verifier violates RFC 7636 syntax: len=%d", len(v))
			}
			for _, old := range p.Verifiers {
				if old == v {
					p.problem("code_verifier repeated across logins")
				}
			}
			p.Verifiers = append(p.Verifiers, v)
			var want string
			switch a.ChallengeMethod {
			case "S256":
				s := sha256.Sum256([]byte(v))
				want = base64.RawURLEncoding.EncodeToString(s[:])
			case "plain", "":
				want = v
			default:
				c.Note = "pkce-bad-method"
				return oauthErr(req, "invalid_request")
			}
			if want != a.Challenge {
				c.Note = "pkce-mismatch"
				p.problem("code_verifier does not match the challenge of the same login (method %s)", a.ChallengeMethod)
				return oauthErr(req, "invalid_grant")
			}
		} else if v != "" {
			c.Note = "pkce-unexpected-verifier"
		}
		p.CodeGrants++
		c.Note = "code-ok"
		return p.issue(req, a, a.User, nil)
	case "refresh_token":
		rt := form.Get("refresh_token")
		f := p.families[rt]
		if f == nil || p.RefreshFails {
			c.Note = "refresh-unknown"
			return oauthErr(req, "invalid_grant")
		}
		if f.revoked || f.current != rt {
			// reuse of a rotated token: revoke the family (what makes a double refresh observable)
			f.revoked = true
			c.Note = "refresh-reuse"
			return oauthErr(req, "invalid_grant")
		}
		p.Grants++
		c.Note = "refresh-ok"
		return p.issue(req, nil, f.user, f)
	}
	return oauthErr(req, "unsupported_grant_type")
}

func (p *IdP) issue(req *http.Request, a *AuthRequest, u *User, f *family) *http.Response {
	refresh := f != nil
	p.codeSeq++
	gen := p.codeSeq
	at := fmt.Sprintf("at-%d-%s", gen, u.Sub)
	if refresh && p.TokenPadding > 0 {
		at += "-" + p.padding(gen, p.TokenPadding)
	}
	p.access[at] = u
	out := map[string]any{
		"access_token": at,
		"token_type":   "Bearer",
		"expires_in":   int64((p.AccessTTL + RealAhead()).Seconds()),
	}
	nonce := ""
	if a != nil {
		nonce = a.Nonce
	} else if f != nil {
		nonce = f.nonce
	}
	if !p.NoRefreshToken {
		if f == nil {
			f = &family{id: len(p.famList), user: u, nonce: nonce}
			p.famList = append(p.famList, f)
		}
		if refresh && p.StaticRefreshToken && f.current != "" {
			out["refresh_token"] = f.current
		} else {
			f.gen++
			rt := fmt.Sprintf("rt-%d-%d", f.id, f.gen)
			f.current = rt
			p.families[rt] = f
			out["refresh_token"] = rt
		}
	}
	if !(refresh && p.NoIDTokenOnRefresh) {
		spec := &TokenSpec{}
		if p.IDTokenSpec != nil {
			if s := p.IDTokenSpec(a, u, refresh); s != nil {
				spec = s
			}
		}
		if spec.Nonce == nil && !spec.DropNonce {
			switch p.NonceMode {
			case "echo", "":
				if nonce != "" {
					spec.Nonce = &nonce
				} else {
					spec.DropNonce = true
				}
			case "other":
				o := p.OtherNonce
				spec.Nonce = &o
			case "empty":
				e := ""
				spec.Nonce = &e
			case "absent":
				spec.DropNonce = true
			case "raw":
				r := ""
				if p.RawNonce != nil && a != nil {
					r = p.RawNonce(a)
				}
				spec.Nonce = &r
			}
		}
		out["id_token"] = p.MintIDToken(u, spec)
	}
	return jsonResp(req, 200, out)
}

// padding returns n bytes of access-token padding for token generation gen.
func (p *IdP) padding(gen, n int) string {
	if !p.TokenPaddingRandom {
		return strings.Repeat("x", n)
	}
	var b strings.Builder
	for i := 0; b.Len() < n; i++ {
		s := sha256.Sum256([]byte(fmt.Sprintf("pad-%d-%d", gen, i)))
		b.WriteString(base64.RawURLEncoding.EncodeToString(s[:]))
	}
	return b.String()[:n]
}

// Authorize plays the user's visit to the authorization endpoint: it validates and records
// the request and returns the redirect back to the client (with code and state).
func (p *IdP) Authorize(loginURL string, user string) (callback string, a *AuthRequest, err error) {
	u, perr := url.Parse(loginURL)
	if perr != nil {
		return "", nil, perr
	}
	if u.Scheme+"://"+u.Host+u.Path != Issuer+"/authorize" {
		return "", nil, fmt.Errorf("login redirect does not target the authorization endpoint: %s", loginURL)
	}
	q := u.Query()
	p.mu.Lock()
	defer p.mu.Unlock()
	p.codeSeq++
	a = &AuthRequest{
		ClientID: q.Get("client_id"), RedirectURI: q.Get("redirect_uri"), Scope: q.Get("scope"),
		State: q.Get("state"), Nonce: q.Get("nonce"),
		Challenge: q.Get("code_challenge"), ChallengeMethod: q.Get("code_challenge_method"),
		Raw: q, Code: fmt.Sprintf("code-%d", p.codeSeq), User: p.Users[user],
	}
	if a.User == nil {
		return "", nil, fmt.Errorf("unknown user %q", user)
	}
	if a.ClientID != ClientID {
		return "", nil, fmt.Errorf("unknown client %q", a.ClientID)
	}
	p.Auths[a.Code] = a
	p.AuthLog = append(p.AuthLog, a)
	ru, perr := url.Parse(a.RedirectURI)
	if perr != nil {
		return "", nil, perr
	}
	rq := ru.Query()
	rq.Set("code", a.Code)
	rq.Set("state", a.State)
	ru.RawQuery = rq.Encode()
	return ru.String(), a, nil
}

// far-future expiry that is valid on the real and on the virtual clock for the whole run
func validExpiry() int64 { return Epoch.Add(1000 * time.Hour).Unix() }

// expired on both clocks
func expiredExpiry() int64 { return realStart.Add(-2 * time.Hour).Unix() }

// MintIDToken signs (or forges) an ID token for u according to spec.
func (p *IdP) MintIDToken(u *User, spec *TokenSpec) string {
	if spec == nil {
		spec = &TokenSpec{}
	}
	claims := p.userClaims(u)
	iss := Issuer
	if spec.Signer == "issuer2" {
		iss = Issuer2
	}
	if spec.Issuer != nil {
		iss = *spec.Issuer
	}
	if iss != "" {
		claims["iss"] = iss
	}
	if !spec.DropAud {
		if spec.Audience != nil {
			claims["aud"] = spec.Audience
		} else {
			claims["aud"] = ClientID
		}
	}
	switch spec.Expiry {
	case "":
		claims["exp"] = validExpiry()
	case "expired":
		claims["exp"] = expiredExpiry()
	case "absent":
	}
	claims["iat"] = Now().Unix()
	if spec.Nonce != nil && !spec.DropNonce {
		claims["nonce"] = *spec.Nonce
	}
	for k, v := range spec.Claims {
		if v == nil {
			delete(claims, k)
		} else {
			claims[k] = v
		}
	}
	return SignJWT(claims, spec.Signer)
}

var (
	sigMu    sync.Mutex
	sigCache = map[string]string{}
)

// SignJWT serialises claims and signs them the way `signer` says.
func SignJWT(claims map[string]any, signer string) string {
	genKeys()
	payload, _ := json.Marshal(claims)
	enc := base64.RawURLEncoding.EncodeToString
	hdr := func(alg, kid string) string {
		h := map[string]any{"alg": alg, "typ": "JWT"}
		if kid != "" {
			h["kid"] = kid
		}
		b, _ := json.Marshal(h)
		return enc(b)
	}
	rs := func(k *rsa.PrivateKey, kid string) string {
		in := hdr("RS256", kid) + "." + enc(payload)
		// PKCS #1 v1.5 signatures are a pure function of key and input (Go ignores the random
		// source here): memoised, because history searches mint the same token (same claims, same
		// virtual time) many thousands of times
		ck := signer + "\x00" + in
		sigMu.Lock()
		cached, ok := sigCache[ck]
		sigMu.Unlock()
		if ok {
			return cached
		}
		sum := sha256.Sum256([]byte(in))
		sig, err := rsa.SignPKCS1v15(rand.Reader, k, crypto.SHA256, sum[:])
		if err != nil {
			panic(err)
		}
		out := in + "." + enc(sig)
		sigMu.Lock()
		if len(sigCache) >= 4096 {
			sigCache = map[string]string{}
		}
		sigCache[ck] = out
		sigMu.Unlock()
		return out
	}
	switch signer {
	case "", "main":
		return rs(KeyMain, "key-main")
	case "other":
		return rs(KeyOther, "key-main") // claims the right kid, wrong key
	case "unknown-kid":
		return rs(KeyMain, "key-unknown")
	case "issuer2":
		return rs(KeyIssuer2, "key-issuer2")
	case "none":
		return hdr("none", "") + "." + enc(payload) + "."
	case "hs256-pem", "hs256-jwk":
		var k []byte
		if signer == "hs256-pem" {
			k = PublicKeyPEM(KeyMain)
		} else {
			k, _ = json.Marshal(jose.JSONWebKey{Key: &KeyMain.PublicKey, KeyID: "key-main", Algorithm: "RS256", Use: "sig"})
		}
		in := hdr("HS256", "key-main") + "." + enc(payload)
		m := hmac.New(sha256.New, k)
		m.Write([]byte(in))
		return in + "." + enc(m.Sum(nil))
	}
	panic("unknown signer " + signer)
}

// PublicKeyPEM renders the PKIX public key.
func PublicKeyPEM(k *rsa.PrivateKey) []byte {
	b, _ := x509.MarshalPKIXPublicKey(&k.PublicKey)
	return pem.EncodeToMemory(&pem.Block{Type: "PUBLIC KEY", Bytes: b})
}

// CallsTo returns the logged calls to an endpoint.
func (p *IdP) CallsTo(endpoint string) []*Call {
	p.mu.Lock()
	defer p.mu.Unlock()
	var out []*Call
	for _, c := range p.Calls {
		if c.Endpoint == endpoint {
			out = append(out, c)
		}
	}
	return out
}

// NumCalls is the number of calls logged so far.
func (p *IdP) NumCalls() int {
	p.mu.Lock()
	defer p.mu.Unlock()
	return len(p.Calls)
}

// IssuedAccessTokens lists the access tokens ever issued (leak scans).
func (p *IdP) IssuedAccessTokens() []string {
	p.mu.Lock()
	defer p.mu.Unlock()
	var out []string
	for k := range p.access {
		out = append(out, k)
	}
	sort.Strings(out)
	return out
}

// StateKey summarises the provider state for state-key pruning.
func (p *IdP) StateKey() string {
	p.mu.Lock()
	defer p.mu.Unlock()
	var b strings.Builder
	for _, f := range p.famList {
		fmt.Fprintf(&b, "f%d:%d:%v;", f.id, f.gen, f.revoked)
	}
	fmt.Fprintf(&b, "g%d;c%d", p.Grants, len(p.Calls))
	return b.String()
}
