package world

import (
	"crypto/aes"
	"crypto/cipher"
	"crypto/rand"
	"crypto/sha256"
	"encoding/binary"
	"io"
	"sync"

	"github.com/google/uuid"
	"github.com/oauth2-proxy/oauth2-proxy/v7/verifx/sched"
)

// detReader is a deterministic replacement of crypto/rand.Reader: an AES-CTR keystream per
// (seed, thread id). Under the scheduler each controlled thread draws from its own stream, so
// what a thread sees does not depend on the interleaving.
type detReader struct {
	mu      sync.Mutex
	seed    int64
	gen     uint64
	streams map[int]cipher.Stream
}

var (
	realReader io.Reader = rand.Reader
	det                  = &detReader{}
)

func (d *detReader) stream(id int) cipher.Stream {
	s, ok := d.streams[id]
	if !ok {
		var b [24]byte
		binary.LittleEndian.PutUint64(b[:], uint64(d.seed))
		binary.LittleEndian.PutUint64(b[8:], uint64(int64(id)))
		binary.LittleEndian.PutUint64(b[16:], d.gen)
		key := sha256.Sum256(b[:])
		blk, _ := aes.NewCipher(key[:])
		s = cipher.NewCTR(blk, make([]byte, 16))
		d.streams[id] = s
	}
	return s
}

func (d *detReader) Read(p []byte) (int, error) {
	id := sched.CurrentID()
	d.mu.Lock()
	defer d.mu.Unlock()
	for i := range p {
		p[i] = 0
	}
	d.stream(id).XORKeyStream(p, p)
	return len(p), nil
}

// SeedRandom installs the deterministic reader (idempotent) and restarts all streams.
// gen distinguishes worlds inside one process so that two worlds never share values
// unless the caller wants them to (same gen = identical stream, used by paired runs).
func SeedRandom(seed int64, gen uint64) {
	det.mu.Lock()
	det.seed = seed
	det.gen = gen
	det.streams = map[int]cipher.Stream{}
	det.mu.Unlock()
	rand.Reader = det
	uuid.SetRand(det)
}

// RealRandom restores the operating system's generator.
func RealRandom() {
	rand.Reader = realReader
	uuid.SetRand(nil)
}
