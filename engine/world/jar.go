package world

import (
	"net/http"
	"sort"
	"strings"
	"time"
)

// Cookie is one stored cookie (RFC 6265 §5.3).
type Cookie struct {
	Name, Value string
	Domain      string // lower case, no leading dot
	HostOnly    bool
	Path        string
	Secure      bool
	HTTPOnly    bool
	SameSite    http.SameSite
	Expires     time.Time // zero = session cookie
	Created     int
	Raw         string
}

// Jar is a browser cookie jar per DESIGN.md Appendix D.
type Jar struct {
	Cookies []*Cookie
	seq     int
	Ignored []string // Set-Cookie lines the browser refused (domain mismatch etc.)
	// History holds every cookie value ever stored (for replay operations).
	History []*Cookie
}

func NewJar() *Jar { return &Jar{} }

// Clone copies the jar (cookies are immutable once stored).
func (j *Jar) Clone() *Jar {
	n := &Jar{seq: j.seq}
	n.Cookies = append(n.Cookies, j.Cookies...)
	n.History = append(n.History, j.History...)
	return n
}

func hostOf(hostport string) string {
	h := hostport
	if strings.HasPrefix(h, "[") {
		if i := strings.Index(h, "]"); i >= 0 {
			return strings.ToLower(h[:i+1])
		}
	}
	if i := strings.LastIndex(h, ":"); i >= 0 {
		h = h[:i]
	}
	return strings.ToLower(h)
}

func domainMatch(host, domain string) bool {
	return host == domain || strings.HasSuffix(host, "."+domain)
}

func defaultPath(p string) string {
	if p == "" || p[0] != '/' {
		return "/"
	}
	i := strings.LastIndex(p, "/")
	if i == 0 {
		return "/"
	}
	return p[:i]
}

func pathMatch(reqPath, cookiePath string) bool {
	if reqPath == "" {
		reqPath = "/"
	}
	if reqPath == cookiePath {
		return true
	}
	if strings.HasPrefix(reqPath, cookiePath) {
		if strings.HasSuffix(cookiePath, "/") || reqPath[len(cookiePath)] == '/' {
			return true
		}
	}
	return false
}

// SetCookies applies the Set-Cookie headers of a response to a request for
// scheme://hostport/path, in order.
func (j *Jar) SetCookies(scheme, hostport, path string, h http.Header) {
	resp := http.Response{Header: h}
	lines := h.Values("Set-Cookie")
	parsed := resp.Cookies()
	if len(parsed) != len(lines) {
		// a Set-Cookie line Go's own parser rejects would be dropped by browsers too
		for _, l := range lines {
			ok := false
			for _, c := range parsed {
				if c.Raw == l {
					ok = true
				}
			}
			if !ok {
				j.Ignored = append(j.Ignored, "unparsable: "+l)
			}
		}
	}
	host := hostOf(hostport)
	for _, c := range parsed {
		sc := &Cookie{Name: c.Name, Value: c.Value, Secure: c.Secure, HTTPOnly: c.HttpOnly, SameSite: c.SameSite, Raw: c.Raw}
		if c.Domain != "" {
			d := strings.ToLower(strings.TrimPrefix(c.Domain, "."))
			if !domainMatch(host, d) {
				j.Ignored = append(j.Ignored, "domain-mismatch: "+c.Raw)
				continue
			}
			sc.Domain = d
		} else {
			sc.Domain = host
			sc.HostOnly = true
		}
		if c.Path == "" || c.Path[0] != '/' {
			sc.Path = defaultPath(path)
		} else {
			sc.Path = c.Path
		}
		if sc.Secure && scheme != "https" {
			j.Ignored = append(j.Ignored, "secure-over-http: "+c.Raw)
			continue
		}
		del := false
		switch {
		case c.MaxAge < 0:
			del = true
		case c.MaxAge > 0:
			sc.Expires = Now().Add(time.Duration(c.MaxAge) * time.Second)
		case !c.Expires.IsZero():
			if !c.Expires.After(Now()) {
				del = true
			}
			sc.Expires = c.Expires
		}
		// find identical key
		idx := -1
		for i, o := range j.Cookies {
			if o.Name == sc.Name && o.Domain == sc.Domain && o.Path == sc.Path && o.HostOnly == sc.HostOnly {
				idx = i
			}
		}
		if del {
			if idx >= 0 {
				j.Cookies = append(j.Cookies[:idx], j.Cookies[idx+1:]...)
			}
			continue
		}
		if idx >= 0 {
			sc.Created = j.Cookies[idx].Created
			j.Cookies[idx] = sc
		} else {
			j.seq++
			sc.Created = j.seq
			j.Cookies = append(j.Cookies, sc)
		}
		j.History = append(j.History, sc)
	}
}

// Expire drops cookies whose expiry has passed on the virtual clock.
func (j *Jar) Expire() {
	keep := j.Cookies[:0]
	for _, c := range j.Cookies {
		if !c.Expires.IsZero() && !c.Expires.After(Now()) {
			continue
		}
		keep = append(keep, c)
	}
	j.Cookies = keep
}

// For returns the cookies a browser sends with a request to scheme://hostport/path,
// longest path first, then earliest creation.
func (j *Jar) For(scheme, hostport, path string) []*Cookie {
	j.Expire()
	host := hostOf(hostport)
	var out []*Cookie
	for _, c := range j.Cookies {
		if c.HostOnly {
			if c.Domain != host {
				continue
			}
		} else if !domainMatch(host, c.Domain) {
			continue
		}
		if !pathMatch(path, c.Path) {
			continue
		}
		if c.Secure && scheme != "https" {
			continue
		}
		out = append(out, c)
	}
	sort.SliceStable(out, func(a, b int) bool {
		if len(out[a].Path) != len(out[b].Path) {
			return len(out[a].Path) > len(out[b].Path)
		}
		return out[a].Created < out[b].Created
	})
	return out
}

// Header renders the Cookie header value for the request ("" if none).
func (j *Jar) Header(scheme, hostport, path string) string {
	return CookieHeader(j.For(scheme, hostport, path))
}

// CookieHeader renders a list of cookies as a Cookie header value.
func CookieHeader(cs []*Cookie) string {
	parts := make([]string, 0, len(cs))
	for _, c := range cs {
		parts = append(parts, c.Name+"="+c.Value)
	}
	return strings.Join(parts, "; ")
}

// Named returns the stored cookies with the given name.
func (j *Jar) Named(name string) []*Cookie {
	var out []*Cookie
	for _, c := range j.Cookies {
		if c.Name == name {
			out = append(out, c)
		}
	}
	return out
}

// Canon renders the jar contents canonically (names, domains, paths, values).
func (j *Jar) Canon() string {
	var parts []string
	for _, c := range j.Cookies {
		parts = append(parts, c.Name+"@"+c.Domain+c.Path+"="+c.Value)
	}
	sort.Strings(parts)
	return strings.Join(parts, ";")
}
