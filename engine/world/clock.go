// Package world is the closed world around the proxy under test: virtual clock,
// deterministic randomness, browser cookie jar, fake identity provider, recording upstreams,
// Redis (miniredis) behind a hookable client. See DESIGN.md §3.3.
package world

import (
	"time"

	repoclock "github.com/oauth2-proxy/oauth2-proxy/v7/pkg/clock"
	"github.com/oauth2-proxy/oauth2-proxy/v7/verifx/vclock"
)

var (
	realStart = time.Now()
	// Epoch is the virtual time at offset zero: real process start + 1h, truncated to a
	// whole second. Virtual time stays ahead of the real clock throughout.
	Epoch  = realStart.Add(time.Hour).Truncate(time.Second)
	offset time.Duration
)

// ResetClock puts the virtual clock back to Epoch.
func ResetClock() {
	offset = 0
	apply()
}

func apply() {
	t := Epoch.Add(offset)
	vclock.Set(t)
	repoclock.Set(t)
}

// Now is the virtual now.
func Now() time.Time { return Epoch.Add(offset) }

// Offset is the current offset from Epoch.
func Offset() time.Duration { return offset }

// Advance moves virtual time (negative values move it back).
func Advance(d time.Duration) {
	offset += d
	apply()
	for _, f := range advanceHooks {
		f(d)
	}
}

var advanceHooks []func(time.Duration)

// OnAdvance registers a hook (e.g. miniredis FastForward). Cleared by ClearAdvanceHooks.
func OnAdvance(f func(time.Duration)) { advanceHooks = append(advanceHooks, f) }

// ClearAdvanceHooks drops all hooks.
func ClearAdvanceHooks() { advanceHooks = nil }

// RealAhead is how far virtual time is ahead of the real clock right now; the fake identity
// provider adds it to expires_in so that expiry times computed by dependencies on the real
// clock land where they should on the virtual clock.
func RealAhead() time.Duration { return Now().Sub(time.Now()) }

func init() {
	// repository code that sleeps on the virtual clock (vtime.Sleep) moves the world too
	vclock.OnAdvance(func(t time.Time) {
		d := t.Sub(Epoch.Add(offset))
		if d != 0 {
			offset += d
			repoclock.Set(t)
			for _, f := range advanceHooks {
				f(d)
			}
		}
	})
}
