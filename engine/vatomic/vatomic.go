// Package vatomic replaces sync/atomic in the packages explored under the scheduler: every
// operation is a scheduling point; the operation itself is the real atomic one.
package vatomic

import (
	real "sync/atomic"
	"unsafe"

	"github.com/oauth2-proxy/oauth2-proxy/v7/verifx/sched"
)

// Hooks switches the scheduling points of atomic operations on (default); explorations whose
// subject is not the instrumented packages switch them off to keep their state space small.
var Hooks = true

func pt(l string) {
	if Hooks {
		sched.Point(l)
	}
}

func LoadPointer(addr *unsafe.Pointer) unsafe.Pointer {
	pt("atomic.LoadPointer")
	return real.LoadPointer(addr)
}
func StorePointer(addr *unsafe.Pointer, v unsafe.Pointer) {
	pt("atomic.StorePointer")
	real.StorePointer(addr, v)
}
func SwapPointer(addr *unsafe.Pointer, v unsafe.Pointer) unsafe.Pointer {
	pt("atomic.SwapPointer")
	return real.SwapPointer(addr, v)
}
func CompareAndSwapPointer(addr *unsafe.Pointer, o, n unsafe.Pointer) bool {
	pt("atomic.CompareAndSwapPointer")
	return real.CompareAndSwapPointer(addr, o, n)
}

func LoadInt32(a *int32) int32       { pt("atomic.LoadInt32"); return real.LoadInt32(a) }
func LoadInt64(a *int64) int64       { pt("atomic.LoadInt64"); return real.LoadInt64(a) }
func LoadUint32(a *uint32) uint32    { pt("atomic.LoadUint32"); return real.LoadUint32(a) }
func LoadUint64(a *uint64) uint64    { pt("atomic.LoadUint64"); return real.LoadUint64(a) }
func LoadUintptr(a *uintptr) uintptr { pt("atomic.LoadUintptr"); return real.LoadUintptr(a) }
func StoreInt32(a *int32, v int32)   { pt("atomic.StoreInt32"); real.StoreInt32(a, v) }
func StoreInt64(a *int64, v int64)   { pt("atomic.StoreInt64"); real.StoreInt64(a, v) }
func StoreUint32(a *uint32, v uint32) {
	pt("atomic.StoreUint32")
	real.StoreUint32(a, v)
}
func StoreUint64(a *uint64, v uint64) {
	pt("atomic.StoreUint64")
	real.StoreUint64(a, v)
}
func StoreUintptr(a *uintptr, v uintptr) {
	pt("atomic.StoreUintptr")
	real.StoreUintptr(a, v)
}
func AddInt32(a *int32, d int32) int32 { pt("atomic.AddInt32"); return real.AddInt32(a, d) }
func AddInt64(a *int64, d int64) int64 { pt("atomic.AddInt64"); return real.AddInt64(a, d) }
func AddUint32(a *uint32, d uint32) uint32 {
	pt("atomic.AddUint32")
	return real.AddUint32(a, d)
}
func AddUint64(a *uint64, d uint64) uint64 {
	pt("atomic.AddUint64")
	return real.AddUint64(a, d)
}
func SwapInt32(a *int32, v int32) int32 { pt("atomic.SwapInt32"); return real.SwapInt32(a, v) }
func SwapInt64(a *int64, v int64) int64 { pt("atomic.SwapInt64"); return real.SwapInt64(a, v) }
func CompareAndSwapInt32(a *int32, o, n int32) bool {
	pt("atomic.CompareAndSwapInt32")
	return real.CompareAndSwapInt32(a, o, n)
}
func CompareAndSwapInt64(a *int64, o, n int64) bool {
	pt("atomic.CompareAndSwapInt64")
	return real.CompareAndSwapInt64(a, o, n)
}
func CompareAndSwapUint32(a *uint32, o, n uint32) bool {
	pt("atomic.CompareAndSwapUint32")
	return real.CompareAndSwapUint32(a, o, n)
}
func CompareAndSwapUint64(a *uint64, o, n uint64) bool {
	pt("atomic.CompareAndSwapUint64")
	return real.CompareAndSwapUint64(a, o, n)
}

// Pointer mirrors atomic.Pointer[T].
type Pointer[T any] struct{ p real.Pointer[T] }

func (x *Pointer[T]) Load() *T     { pt("atomic.Pointer.Load"); return x.p.Load() }
func (x *Pointer[T]) Store(v *T)   { pt("atomic.Pointer.Store"); x.p.Store(v) }
func (x *Pointer[T]) Swap(v *T) *T { pt("atomic.Pointer.Swap"); return x.p.Swap(v) }
func (x *Pointer[T]) CompareAndSwap(o, n *T) bool {
	pt("atomic.Pointer.CompareAndSwap")
	return x.p.CompareAndSwap(o, n)
}

// Value mirrors atomic.Value.
type Value struct{ v real.Value }

func (x *Value) Load() any      { pt("atomic.Value.Load"); return x.v.Load() }
func (x *Value) Store(v any)    { pt("atomic.Value.Store"); x.v.Store(v) }
func (x *Value) Swap(v any) any { pt("atomic.Value.Swap"); return x.v.Swap(v) }
func (x *Value) CompareAndSwap(o, n any) bool {
	pt("atomic.Value.CompareAndSwap")
	return x.v.CompareAndSwap(o, n)
}

// Bool mirrors atomic.Bool.
type Bool struct{ v real.Bool }

func (x *Bool) Load() bool       { pt("atomic.Bool.Load"); return x.v.Load() }
func (x *Bool) Store(v bool)     { pt("atomic.Bool.Store"); x.v.Store(v) }
func (x *Bool) Swap(v bool) bool { pt("atomic.Bool.Swap"); return x.v.Swap(v) }
func (x *Bool) CompareAndSwap(o, n bool) bool {
	pt("atomic.Bool.CompareAndSwap")
	return x.v.CompareAndSwap(o, n)
}

// Int32 mirrors atomic.Int32.
type Int32 struct{ v real.Int32 }

func (x *Int32) Load() int32        { pt("atomic.Int32.Load"); return x.v.Load() }
func (x *Int32) Store(v int32)      { pt("atomic.Int32.Store"); x.v.Store(v) }
func (x *Int32) Add(d int32) int32  { pt("atomic.Int32.Add"); return x.v.Add(d) }
func (x *Int32) Swap(v int32) int32 { pt("atomic.Int32.Swap"); return x.v.Swap(v) }
func (x *Int32) CompareAndSwap(o, n int32) bool {
	pt("atomic.Int32.CompareAndSwap")
	return x.v.CompareAndSwap(o, n)
}

// Int64 mirrors atomic.Int64.
type Int64 struct{ v real.Int64 }

func (x *Int64) Load() int64        { pt("atomic.Int64.Load"); return x.v.Load() }
func (x *Int64) Store(v int64)      { pt("atomic.Int64.Store"); x.v.Store(v) }
func (x *Int64) Add(d int64) int64  { pt("atomic.Int64.Add"); return x.v.Add(d) }
func (x *Int64) Swap(v int64) int64 { pt("atomic.Int64.Swap"); return x.v.Swap(v) }
func (x *Int64) CompareAndSwap(o, n int64) bool {
	pt("atomic.Int64.CompareAndSwap")
	return x.v.CompareAndSwap(o, n)
}

// Uint32 mirrors atomic.Uint32.
type Uint32 struct{ v real.Uint32 }

func (x *Uint32) Load() uint32         { pt("atomic.Uint32.Load"); return x.v.Load() }
func (x *Uint32) Store(v uint32)       { pt("atomic.Uint32.Store"); x.v.Store(v) }
func (x *Uint32) Add(d uint32) uint32  { pt("atomic.Uint32.Add"); return x.v.Add(d) }
func (x *Uint32) Swap(v uint32) uint32 { pt("atomic.Uint32.Swap"); return x.v.Swap(v) }
func (x *Uint32) CompareAndSwap(o, n uint32) bool {
	pt("atomic.Uint32.CompareAndSwap")
	return x.v.CompareAndSwap(o, n)
}

// Uint64 mirrors atomic.Uint64.
type Uint64 struct{ v real.Uint64 }

func (x *Uint64) Load() uint64         { pt("atomic.Uint64.Load"); return x.v.Load() }
func (x *Uint64) Store(v uint64)       { pt("atomic.Uint64.Store"); x.v.Store(v) }
func (x *Uint64) Add(d uint64) uint64  { pt("atomic.Uint64.Add"); return x.v.Add(d) }
func (x *Uint64) Swap(v uint64) uint64 { pt("atomic.Uint64.Swap"); return x.v.Swap(v) }
func (x *Uint64) CompareAndSwap(o, n uint64) bool {
	pt("atomic.Uint64.CompareAndSwap")
	return x.v.CompareAndSwap(o, n)
}
