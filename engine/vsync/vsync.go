// Package vsync replaces package sync in the packages explored under the scheduler. With no
// scheduler active (or when called from a goroutine the scheduler does not control) every
// type behaves exactly like the original, because it delegates to an embedded real one.
package vsync

import (
	real "sync"
	realatomic "sync/atomic"

	"github.com/oauth2-proxy/oauth2-proxy/v7/verifx/sched"
)

// Mutex mirrors sync.Mutex.
type Mutex struct {
	r      real.Mutex
	locked bool
}

func (m *Mutex) Lock() {
	if sched.Controlled() {
		sched.Block("Mutex.Lock", func() bool { return !m.locked })
		m.locked = true
		return
	}
	m.r.Lock()
}

func (m *Mutex) TryLock() bool {
	if sched.Controlled() {
		sched.Point("Mutex.TryLock")
		if m.locked {
			return false
		}
		m.locked = true
		return true
	}
	return m.r.TryLock()
}

func (m *Mutex) Unlock() {
	if sched.Controlled() {
		sched.Point("Mutex.Unlock")
		if !m.locked {
			panic("sync: unlock of unlocked mutex")
		}
		m.locked = false
		return
	}
	if m.locked { // taken on the virtual path by a thread that is now unwinding
		m.locked = false
		return
	}
	m.r.Unlock()
}

// RWMutex mirrors sync.RWMutex.
type RWMutex struct {
	r       real.RWMutex
	writer  bool
	readers int
}

func (m *RWMutex) Lock() {
	if sched.Controlled() {
		sched.Block("RWMutex.Lock", func() bool { return !m.writer && m.readers == 0 })
		m.writer = true
		return
	}
	m.r.Lock()
}

func (m *RWMutex) TryLock() bool {
	if sched.Controlled() {
		sched.Point("RWMutex.TryLock")
		if m.writer || m.readers > 0 {
			return false
		}
		m.writer = true
		return true
	}
	return m.r.TryLock()
}

func (m *RWMutex) Unlock() {
	if sched.Controlled() {
		sched.Point("RWMutex.Unlock")
		if !m.writer {
			panic("sync: Unlock of unlocked RWMutex")
		}
		m.writer = false
		return
	}
	if m.writer {
		m.writer = false
		return
	}
	m.r.Unlock()
}

func (m *RWMutex) RLock() {
	if sched.Controlled() {
		sched.Block("RWMutex.RLock", func() bool { return !m.writer })
		m.readers++
		return
	}
	m.r.RLock()
}

func (m *RWMutex) TryRLock() bool {
	if sched.Controlled() {
		sched.Point("RWMutex.TryRLock")
		if m.writer {
			return false
		}
		m.readers++
		return true
	}
	return m.r.TryRLock()
}

func (m *RWMutex) RUnlock() {
	if sched.Controlled() {
		sched.Point("RWMutex.RUnlock")
		if m.readers <= 0 {
			panic("sync: RUnlock of unlocked RWMutex")
		}
		m.readers--
		return
	}
	if m.readers > 0 {
		m.readers--
		return
	}
	m.r.RUnlock()
}

// RLocker mirrors (*sync.RWMutex).RLocker.
func (m *RWMutex) RLocker() real.Locker { return (*rlocker)(m) }

type rlocker RWMutex

func (r *rlocker) Lock()   { (*RWMutex)(r).RLock() }
func (r *rlocker) Unlock() { (*RWMutex)(r).RUnlock() }

// Held reports the virtual lock state (harness state keys).
func (m *RWMutex) Held() (writer bool, readers int) { return m.writer, m.readers }

// Once mirrors sync.Once.
type Once struct {
	r    real.Once
	m    Mutex
	done realatomic.Bool // shared by both modes: an initialisation done before the scheduler started is done
}

func (o *Once) Do(f func()) {
	if sched.Controlled() {
		sched.Point("Once.Do")
		if o.done.Load() {
			return
		}
		o.m.Lock()
		defer o.m.Unlock()
		if !o.done.Load() {
			defer o.done.Store(true)
			f()
		}
		return
	}
	if o.done.Load() {
		return
	}
	o.r.Do(func() {
		defer o.done.Store(true)
		f()
	})
}

// WaitGroup mirrors sync.WaitGroup.
type WaitGroup struct {
	r real.WaitGroup
	n int
}

func (w *WaitGroup) Add(d int) {
	if sched.Controlled() {
		sched.Point("WaitGroup.Add")
		w.n += d
		if w.n < 0 {
			panic("sync: negative WaitGroup counter")
		}
		return
	}
	w.r.Add(d)
}

func (w *WaitGroup) Done() { w.Add(-1) }

func (w *WaitGroup) Wait() {
	if sched.Controlled() {
		sched.Block("WaitGroup.Wait", func() bool { return w.n == 0 })
		return
	}
	w.r.Wait()
}

// OnceFunc, OnceValue and OnceValues are generic or closure helpers; they are re-implemented
// on top of Once so that they also work under the scheduler.
func OnceFunc(f func()) func() {
	var o Once
	return func() { o.Do(f) }
}

func OnceValue[T any](f func() T) func() T {
	var o Once
	var v T
	return func() T {
		o.Do(func() { v = f() })
		return v
	}
}

func OnceValues[T1, T2 any](f func() (T1, T2)) func() (T1, T2) {
	var o Once
	var v1 T1
	var v2 T2
	return func() (T1, T2) {
		o.Do(func() { v1, v2 = f() })
		return v1, v2
	}
}

// Pool mirrors sync.Pool. Under the scheduler it is a deterministic LIFO free list whose Get and
// Put are scheduling points; Put parks a second time AFTER the object is back in the pool, so
// that another thread can take it while the caller still runs on — the interleaving in which a
// reference kept past the Put is used after somebody else got the object.
type Pool struct {
	New   func() any
	r     real.Pool
	items []any
}

func (p *Pool) Get() any {
	if sched.Controlled() {
		sched.Point("Pool.Get")
		if n := len(p.items); n > 0 {
			x := p.items[n-1]
			p.items = p.items[:n-1]
			return x
		}
		if p.New != nil {
			return p.New()
		}
		return nil
	}
	if x := p.r.Get(); x != nil {
		return x
	}
	if p.New != nil {
		return p.New()
	}
	return nil
}

func (p *Pool) Put(x any) {
	if sched.Controlled() {
		sched.Point("Pool.Put")
		p.items = append(p.items, x)
		sched.Point("Pool.Put.done")
		return
	}
	p.r.Put(x)
}
