// Package vclock is the virtual clock shared by the vtime/vcontext shims and the world.
// Inactive (the default) it is the real clock.
package vclock

import (
	"sync"
	"time"
)

var (
	mu      sync.Mutex
	active  bool
	now     time.Time
	waiters []*waiter
	// OnAdvance hooks are called (outside the lock) after every change of the virtual time.
	onAdvance []func(time.Time)
)

type waiter struct {
	at   time.Time
	fire func()
	done bool
}

// Active reports whether virtual time is in force.
func Active() bool {
	mu.Lock()
	defer mu.Unlock()
	return active
}

// Set activates the virtual clock at t (also used to move it backwards).
func Set(t time.Time) {
	mu.Lock()
	active = true
	now = t
	fired := due()
	hooks := append([]func(time.Time){}, onAdvance...)
	mu.Unlock()
	for _, h := range hooks {
		h(t)
	}
	for _, f := range fired {
		f()
	}
}

// Reset returns to the real clock and drops all timers and hooks.
func Reset() {
	mu.Lock()
	active = false
	waiters = nil
	onAdvance = nil
	mu.Unlock()
}

// Now is the virtual time when active, the real time otherwise.
func Now() time.Time {
	mu.Lock()
	defer mu.Unlock()
	if !active {
		return time.Now()
	}
	return now
}

// Advance moves the virtual clock forward by d (no-op when inactive).
func Advance(d time.Duration) {
	mu.Lock()
	if !active {
		mu.Unlock()
		return
	}
	now = now.Add(d)
	t := now
	fired := due()
	hooks := append([]func(time.Time){}, onAdvance...)
	mu.Unlock()
	for _, h := range hooks {
		h(t)
	}
	for _, f := range fired {
		f()
	}
}

// OnAdvance registers a hook run after every Set/Advance.
func OnAdvance(f func(time.Time)) {
	mu.Lock()
	onAdvance = append(onAdvance, f)
	mu.Unlock()
}

// At registers fire to run once the virtual clock reaches t. The returned func cancels.
func At(t time.Time, fire func()) (cancel func()) {
	mu.Lock()
	w := &waiter{at: t, fire: fire}
	if active && !now.Before(t) {
		w.done = true
		mu.Unlock()
		fire()
		return func() {}
	}
	waiters = append(waiters, w)
	mu.Unlock()
	return func() {
		mu.Lock()
		w.done = true
		mu.Unlock()
	}
}

// due must be called with mu held.
func due() []func() {
	var fired []func()
	keep := waiters[:0]
	for _, w := range waiters {
		if w.done {
			continue
		}
		if !now.Before(w.at) {
			w.done = true
			fired = append(fired, w.fire)
			continue
		}
		keep = append(keep, w)
	}
	waiters = keep
	return fired
}
