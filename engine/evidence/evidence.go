// Package evidence collects counters, samples and violations of one check run (possibly
// spread over several shard processes), merges them, applies the known-findings file and
// writes /verif/evidence/<id>.json. See DESIGN.md §3.6.
package evidence

import (
	"crypto/sha256"
	"encoding/hex"
	"encoding/json"
	"fmt"
	"os"
	"path/filepath"
	"sort"
	"strings"
)

// Violation is one property violation with a specific finding key.
type Violation struct {
	Key    string `json:"key"`
	Msg    string `json:"msg"`
	Size   int    `json:"size"` // smaller = simpler counterexample
	Replay any    `json:"replay"`
	Count  int    `json:"count"`
}

// Part is what one shard produced.
type Part struct {
	Counters   map[string]int64      `json:"counters"`
	Max        map[string]int64      `json:"max"`
	Info       map[string]any        `json:"info"`
	Samples    []any                 `json:"samples"`
	Violations map[string]*Violation `json:"violations"`
	Exhaustive bool                  `json:"exhaustive"`
	Errors     []string              `json:"errors"` // harness errors (exit 2)
	Notes      []string              `json:"notes"`
	distinct   map[[8]byte]struct{}
}

func NewPart() *Part {
	return &Part{Counters: map[string]int64{}, Max: map[string]int64{}, Info: map[string]any{},
		Violations: map[string]*Violation{}, Exhaustive: true, distinct: map[[8]byte]struct{}{}}
}

func (p *Part) Add(name string, n int64) { p.Counters[name] += n }
func (p *Part) Inc(name string)          { p.Counters[name]++ }
func (p *Part) SetMax(name string, v int64) {
	if v > p.Max[name] {
		p.Max[name] = v
	}
}

// Distinct counts key once under the counter `name`.
func (p *Part) Distinct(name, key string) bool {
	h := sha256.Sum256([]byte(name + "\x00" + key))
	var k [8]byte
	copy(k[:], h[:8])
	if _, ok := p.distinct[k]; ok {
		return false
	}
	p.distinct[k] = struct{}{}
	p.Counters[name]++
	return true
}

// Sample keeps up to max samples.
func (p *Part) Sample(max int, s any) {
	if len(p.Samples) < max {
		p.Samples = append(p.Samples, s)
	}
}

// Violate records a violation, keeping the smallest counterexample per key.
func (p *Part) Violate(key, msg string, size int, replay any) {
	v := p.Violations[key]
	if v == nil {
		p.Violations[key] = &Violation{Key: key, Msg: msg, Size: size, Replay: replay, Count: 1}
		return
	}
	v.Count++
	if size < v.Size {
		v.Msg, v.Size, v.Replay = msg, size, replay
	}
}

func (p *Part) Error(format string, a ...any) {
	p.Errors = append(p.Errors, fmt.Sprintf(format, a...))
}

func (p *Part) Note(format string, a ...any) {
	if len(p.Notes) < 50 {
		p.Notes = append(p.Notes, fmt.Sprintf(format, a...))
	}
}

// Merge folds o into p.
func (p *Part) Merge(o *Part) {
	for k, v := range o.Counters {
		p.Counters[k] += v
	}
	for k, v := range o.Max {
		if v > p.Max[k] {
			p.Max[k] = v
		}
	}
	for k, v := range o.Info {
		if _, ok := p.Info[k]; !ok {
			p.Info[k] = v
		}
	}
	for _, s := range o.Samples {
		if len(p.Samples) < 8 {
			p.Samples = append(p.Samples, s)
		}
	}
	for k, v := range o.Violations {
		if old := p.Violations[k]; old == nil {
			p.Violations[k] = v
		} else {
			old.Count += v.Count
			if v.Size < old.Size {
				old.Msg, old.Size, old.Replay = v.Msg, v.Size, v.Replay
			}
		}
	}
	p.Exhaustive = p.Exhaustive && o.Exhaustive
	p.Errors = append(p.Errors, o.Errors...)
	for _, n := range o.Notes {
		if len(p.Notes) < 50 {
			p.Notes = append(p.Notes, n)
		}
	}
}

// Known is one entry of known_findings.json.
type Known struct {
	Property string `json:"property"`
	Key      string `json:"key"`
	Status   string `json:"status"` // known | fixed
	Commit   string `json:"commit,omitempty"`
	What     string `json:"what"`
}

// LoadKnown reads the committed known-findings file (missing file = none).
func LoadKnown(path string) []Known {
	b, err := os.ReadFile(path)
	if err != nil {
		return nil
	}
	var f struct {
		Findings []Known `json:"findings"`
	}
	if json.Unmarshal(b, &f) != nil {
		return nil
	}
	return f.Findings
}

// File is the evidence file format.
type File struct {
	PropertyID  string         `json:"property_id"`
	Tier        string         `json:"tier"`
	Seed        int64          `json:"seed"`
	Level       string         `json:"level"`
	Coverage    map[string]any `json:"coverage"`
	Assumptions []string       `json:"assumptions"`
	WallS       float64        `json:"wall_s"`
	Violations  int            `json:"violations"`
}

// Finish writes the evidence file, prints VIOLATION / KNOWN-FINDING lines and returns the
// process exit code (0 held, 1 violation, 2 harness error).
func Finish(verifDir, prop, tier string, seed int64, level, rule string, assumptions []string, p *Part, wall float64) int {
	known := LoadKnown(filepath.Join(verifDir, "known_findings.json"))
	cov := map[string]any{}
	for k, v := range p.Counters {
		cov[k] = v
	}
	for k, v := range p.Max {
		cov[k] = v
	}
	for k, v := range p.Info {
		cov[k] = v
	}
	cov["rule"] = rule
	cov["exhaustive"] = p.Exhaustive
	if len(p.Samples) == 0 {
		p.Samples = append(p.Samples, "none recorded")
	}
	cov["samples"] = p.Samples
	if len(p.Notes) > 0 {
		cov["notes"] = p.Notes
	}
	keys := make([]string, 0, len(p.Violations))
	for k := range p.Violations {
		keys = append(keys, k)
	}
	sort.Strings(keys)
	unknown := 0
	var knownHit []string
	printed := 0
	for _, k := range keys {
		v := p.Violations[k]
		isKnown := false
		for _, kn := range known {
			if kn.Property == prop && kn.Key == k && kn.Status == "known" {
				isKnown = true
				fmt.Printf("KNOWN-FINDING: property=%s %s [%s] (%d cases, e.g. %s)\n", prop, kn.What, k, v.Count, oneLine(v.Msg))
				knownHit = append(knownHit, k)
			}
		}
		if isKnown {
			continue
		}
		unknown++
		if printed < 20 {
			printed++
			path := writeReplay(verifDir, prop, v)
			fmt.Printf("VIOLATION property=%s replay=%s\n", prop, path)
			fmt.Printf("  key=%s cases=%d: %s\n", k, v.Count, oneLine(v.Msg))
		}
	}
	cov["known_findings_hit"] = knownHit
	if unknown > 0 {
		cov["violation_keys"] = keys
	}
	f := File{PropertyID: prop, Tier: tier, Seed: seed, Level: level, Coverage: cov, Assumptions: assumptions, WallS: wall, Violations: unknown}
	if f.Assumptions == nil {
		f.Assumptions = []string{}
	}
	b, _ := json.MarshalIndent(f, "", " ")
	evDir := filepath.Join(outDir(verifDir), "evidence")
	os.MkdirAll(evDir, 0o755)
	if err := os.WriteFile(filepath.Join(evDir, prop+".json"), append(b, '\n'), 0o644); err != nil {
		fmt.Fprintf(os.Stderr, "cannot write evidence: %v\n", err)
		return 2
	}
	if len(p.Errors) > 0 {
		seen := map[string]bool{}
		for _, e := range p.Errors {
			k := e
			if len(k) > 60 {
				k = k[:60]
			}
			if seen[k] || len(seen) >= 4 {
				continue
			}
			seen[k] = true
			fmt.Fprintf(os.Stderr, "HARNESS-ERROR property=%s %s\n", prop, oneLine(e))
		}
		if unknown == 0 {
			return 2
		}
	}
	if unknown > 0 {
		return 1
	}
	return 0
}

// outDir is where evidence and replays go: the verif directory, unless VERIF_OUT_DIR says
// otherwise (runs against a scratch copy of the repository must not overwrite the evidence).
func outDir(verifDir string) string {
	if d := os.Getenv("VERIF_OUT_DIR"); d != "" {
		return d
	}
	return verifDir
}

func oneLine(s string) string {
	s = strings.ReplaceAll(s, "\n", " ⏎ ")
	if len(s) > 600 {
		s = s[:500] + "…"
	}
	return s
}

func writeReplay(verifDir, prop string, v *Violation) string {
	dir := filepath.Join(outDir(verifDir), "replays")
	os.MkdirAll(dir, 0o755)
	h := sha256.Sum256([]byte(v.Key))
	path := filepath.Join(dir, fmt.Sprintf("%s-%s.json", prop, hex.EncodeToString(h[:6])))
	b, _ := json.MarshalIndent(map[string]any{"property": prop, "key": v.Key, "msg": v.Msg, "cases": v.Count, "replay": v.Replay}, "", " ")
	os.WriteFile(path, append(b, '\n'), 0o644)
	return path
}

// WritePart stores a shard's part.
func WritePart(path string, p *Part) error {
	b, err := json.Marshal(p)
	if err != nil {
		return err
	}
	return os.WriteFile(path, b, 0o644)
}

// ReadPart loads a shard's part.
func ReadPart(path string) (*Part, error) {
	b, err := os.ReadFile(path)
	if err != nil {
		return nil, err
	}
	p := NewPart()
	if err := json.Unmarshal(b, p); err != nil {
		return nil, err
	}
	if p.Counters == nil {
		p.Counters = map[string]int64{}
	}
	if p.Max == nil {
		p.Max = map[string]int64{}
	}
	if p.Info == nil {
		p.Info = map[string]any{}
	}
	if p.Violations == nil {
		p.Violations = map[string]*Violation{}
	}
	return p, nil
}
