// Package vfsnotify is a fake of the small part of github.com/fsnotify/fsnotify that
// pkg/watcher uses. No OS events are ever delivered: reloads happen only when a harness
// calls them (DESIGN.md §3.1: every real watcher costs an inotify instance, the sandbox
// allows 128, and the repository never closes the htpasswd watcher).
package vfsnotify

import (
	"sync"
	"time"

	"github.com/oauth2-proxy/oauth2-proxy/v7/verifx/sched"
)

// Op mirrors fsnotify.Op.
type Op uint32

const (
	Create Op = 1 << iota
	Write
	Remove
	Rename
	Chmod
)

func (op Op) String() string {
	s := ""
	for _, x := range []struct {
		o Op
		n string
	}{{Create, "CREATE"}, {Write, "WRITE"}, {Remove, "REMOVE"}, {Rename, "RENAME"}, {Chmod, "CHMOD"}} {
		if op&x.o != 0 {
			if s != "" {
				s += "|"
			}
			s += x.n
		}
	}
	return s
}

// Has mirrors fsnotify.Op.Has.
func (op Op) Has(h Op) bool { return op&h != 0 }

// Event mirrors fsnotify.Event.
type Event struct {
	Name string
	Op   Op
}

func (e Event) String() string { return e.Op.String() + " " + e.Name }

// Has mirrors fsnotify.Event.Has.
func (e Event) Has(op Op) bool { return e.Op.Has(op) }

// Watcher mirrors fsnotify.Watcher.
type Watcher struct {
	Events chan Event
	Errors chan error
	mu     sync.Mutex
	names  []string
	closed bool
}

var (
	regMu    sync.Mutex
	watchers []*Watcher
)

// NewWatcher never fails and uses no OS resource.
func NewWatcher() (*Watcher, error) {
	w := &Watcher{Events: make(chan Event), Errors: make(chan error)}
	if sched.Controlled() {
		// created by a controlled thread: the event loop will wait in the scheduler (vrt.Sel), which
		// sees an event only if it is buffered; Push never blocks
		w.Events = make(chan Event, 64)
		w.Errors = make(chan error, 64)
	}
	regMu.Lock()
	watchers = append(watchers, w)
	if len(watchers) > 64 {
		watchers = watchers[len(watchers)-64:]
	}
	regMu.Unlock()
	return w, nil
}

// NewBufferedWatcher mirrors fsnotify.NewBufferedWatcher.
func NewBufferedWatcher(uint) (*Watcher, error) { return NewWatcher() }

// Add records the name.
func (w *Watcher) Add(name string) error {
	w.mu.Lock()
	defer w.mu.Unlock()
	w.names = append(w.names, name)
	return nil
}

// Remove forgets the name.
func (w *Watcher) Remove(name string) error { return nil }

// WatchList returns the recorded names.
func (w *Watcher) WatchList() []string {
	w.mu.Lock()
	defer w.mu.Unlock()
	return append([]string{}, w.names...)
}

// Close marks the watcher closed.
func (w *Watcher) Close() error {
	w.mu.Lock()
	defer w.mu.Unlock()
	w.closed = true
	return nil
}

// Last returns the most recently created watcher (the one the code under test created in the call
// the harness has just made), or nil.
func Last() *Watcher {
	regMu.Lock()
	defer regMu.Unlock()
	if len(watchers) == 0 {
		return nil
	}
	return watchers[len(watchers)-1]
}

// Deliver hands one event to whoever receives from Events and returns once it has been taken
// (the channel is unbuffered, as fsnotify's is by default). It reports false if nobody took the
// event within the given number of seconds: the consumer is gone or stuck.
func (w *Watcher) Deliver(ev Event, seconds int) bool {
	t := time.NewTimer(time.Duration(seconds) * time.Second)
	defer t.Stop()
	select {
	case w.Events <- ev:
		return true
	case <-t.C:
		return false
	}
}

// Push queues one event for a watcher that was created under the scheduler (buffered channels)
// and is a scheduling point for the calling thread. It reports false if the queue is full.
func (w *Watcher) Push(ev Event) bool {
	select {
	case w.Events <- ev:
	default:
		return false
	}
	sched.Point("fs-event")
	return true
}
