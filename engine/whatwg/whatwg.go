// Package whatwg is the browser-side URL resolver of check C06 (DESIGN.md Appendix C): an
// independent implementation of the WHATWG URL Standard basic URL parser restricted to the
// states reachable from a special (http/https) base URL, reduced to what decides where a
// browser navigates: the origin (scheme, host, port) of the resolved URL.
//
// It is written from the URL Standard, deliberately does not use net/url, and knows nothing
// about the code under test. Only the standard library is used (net/netip for the textual
// form of IPv6 literals).
package whatwg

import (
	"fmt"
	"net/netip"
	"strconv"
	"strings"
)

// Kind is the verdict class of a resolution.
type Kind int

const (
	// Resolved: the browser navigates to Scheme://Host[:Port]; Relative tells whether the
	// origin was inherited from the base (no authority in the input).
	Resolved Kind = iota
	// Failure: the URL parser returns failure, the browser does not navigate.
	Failure
	// Unresolvable: this harness does not know what a browser does (non-ASCII host: no IDNA
	// tables offline). Never an alarm.
	Unresolvable
	// Foreign: a scheme other than http/https (javascript:, data:, ftp:, ...).
	Foreign
)

func (k Kind) String() string {
	switch k {
	case Resolved:
		return "resolved"
	case Failure:
		return "failure"
	case Unresolvable:
		return "unresolvable"
	case Foreign:
		return "foreign"
	}
	return "?"
}

// Base is the origin of the document (request) the reference is resolved against. Port ""
// means the default port of the scheme.
type Base struct {
	Scheme string
	Host   string
	Port   string
}

// NewBase builds a base from a scheme and a Host header value ("host" or "host:port").
func NewBase(scheme, hostport string) Base {
	scheme = strings.ToLower(scheme)
	host, port := strings.ToLower(hostport), ""
	if i := strings.LastIndexByte(host, ':'); i >= 0 && !strings.HasSuffix(host, "]") {
		host, port = host[:i], host[i+1:]
	}
	port = strings.TrimLeft(port, "0")
	if port == defaultPort(scheme) {
		port = ""
	}
	return Base{Scheme: scheme, Host: host, Port: port}
}

func (b Base) String() string {
	if b.Port != "" {
		return b.Scheme + "://" + b.Host + ":" + b.Port
	}
	return b.Scheme + "://" + b.Host
}

// Result of resolving one reference.
type Result struct {
	Kind     Kind
	Scheme   string // lower-case
	Host     string // serialised host: lower-case domain, dotted quad, or [ipv6]
	Port     string // "" = default port of the scheme
	Relative bool   // no authority in the input: same origin as the base by construction
	Rest     string // what follows the authority (or the whole stripped input if Relative)
	Why      string // reason for Failure / Unresolvable / Foreign
}

// Origin is scheme://host[:port] of a resolved URL.
func (r Result) Origin() string {
	if r.Kind != Resolved {
		return r.Kind.String() + "(" + r.Why + ")"
	}
	if r.Port != "" {
		return r.Scheme + "://" + r.Host + ":" + r.Port
	}
	return r.Scheme + "://" + r.Host
}

// SameOrigin reports whether a resolved URL has the origin of b.
func (r Result) SameOrigin(b Base) bool {
	return r.Kind == Resolved && r.Scheme == b.Scheme && r.Host == b.Host && r.Port == b.Port
}

// EffectivePort is the port number the browser connects to.
func (r Result) EffectivePort() string {
	if r.Port != "" {
		return r.Port
	}
	return defaultPort(r.Scheme)
}

// IsRoot reports whether the resolved URL is the root path "/" without query (fragment
// ignored): what "replaced by /" looks like after resolution.
func (r Result) IsRoot() bool {
	if r.Kind != Resolved {
		return false
	}
	rest := r.Rest
	if i := strings.IndexByte(rest, '#'); i >= 0 {
		rest = rest[:i]
	}
	if r.Relative {
		return rest == "/" || rest == "\\"
	}
	return rest == "" || rest == "/" || rest == "\\"
}

func defaultPort(scheme string) string {
	switch scheme {
	case "http":
		return "80"
	case "https":
		return "443"
	}
	return ""
}

func isAlpha(c byte) bool { return c|0x20 >= 'a' && c|0x20 <= 'z' }
func isDigit(c byte) bool { return c >= '0' && c <= '9' }
func isSlash(c byte) bool { return c == '/' || c == '\\' }

// Preprocess applies the input clean-up of the basic URL parser: strip leading and trailing
// C0 control or space, remove every ASCII tab or newline.
func Preprocess(input string) string {
	s, e := 0, len(input)
	for s < e && input[s] <= 0x20 {
		s++
	}
	for e > s && input[e-1] <= 0x20 {
		e--
	}
	in := input[s:e]
	if strings.ContainsAny(in, "\t\n\r") {
		var b strings.Builder
		for i := 0; i < len(in); i++ {
			if c := in[i]; c != '\t' && c != '\n' && c != '\r' {
				b.WriteByte(c)
			}
		}
		in = b.String()
	}
	return in
}

// Resolve resolves input (a Location header value as received, or a decoded HTML attribute
// value) against base the way a browser does, as far as the origin is concerned.
func Resolve(base Base, input string) Result {
	in := Preprocess(input)

	// scheme start state / scheme state
	scheme, rest, hasScheme := "", in, false
	if len(in) > 0 && isAlpha(in[0]) {
		i := 1
		for i < len(in) && (isAlpha(in[i]) || isDigit(in[i]) || in[i] == '+' || in[i] == '-' || in[i] == '.') {
			i++
		}
		if i < len(in) && in[i] == ':' {
			scheme, rest, hasScheme = strings.ToLower(in[:i]), in[i+1:], true
		}
	}

	if hasScheme {
		if scheme != "http" && scheme != "https" {
			return Result{Kind: Foreign, Scheme: scheme, Rest: rest, Why: "scheme " + scheme}
		}
		if scheme == base.Scheme {
			// special relative or authority state: exactly "//" leads to the authority,
			// everything else is a relative reference (relative state handles backslashes)
			if strings.HasPrefix(rest, "//") {
				return authority(scheme, skipSlashes(rest))
			}
			return relative(base, rest)
		}
		// special authority slashes state -> special authority ignore slashes state
		return authority(scheme, skipSlashes(rest))
	}
	// no scheme state -> relative state
	return relative(base, in)
}

func skipSlashes(s string) string {
	i := 0
	for i < len(s) && isSlash(s[i]) {
		i++
	}
	return s[i:]
}

// relative state / relative slash state for a special base.
func relative(base Base, s string) Result {
	if len(s) >= 2 && isSlash(s[0]) && isSlash(s[1]) {
		// special authority ignore slashes state
		return authority(base.Scheme, skipSlashes(s))
	}
	return Result{Kind: Resolved, Scheme: base.Scheme, Host: base.Host, Port: base.Port, Relative: true, Rest: s}
}

// authority state, host state, port state for a special scheme.
func authority(scheme, s string) Result {
	end := len(s)
	for i := 0; i < len(s); i++ {
		if c := s[i]; c == '/' || c == '\\' || c == '?' || c == '#' {
			end = i
			break
		}
	}
	auth, rest := s[:end], s[end:]
	fail := func(format string, a ...any) Result {
		return Result{Kind: Failure, Scheme: scheme, Rest: rest, Why: fmt.Sprintf(format, a...)}
	}
	hostport := auth
	if at := strings.LastIndexByte(auth, '@'); at >= 0 {
		hostport = auth[at+1:]
		if hostport == "" {
			return fail("credentials without host")
		}
	}
	// host state: the host ends at the first ':' outside brackets
	host, port, hasPort := hostport, "", false
	inBr := false
	for i := 0; i < len(hostport); i++ {
		c := hostport[i]
		if c == '[' {
			inBr = true
		} else if c == ']' {
			inBr = false
		} else if c == ':' && !inBr {
			host, port, hasPort = hostport[:i], hostport[i+1:], true
			break
		}
	}
	if host == "" {
		return fail("empty host")
	}
	outPort := ""
	if hasPort {
		for i := 0; i < len(port); i++ {
			if !isDigit(port[i]) {
				return fail("port %q is not numeric", port)
			}
		}
		if p := strings.TrimLeft(port, "0"); port != "" {
			if p == "" {
				p = "0"
			}
			if len(p) > 5 {
				return fail("port out of range")
			}
			if n, _ := strconv.Atoi(p); n > 65535 {
				return fail("port out of range")
			}
			if p != defaultPort(scheme) {
				outPort = p
			}
		}
	}
	h, kind, why := parseHost(host)
	if kind != Resolved {
		return Result{Kind: kind, Scheme: scheme, Rest: rest, Why: why}
	}
	return Result{Kind: Resolved, Scheme: scheme, Host: h, Port: outPort, Rest: rest}
}

// forbidden domain code points (URL Standard: forbidden host code points, C0 controls, %, DEL)
func forbiddenDomainByte(c byte) bool {
	if c <= 0x20 || c == 0x7f {
		return true
	}
	switch c {
	case '#', '/', ':', '<', '>', '?', '@', '[', '\\', ']', '^', '|', '%':
		return true
	}
	return false
}

func unhex(c byte) int {
	switch {
	case c >= '0' && c <= '9':
		return int(c - '0')
	case c >= 'a' && c <= 'f':
		return int(c-'a') + 10
	case c >= 'A' && c <= 'F':
		return int(c-'A') + 10
	}
	return -1
}

// percentDecode decodes valid %XX sequences and leaves everything else alone.
func percentDecode(s string) string {
	if !strings.Contains(s, "%") {
		return s
	}
	var b strings.Builder
	for i := 0; i < len(s); i++ {
		if s[i] == '%' && i+2 < len(s) {
			hi, lo := unhex(s[i+1]), unhex(s[i+2])
			if hi >= 0 && lo >= 0 {
				b.WriteByte(byte(hi<<4 | lo))
				i += 2
				continue
			}
		}
		b.WriteByte(s[i])
	}
	return b.String()
}

// parseHost is the host parser for special schemes.
func parseHost(in string) (string, Kind, string) {
	if in[0] == '[' {
		if in[len(in)-1] != ']' {
			return "", Failure, "unclosed IPv6 literal"
		}
		lit := in[1 : len(in)-1]
		if strings.ContainsAny(lit, "%") {
			return "", Failure, "IPv6 zone"
		}
		for i := 0; i < len(lit); i++ {
			if c := lit[i]; unhex(c) < 0 && c != ':' && c != '.' {
				return "", Failure, "invalid IPv6 literal"
			}
		}
		a, err := netip.ParseAddr(lit)
		if err != nil || !a.Is6() {
			return "", Failure, "invalid IPv6 literal"
		}
		return "[" + serializeIPv6(a.As16()) + "]", Resolved, ""
	}
	dom := percentDecode(in)
	for i := 0; i < len(dom); i++ {
		if dom[i] >= 0x80 {
			return "", Unresolvable, "non-ASCII host (no IDNA tables)"
		}
	}
	dom = strings.ToLower(dom)
	for _, label := range strings.Split(dom, ".") {
		if strings.HasPrefix(label, "xn--") {
			return "", Unresolvable, "punycode label (no IDNA tables)"
		}
	}
	if dom == "" {
		return "", Failure, "empty host"
	}
	for i := 0; i < len(dom); i++ {
		if forbiddenDomainByte(dom[i]) {
			return "", Failure, fmt.Sprintf("forbidden host code point %q", dom[i])
		}
	}
	if endsInNumber(dom) {
		v4, ok := parseIPv4(dom)
		if !ok {
			return "", Failure, "invalid IPv4 number"
		}
		return fmt.Sprintf("%d.%d.%d.%d", byte(v4>>24), byte(v4>>16), byte(v4>>8), byte(v4)), Resolved, ""
	}
	return dom, Resolved, ""
}

func allDigits(s string) bool {
	if s == "" {
		return false
	}
	for i := 0; i < len(s); i++ {
		if !isDigit(s[i]) {
			return false
		}
	}
	return true
}

// parseIPv4Number: decimal, octal (leading 0) or hexadecimal (0x) as in the URL Standard.
func parseIPv4Number(s string) (uint64, bool) {
	if s == "" {
		return 0, false
	}
	radix := 10
	if len(s) >= 2 && (s[:2] == "0x" || s[:2] == "0X") {
		s, radix = s[2:], 16
	} else if len(s) >= 2 && s[0] == '0' {
		s, radix = s[1:], 8
	}
	if s == "" {
		return 0, true
	}
	var v uint64
	for i := 0; i < len(s); i++ {
		d := unhex(s[i])
		if d < 0 || d >= radix {
			return 0, false
		}
		v = v*uint64(radix) + uint64(d)
		if v > 1<<40 {
			return 1 << 40, true // saturate: certainly out of range for the caller
		}
	}
	return v, true
}

func endsInNumber(dom string) bool {
	parts := strings.Split(dom, ".")
	if parts[len(parts)-1] == "" {
		if len(parts) == 1 {
			return false
		}
		parts = parts[:len(parts)-1]
	}
	last := parts[len(parts)-1]
	if allDigits(last) {
		return true
	}
	_, ok := parseIPv4Number(last)
	return ok
}

func parseIPv4(dom string) (uint32, bool) {
	parts := strings.Split(dom, ".")
	if parts[len(parts)-1] == "" && len(parts) > 1 {
		parts = parts[:len(parts)-1]
	}
	if len(parts) > 4 {
		return 0, false
	}
	nums := make([]uint64, len(parts))
	for i, p := range parts {
		n, ok := parseIPv4Number(p)
		if !ok {
			return 0, false
		}
		nums[i] = n
	}
	for i := 0; i < len(nums)-1; i++ {
		if nums[i] > 255 {
			return 0, false
		}
	}
	limit := uint64(1) << (8 * uint(5-len(nums)))
	if nums[len(nums)-1] >= limit {
		return 0, false
	}
	v := nums[len(nums)-1]
	for i := 0; i < len(nums)-1; i++ {
		v += nums[i] << (8 * uint(3-i))
	}
	return uint32(v), true
}

// serializeIPv6 writes the URL Standard's IPv6 serialisation (longest zero run of length
// >= 2 compressed, lower-case hexadecimal, never dotted).
func serializeIPv6(a [16]byte) string {
	var p [8]uint16
	for i := range p {
		p[i] = uint16(a[2*i])<<8 | uint16(a[2*i+1])
	}
	best, bestLen := -1, 1
	for i := 0; i < 8; {
		if p[i] != 0 {
			i++
			continue
		}
		j := i
		for j < 8 && p[j] == 0 {
			j++
		}
		if j-i > bestLen {
			best, bestLen = i, j-i
		}
		i = j
	}
	var b strings.Builder
	for i := 0; i < 8; i++ {
		if i == best {
			if i == 0 {
				b.WriteString("::")
			} else {
				b.WriteString(":")
			}
			i += bestLen - 1
			continue
		}
		b.WriteString(strconv.FormatUint(uint64(p[i]), 16))
		if i != 7 {
			b.WriteString(":")
		}
	}
	return b.String()
}
