package whatwg

import "fmt"

type selfCase struct {
	base  string // "https" or "http": scheme of the base https?://good.example/oauth2/callback
	input string
	want  string // Origin() of the expected result, "same" for same-origin-by-construction
}

// the table of DESIGN.md Appendix C, plus a few rows for the remaining branches
var selfTable = []selfCase{
	{"https", "//evil", "https://evil"},
	{"https", "/\\evil", "https://evil"},
	{"https", "\\/evil", "https://evil"},
	{"https", "\\\\evil", "https://evil"},
	{"https", "/\t/evil", "https://evil"},
	{"https", "/\n\\evil", "https://evil"},
	{"https", "///evil", "https://evil"},
	{"https", "/evil", "same"},
	{"https", "\\evil", "same"},
	{"https", "/%2Fevil", "same"},
	{"https", "/%5Cevil", "same"},
	{"https", "/\x00/evil", "same"},
	{"https", "/\v/evil", "same"},
	{"https", "/ /evil", "same"},
	{"https", "evil", "same"},
	{"https", "?x", "same"},
	{"https", "#x", "same"},
	{"https", "https:evil", "same"},
	{"https", "https:/evil", "same"},
	{"http", "https:evil", "https://evil"},
	{"http", "https:/evil", "https://evil"},
	{"https", "https:/\\evil", "https://evil"},
	{"https", "https:\\\\evil", "https://evil"},
	{"https", "https://evil", "https://evil"},
	{"https", "https:///evil", "https://evil"},
	{"https", "http://good.example@evil", "http://evil"},
	{"https", "http://evil\\@good.example", "http://evil"},
	{"https", "http://good.example:80@evil:8080/", "http://evil:8080"},
	{"https", "http://GOOD.example", "http://good.example"},
	{"https", "http://good.example.", "http://good.example."},
	{"https", "http://evil%2eexample", "http://evil.example"},
	{"https", "http://[::1]:80/", "http://[::1]"},
	{"https", "http://0x7f.1/", "http://127.0.0.1"},
	{"https", "http://a b/", "failure"},
	{"https", "http://evil／.good.example", "unresolvable"},
	// additional rows
	{"https", " \t//evil \n", "https://evil"},
	{"https", "\x00/\r/evil", "https://evil"},
	{"https", "HtTp://EVIL/", "http://evil"},
	{"http", "http:evil", "same"},
	{"http", "http:\\/evil", "http://evil"},
	{"https", "http:evil", "http://evil"},
	{"https", "javascript:alert(1)", "foreign"},
	{"https", "ftp://evil/", "foreign"},
	{"https", "http://user@/x", "failure"},
	{"https", "http:///", "failure"},
	{"https", "http://evil:65536/", "failure"},
	{"https", "http://evil:65535/", "http://evil:65535"},
	{"https", "http://evil:0080/", "http://evil"},
	{"https", "https://evil:443", "https://evil"},
	{"https", "https://evil:80", "https://evil:80"},
	{"https", "http://evil:/", "http://evil"},
	{"https", "http://evil:8x/", "failure"},
	{"https", "http://2130706433/", "http://127.0.0.1"},
	{"https", "http://1.2.3.4.5/", "failure"},
	{"https", "http://0300.0250.1/", "http://192.168.0.1"},
	{"https", "http://1.2.3.256/", "failure"},
	{"https", "http://evil.1a/", "http://evil.1a"},
	{"https", "http://[::ffff:1.2.3.4]/", "http://[::ffff:102:304]"},
	{"https", "http://[1:0:0:2::]/", "http://[1:0:0:2::]"},
	{"https", "http://[::1/", "failure"},
	{"https", "http://[::1]x/", "failure"},
	{"https", "http://a@b@evil?@good.example", "http://evil"},
	{"https", "http://evil#@good.example", "http://evil"},
	{"https", "http://evil%zz/", "failure"},
	{"https", "http://evil%00/", "failure"},
	{"https", "http://ev%69l/", "http://evil"},
	{"https", "/ /evil", "same"},
	{"https", "/　\\evil", "same"},
	{"https", "", "same"},
}

// SelfTest runs the resolver over the table of Appendix C and returns one message per
// mismatch (none = the resolver behaves as specified).
func SelfTest() []string {
	var bad []string
	for _, t := range selfTable {
		base := NewBase(t.base, "good.example")
		r := Resolve(base, t.input)
		var got string
		switch {
		case r.Kind == Resolved && r.Relative:
			got = "same"
			if !r.SameOrigin(base) {
				got = "relative-but-not-same-origin"
			}
		case r.Kind == Resolved:
			got = r.Origin()
		default:
			got = r.Kind.String()
		}
		if got != t.want {
			bad = append(bad, fmt.Sprintf("whatwg self-test: base %s, input %q: want %s, got %s (%s)", t.base, t.input, t.want, got, r.Why))
		}
	}
	if NewBase("http", "Good.Example:80") != (Base{"http", "good.example", ""}) || NewBase("https", "good.example:8443").Port != "8443" {
		bad = append(bad, "whatwg self-test: NewBase normalisation")
	}
	return bad
}

// SelfTestSize is the number of rows of the table.
func SelfTestSize() int { return len(selfTable) }
