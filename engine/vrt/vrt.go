// Package vrt holds the hooks that overlaygen inserts before statements of the packages
// instrumented for the race check (DESIGN.md, C20): F records a plain access to a field of a
// struct reached through a pointer, M a plain access to a map. Both decide by reflection
// whether the operand really is what the syntactic pass guessed; anything else is ignored, so
// the instrumentation can only under-approximate. With no scheduler active the hooks cost
// one atomic load.
package vrt

import (
	"fmt"
	"reflect"
	"sort"
	"strings"
	"sync"

	"github.com/oauth2-proxy/oauth2-proxy/v7/verifx/sched"
)

// Enabled switches the access hooks on (C20 does; other scheduler explorations leave the
// instrumented packages unscheduled so that they do not add irrelevant scheduling points).
var Enabled bool

func live() bool { return Enabled && sched.Active() != nil && sched.Controlled() }

// F records an access to x.field, where x is a pointer to a struct.
func F(x any, field string, write bool, pos string) {
	if !live() {
		return
	}
	v := reflect.ValueOf(x)
	for v.Kind() == reflect.Ptr && !v.IsNil() && v.Elem().Kind() == reflect.Ptr {
		v = v.Elem()
	}
	if v.Kind() != reflect.Ptr || v.IsNil() || v.Elem().Kind() != reflect.Struct {
		return // a struct value: local copy, not shared through this expression
	}
	fv := v.Elem().FieldByName(field)
	if !fv.IsValid() {
		return
	}
	if fv.Kind() == reflect.Struct || fv.Kind() == reflect.Array {
		// methods on embedded synchronisation objects take the address; not a data access
		return
	}
	pp := fv.Type().PkgPath()
	if strings.HasSuffix(pp, "/vsync") || strings.HasSuffix(pp, "/vatomic") || pp == "sync" || pp == "sync/atomic" {
		return
	}
	var obs func() string
	if !write {
		obs = func() string { return describe(fv) }
	}
	sched.AddAccess(sched.Access{Addr: fv.UnsafeAddr(), Write: write, Pos: pos}, obs)
}

// M records an access to the map m (index, assignment, delete, range).
func M(m any, write bool, pos string) {
	if !live() {
		return
	}
	v := reflect.ValueOf(m)
	if v.Kind() != reflect.Map || v.IsNil() {
		return
	}
	var obs func() string
	if !write {
		obs = func() string { return describe(v) }
	}
	sched.AddAccess(sched.Access{Addr: v.Pointer(), Write: write, Pos: pos}, obs)
}

// S records an access to the whole struct x points to (a read or an overwrite of *x): one
// access per field that F would record.
func S(x any, write bool, pos string) {
	if !live() {
		return
	}
	v := reflect.ValueOf(x)
	if v.Kind() != reflect.Ptr || v.IsNil() || v.Elem().Kind() != reflect.Struct {
		return
	}
	e := v.Elem()
	for i := 0; i < e.NumField(); i++ {
		fv := e.Field(i)
		if fv.Kind() == reflect.Struct || fv.Kind() == reflect.Array {
			continue
		}
		pp := fv.Type().PkgPath()
		if strings.HasSuffix(pp, "/vsync") || strings.HasSuffix(pp, "/vatomic") || pp == "sync" || pp == "sync/atomic" {
			continue
		}
		var obs func() string
		if !write {
			f := fv
			obs = func() string { return describe(f) }
		}
		sched.AddAccess(sched.Access{Addr: fv.UnsafeAddr(), Write: write, Pos: pos}, obs)
	}
}

// V records an access to the variable p points to: a package-level variable, or a local variable
// of an enclosing function that a closure captured (both are shared by every goroutine that
// runs the closure / the package's functions).
func V(p any, write bool, pos string) {
	if !live() {
		return
	}
	v := reflect.ValueOf(p)
	if v.Kind() != reflect.Ptr || v.IsNil() {
		return
	}
	e := v.Elem()
	if e.Kind() == reflect.Struct || e.Kind() == reflect.Array {
		pp := e.Type().PkgPath()
		if strings.HasSuffix(pp, "/vsync") || strings.HasSuffix(pp, "/vatomic") || pp == "sync" || pp == "sync/atomic" {
			return
		}
	}
	var obs func() string
	if !write {
		obs = func() string { return describe(e) }
	}
	sched.AddAccess(sched.Access{Addr: v.Pointer(), Write: write, Pos: pos}, obs)
}

// P parks the thread once for all accesses F and M accumulated for the statement that
// follows: they are pending together (and compared with the pending accesses of every other
// enabled thread), and what they read is folded into the thread's observation hash when the
// thread is resumed, i.e. at the moment the statement really executes.
func P(pos string) {
	if !Enabled || sched.Active() == nil {
		return
	}
	sched.FlushAccesses(pos)
}

// AllStatements switches on statement-level scheduling for whole packages (keys: package
// directories relative to the repository root, e.g. "pkg/encryption"): under the wide
// instrumentation every statement of such a package is a scheduling point, also those that touch no
// recorded location — needed where the shared object is reached through a local variable (a value
// taken out of a shared container and then used over several statements). Set before an
// exploration starts, never changed while threads run.
var AllStatements map[string]bool

// PQ is P for the wide mode: if the statement's hooks recorded nothing (the operands turned out to be
// local copies) it is still a scheduling point where the package is switched on.
func PQ(pkg, pos string) {
	if !Enabled || sched.Active() == nil {
		return
	}
	if !sched.FlushAccesses(pos) && AllStatements != nil && AllStatements[pkg] && live() {
		sched.Point(pos)
	}
}

// Q is inserted (wide mode) before every statement for which no access hook was generated.
func Q(pkg, pos string) {
	if AllStatements == nil || !AllStatements[pkg] || !live() {
		return
	}
	sched.Point(pos)
}

func describe(v reflect.Value) string {
	switch v.Kind() {
	case reflect.Map:
		if v.IsNil() {
			return "map:nil"
		}
		keys := make([]string, 0, v.Len())
		it := v.MapRange()
		for it.Next() {
			keys = append(keys, fmt.Sprintf("%v=%v", it.Key(), safe(it.Value())))
		}
		sort.Strings(keys)
		return "map:" + strings.Join(keys, ",")
	case reflect.Ptr, reflect.UnsafePointer, reflect.Chan, reflect.Func, reflect.Slice:
		if v.IsNil() {
			return "nil"
		}
		return "ref"
	default:
		return fmt.Sprintf("%v", safe(v))
	}
}

func safe(v reflect.Value) any {
	if v.CanInterface() {
		return v.Interface()
	}
	switch v.Kind() {
	case reflect.String:
		return v.String()
	case reflect.Bool:
		return v.Bool()
	case reflect.Int, reflect.Int8, reflect.Int16, reflect.Int32, reflect.Int64:
		return v.Int()
	case reflect.Interface:
		if v.IsNil() {
			return nil
		}
		return safe(v.Elem())
	}
	return v.Kind().String()
}

// Go is what overlaygen makes of a `go` statement in the packages it rewrites: under a live
// scheduler, started from a controlled thread, the new goroutine becomes a controlled thread of
// its own (sched.Spawn) whose steps are interleaved with everybody else's by the explorer;
// otherwise it is a plain goroutine. (Without this a goroutine started by the code under test
// inherits the identity of its parent and runs beside it, outside the explorer's control.)
func Go(pos string, f func()) {
	if sched.Spawn("go@"+pos, f) {
		return
	}
	go f()
}

// Sel stands before a `select` without default (or a plain channel receive) whose channels are
// all simple expressions: a controlled thread waits in the scheduler, as a blocked thread, until
// one of the channels has something buffered or has been marked closed — the real select that
// follows then returns at once. Channels fed by uncontrolled goroutines must be buffered for this
// to see them (the fake fsnotify watcher's are, under the scheduler). Anything that is not a
// channel is ignored.
func Sel(pos string, chans ...any) {
	if sched.Active() == nil || !sched.Controlled() {
		return
	}
	var vs []reflect.Value
	for _, c := range chans {
		v := reflect.ValueOf(c)
		if v.Kind() == reflect.Chan && !v.IsNil() {
			vs = append(vs, v)
		}
	}
	ready := func() bool {
		for _, v := range vs {
			if v.Len() > 0 {
				return true
			}
			if _, ok := closedChans.Load(v.Pointer()); ok {
				return true
			}
		}
		return false
	}
	if ready() {
		sched.Point("recv@" + pos)
		return
	}
	sched.Block("recv@"+pos, ready)
}

var closedChans sync.Map

// MarkClosed tells Sel that a channel has been closed (harness-owned channels such as the
// watcher's done channel).
func MarkClosed(ch any) {
	v := reflect.ValueOf(ch)
	if v.Kind() == reflect.Chan && !v.IsNil() {
		closedChans.Store(v.Pointer(), true)
	}
}
