// Package vcontext replaces package context in pkg/middleware so that the refresh loop's
// obtain-timeout runs on the virtual clock.
package vcontext

import (
	real "context"
	"sync"
	"time"

	"github.com/oauth2-proxy/oauth2-proxy/v7/verifx/vclock"
)

type vctx struct {
	real.Context
	mu       sync.Mutex
	done     chan struct{}
	err      error
	deadline time.Time
}

func (c *vctx) Done() <-chan struct{} { return c.done }
func (c *vctx) Err() error {
	c.mu.Lock()
	defer c.mu.Unlock()
	return c.err
}
func (c *vctx) Deadline() (time.Time, bool) { return c.deadline, true }

func (c *vctx) finish(err error) {
	c.mu.Lock()
	defer c.mu.Unlock()
	if c.err != nil {
		return
	}
	c.err = err
	close(c.done)
}

// WithDeadline is context.WithDeadline on the virtual clock when one is active.
func WithDeadline(parent real.Context, d time.Time) (real.Context, real.CancelFunc) {
	if !vclock.Active() {
		return real.WithDeadline(parent, d)
	}
	c := &vctx{Context: parent, done: make(chan struct{}), deadline: d}
	cancelTimer := vclock.At(d, func() { c.finish(real.DeadlineExceeded) })
	stop := real.AfterFunc(parent, func() { c.finish(parent.Err()) })
	return c, func() {
		cancelTimer()
		stop()
		c.finish(real.Canceled)
	}
}

// WithTimeout is context.WithTimeout on the virtual clock when one is active.
func WithTimeout(parent real.Context, timeout time.Duration) (real.Context, real.CancelFunc) {
	if !vclock.Active() {
		return real.WithTimeout(parent, timeout)
	}
	return WithDeadline(parent, vclock.Now().Add(timeout))
}
