// Package sched is the cooperative scheduler of the SCHED explorations (DESIGN.md §3.2).
//
// Controlled threads are real goroutines of which exactly one runs at a time. Every hooked
// operation (vsync/vatomic call, instrumented plain access, store/lock/IdP call of the world)
// parks the calling thread with a description of the operation it is about to perform; the
// scheduler then asks the explorer which enabled thread continues. Between two parks a thread
// runs atomically, so the explored executions are exactly the sequentially consistent
// interleavings at hook granularity.
//
// Data races are decided inside the exploration without vector clocks: a race is a reachable
// state in which two enabled threads are both about to perform plain accesses to the same
// location, at least one of them a write (they could then execute in either order with no
// synchronisation in between).
package sched

import (
	"fmt"
	"os"
	"runtime"
	"sort"
	"strconv"
	"sync"
	"sync/atomic"
	"time"
)

// Chooser is implemented by explore.Exec.
type Chooser interface {
	ChooseCost(label string, costs []int) int
}

// Pruner is optionally implemented by the chooser: Visit reports whether the state with this
// key still has to be expanded.
type Pruner interface {
	Visit(key string) bool
}

// Access is one plain memory access a thread is about to perform.
type Access struct {
	Addr  uintptr
	Write bool
	Pos   string
}

// Race is a pair of co-enabled conflicting accesses.
type Race struct {
	A, B     Access
	TA, TB   string
	Schedule []int
}

func (r Race) Key() string {
	p, q := r.A.Pos, r.B.Pos
	if q < p {
		p, q = q, p
	}
	return p + "~" + q
}

type state int

const (
	stRunnable state = iota
	stFinished
)

// Thread is one controlled goroutine.
type Thread struct {
	abandoned bool // given up by the watchdog: still blocked (or running uncontrolled) outside the scheduler
	ID        int
	Name      string
	wake      chan struct{}
	st        state
	cond      func() bool // non-nil: blocked until cond() holds
	yielded   bool
	label     string   // pending operation
	pending   []Access // plain accesses performed right after the park
	acc       []Access // accumulated by vrt.F/vrt.M until vrt.P
	accObs    []func() string
	steps     int
	obs       uint64 // running hash of everything the thread observed
	Panic     any
	PanicAt   string
	realGID   uint64
	spawned   bool // created by Spawn while the execution was running (a goroutine of the code under test)
}

// Options of one scheduler instance.
type Options struct {
	// Horizon bounds the number of consecutive steps in which only yielded threads were
	// enabled (livelock) and the total number of scheduling steps.
	Horizon  int
	MaxSteps int
	// StateKey, when set together with a chooser implementing Pruner, enables visited-state
	// pruning. It must describe the shared state; per-thread positions and observation
	// hashes are added by the scheduler.
	StateKey func() string
	// PositionsByObservation leaves the per-thread step counters out of the state key: a
	// thread's position is then identified by its pending operation and its observation hash
	// alone. Needed for polling loops (a waiter that retries returns to the same local state and
	// must be recognised as such, or the state space is infinite); only sound when every
	// operation between two scheduling points with the same label folds what it returned into
	// the observation hash, which the harness asserts for its hooks.
	PositionsByObservation bool
}

// Outcome of one execution.
type Outcome struct {
	Aborted  string // "", "deadlock", "livelock", "horizon", "pruned"
	Steps    int
	Races    []Race
	Order    []int // thread id per step
	Blocked  []string
	Panics   []string
	Switches int
}

// Sched is one execution's scheduler.
type Sched struct {
	ch      Chooser
	opts    Options
	threads []*Thread
	cur     *Thread
	done    chan struct{}
	aborted string
	out     Outcome
	spin    int
	gids    sync.Map // goroutine id -> *Thread
	started bool
	ready   sync.WaitGroup
	inPick  bool         // set while the scheduler itself runs harness code (state keys): hooks are no-ops
	beat    atomic.Int64 // progress counter for the watchdog
}

// WatchdogSeconds: if no thread reaches a scheduling point for this long (real time) the process
// ends with a harness error instead of hanging until an outer timeout: the running thread is
// blocked outside the scheduler (a real lock held by a parked thread, real I/O). Not an oracle.
var WatchdogSeconds = 20

var active atomic.Pointer[Sched]

type abortSignal struct{}

// New creates a scheduler and makes it the process-wide active one.
func New(ch Chooser, opts Options) *Sched {
	if opts.Horizon == 0 {
		opts.Horizon = 2000
	}
	if opts.MaxSteps == 0 {
		opts.MaxSteps = 100000
	}
	s := &Sched{ch: ch, opts: opts, done: make(chan struct{})}
	return s
}

// Active returns the running scheduler, or nil.
func Active() *Sched { return active.Load() }

// Current returns the controlled thread of the calling goroutine, or nil.
func Current() *Thread {
	s := active.Load()
	if s == nil {
		return nil
	}
	g := gid()
	if g == 0 {
		return nil
	}
	if t, ok := s.gids.Load(g); ok {
		return t.(*Thread)
	}
	return nil
}

// CurrentID is the calling controlled thread's id, or -1.
func CurrentID() int {
	if t := Current(); t != nil {
		return t.ID
	}
	return -1
}

// Go registers a controlled thread. Must be called before Run.
func (s *Sched) Go(name string, f func()) *Thread {
	t := &Thread{ID: len(s.threads), Name: name, wake: make(chan struct{}, 1), label: "start"}
	s.threads = append(s.threads, t)
	s.ready.Add(1)
	s.start(t, f, true)
	return t
}

// Spawn adopts a goroutine that the code under test starts while the execution is running (a `go`
// statement rewritten by overlaygen into vrt.Go, a timer of the vtime shim): f becomes a further
// controlled thread, enabled from the spawner's next scheduling point on. It reports false when
// the caller is not a controlled thread of a live execution (the caller then starts a plain
// goroutine). A spawned thread that is still blocked when every registered thread has finished
// and nothing is enabled is a background loop at rest (the file watcher's event loop): that
// ends the execution as quiescent, not as a deadlock.
func Spawn(name string, f func()) bool {
	s := active.Load()
	if s == nil || s.aborted != "" || s.inPick || !s.started {
		return false
	}
	cur := Current()
	if cur == nil || cur != s.cur {
		return false
	}
	t := &Thread{ID: len(s.threads), Name: name, wake: make(chan struct{}, 1), label: "start", spawned: true}
	s.threads = append(s.threads, t)
	s.start(t, f, false)
	return true
}

func (s *Sched) start(t *Thread, f func(), initial bool) {
	go func() {
		g := tagCurrent(t.ID)
		t.realGID = realGID()
		s.gids.Store(g, t)
		defer func() {
			s.gids.Delete(g)
			untagCurrent()
		}()
		if initial {
			s.ready.Done()
		}
		<-t.wake
		defer func() {
			if r := recover(); r != nil {
				if _, ok := r.(abortSignal); !ok {
					t.Panic = r
					buf := make([]byte, 4096)
					buf = buf[:runtime.Stack(buf, false)]
					t.PanicAt = string(buf)
					s.out.Panics = append(s.out.Panics, fmt.Sprintf("%s: %v", t.Name, r))
				}
			}
			t.st = stFinished
			t.cond = nil
			t.pending = nil
			if s.aborted != "" {
				s.threadExit()
				return
			}
			s.afterFinish(t)
		}()
		if s.aborted != "" {
			panic(abortSignal{})
		}
		f()
	}()
}

// quiescent is the internal abort reason of an execution that ended with nothing but spawned
// background threads at rest; Run reports it as a normal end.
const quiescent = "quiescent"

// noneEnabled decides what "no enabled thread" means: rest or deadlock.
func (s *Sched) noneEnabled() {
	if s.aborted != "" {
		return
	}
	for _, t := range s.threads {
		if t.st != stFinished && !t.spawned {
			s.abort("deadlock")
			return
		}
	}
	s.abort(quiescent)
}

// threadExit continues the unwinding of an aborted execution: the next unfinished thread is
// woken (it panics with abortSignal at its park and unwinds in turn), so that deferred code of
// the implementation never runs in two threads at once. The last one closes done.
func (s *Sched) threadExit() {
	for _, t := range s.threads {
		if t.st != stFinished {
			s.cur = t
			t.wake <- struct{}{}
			return
		}
	}
	select {
	case <-s.done:
	default:
		close(s.done)
	}
}

// IsAbort reports whether a recovered panic value is the scheduler's unwinding signal; code
// that recovers panics around the implementation must re-panic it.
func IsAbort(r any) bool {
	_, ok := r.(abortSignal)
	return ok
}

// Run executes all registered threads to completion under the chooser and returns the outcome.
func (s *Sched) Run() *Outcome {
	if len(s.threads) == 0 {
		return &s.out
	}
	s.ready.Wait()
	active.Store(s)
	s.started = true
	if Stuck.Load() > 0 {
		s.aborted = StuckAborted
		s.threadExit()
		s.waitDone()
		active.Store(nil)
		s.out.Aborted = s.aborted
		return &s.out
	}
	next := s.pick(nil)
	if next != nil {
		s.resume(nil, next)
	} else {
		if s.aborted == "" {
			s.abort("deadlock")
		}
		s.threadExit()
	}
	s.waitDone()
	active.Store(nil)
	s.out.Aborted = s.aborted
	if s.aborted == quiescent {
		s.out.Aborted = ""
	}
	for _, t := range s.threads {
		if t.cond != nil && !(t.spawned && s.aborted == quiescent) {
			s.out.Blocked = append(s.out.Blocked, t.Name+"@"+t.label)
		}
	}
	return &s.out
}

// Stuck counts executions that were given up because the running thread blocked outside the
// scheduler (see waitDone). Once non-zero, every later Run in this process gives up at once: the
// blocked goroutine may hold real locks of the code under test for ever.
var Stuck atomic.Int64

// StuckAborted is Outcome.Aborted of such an execution. It says nothing about the code under
// test: harnesses treat it as inconclusive.
const StuckAborted = "stuck-outside-scheduler"

func (s *Sched) waitDone() {
	last, idle := s.beat.Load(), 0
	tick := time.NewTicker(time.Second)
	defer tick.Stop()
	for {
		select {
		case <-s.done:
			return
		case <-tick.C:
			if b := s.beat.Load(); b != last {
				last, idle = b, 0
				continue
			}
			idle++
			if idle >= WatchdogSeconds {
				// The running thread has not come back for WatchdogSeconds of real time: it waits, outside
				// the scheduler, for something only a parked thread can do (a synchronisation primitive of
				// a dependency — x/sync/singleflight, a channel — that the build does not substitute). The
				// execution is given up: the blocked thread is abandoned (if it ever wakes it runs on
				// uncontrolled: every hook is a no-op once aborted), the parked ones unwind in order.
				name, label := "?", "?"
				t := s.cur
				if t != nil {
					name, label = t.Name, t.label
				}
				fmt.Fprintf(os.Stderr, "note: scheduler watchdog: no scheduling point reached for %d s; thread %s (last operation %q) is blocked outside the scheduler — execution given up\n", WatchdogSeconds, name, label)
				Stuck.Add(1)
				s.aborted = StuckAborted
				s.out.Blocked = append(s.out.Blocked, name+"@outside-the-scheduler-after-"+label)
				if t != nil {
					t.st = stFinished
					t.abandoned = true
				}
				s.threadExit()
				<-s.done
				return
			}
		}
	}
}

// abort ends the execution: every parked thread is woken and unwinds.
func (s *Sched) abort(reason string) {
	if s.aborted != "" {
		return
	}
	s.aborted = reason
}

func (s *Sched) afterFinish(t *Thread) {
	allDone := true
	for _, o := range s.threads {
		if o.st != stFinished {
			allDone = false
		}
	}
	if allDone {
		close(s.done)
		return
	}
	next := s.pick(t)
	if next == nil {
		s.noneEnabled()
		s.threadExit()
		return
	}
	s.resume(t, next)
}

// enabledOf lists the enabled threads in canonical order: the running thread first if it is
// still enabled, then ascending ids. Yielded threads are excluded while any other is enabled.
func (s *Sched) enabledOf(run *Thread) (en []*Thread, onlyYielders bool) {
	var normal, yielders []*Thread
	for _, t := range s.threads {
		if t.st == stFinished {
			continue
		}
		if t.cond != nil && !t.cond() {
			continue
		}
		if t.yielded {
			yielders = append(yielders, t)
		} else {
			normal = append(normal, t)
		}
	}
	list := normal
	if len(list) == 0 {
		list = yielders
		onlyYielders = len(list) > 0
	}
	if run != nil {
		for i, t := range list {
			if t == run {
				copy(list[1:i+1], list[:i])
				list[0] = run
				break
			}
		}
	}
	return list, onlyYielders
}

func (s *Sched) pick(run *Thread) *Thread {
	s.beat.Add(1)
	if s.aborted != "" {
		return nil
	}
	en, onlyY := s.enabledOf(run)
	if len(en) == 0 {
		return nil
	}
	if onlyY {
		s.spin++
		if s.spin > s.opts.Horizon {
			s.abort("livelock")
			return nil
		}
	} else {
		s.spin = 0
	}
	s.out.Steps++
	if s.out.Steps > s.opts.MaxSteps {
		s.abort("horizon")
		return nil
	}
	s.checkRaces(en)
	if s.opts.StateKey != nil {
		if p, ok := s.ch.(Pruner); ok {
			if !p.Visit(s.stateKey(run)) {
				s.abort("pruned")
				return nil
			}
		}
	}
	idx := 0
	if len(en) > 1 {
		costs := make([]int, len(en))
		if !onlyY && run != nil && en[0] == run && run.st != stFinished {
			for i := 1; i < len(costs); i++ {
				costs[i] = 1 // switching away from a runnable thread is a preemption
			}
		}
		var lb []byte
		lb = append(lb, "sched:"...)
		for _, t := range en {
			lb = strconv.AppendInt(lb, int64(t.ID), 10)
			lb = append(lb, '@')
			lb = append(lb, t.label...)
			lb = append(lb, ' ')
		}
		idx = s.ch.ChooseCost(string(lb), costs)
		if idx < 0 || idx >= len(en) {
			idx = 0
		}
	}
	return en[idx]
}

func (s *Sched) stateKey(run *Thread) string {
	var b []byte
	s.inPick = true
	b = append(b, s.opts.StateKey()...)
	s.inPick = false
	for _, t := range s.threads {
		b = append(b, '|')
		if !s.opts.PositionsByObservation {
			b = strconv.AppendInt(b, int64(t.steps), 10)
		}
		b = append(b, ':')
		b = append(b, t.label...)
		b = append(b, ':')
		b = strconv.AppendUint(b, t.obs, 16)
		if t.st == stFinished {
			b = append(b, 'F')
		}
		if t.yielded {
			b = append(b, 'Y')
		}
		if t.cond != nil {
			b = append(b, 'B')
		}
	}
	if run != nil {
		b = append(b, '#')
		b = strconv.AppendInt(b, int64(run.ID), 10)
	}
	if DebugKeys != nil {
		DebugKeys(string(b))
	}
	return string(b)
}

// TraceLabels, if set, receives (thread, label) of every park (harness debugging).
var TraceLabels func(thread, label string)

// DebugKeys, if set, receives every state key (harness debugging).
var DebugKeys func(string)

func (s *Sched) checkRaces(en []*Thread) {
	n := 0
	for _, t := range en {
		if len(t.pending) > 0 {
			n++
		}
	}
	if n < 2 {
		return
	}
	for i := 0; i < len(en); i++ {
		for j := i + 1; j < len(en); j++ {
			for _, a := range en[i].pending {
				for _, b := range en[j].pending {
					if a.Addr == b.Addr && (a.Write || b.Write) {
						r := Race{A: a, B: b, TA: en[i].Name, TB: en[j].Name}
						dup := false
						for _, o := range s.out.Races {
							if o.Key() == r.Key() {
								dup = true
							}
						}
						if !dup {
							s.out.Races = append(s.out.Races, r)
						}
					}
				}
			}
		}
	}
}

// resume hands control from `from` (nil = the driver) to next and, if from is a live
// thread, parks it until it is chosen again.
func (s *Sched) resume(from, next *Thread) {
	if next != from {
		s.out.Switches++
		for _, t := range s.threads {
			if t != next {
				t.yielded = false
			}
		}
	}
	s.out.Order = append(s.out.Order, next.ID)
	next.steps++
	s.cur = next
	if next == from {
		return
	}
	next.wake <- struct{}{}
	if from == nil || from.st == stFinished {
		return
	}
	<-from.wake
	if s.aborted != "" {
		panic(abortSignal{})
	}
}

// park is the heart of every hook: the calling thread announces its next operation and the
// scheduler decides who runs.
func (s *Sched) park(t *Thread, label string, acc []Access) {
	if s.aborted != "" || s.inPick {
		return
	}
	t.label = label
	t.pending = acc
	if TraceLabels != nil {
		TraceLabels(t.Name, label)
	}
	next := s.pick(t)
	if next == nil {
		s.noneEnabled()
		panic(abortSignal{})
	}
	s.resume(t, next)
	t.pending = nil
}

// Point is a scheduling point for the calling goroutine (no-op if it is not controlled).
func Point(label string) {
	s := active.Load()
	if s == nil {
		return
	}
	t := Current()
	if t == nil {
		return
	}
	s.park(t, label, nil)
}

// Yield makes waiting visible: the thread is de-prioritised until another thread has stepped.
func Yield(label string) {
	s := active.Load()
	if s == nil {
		return
	}
	t := Current()
	if t == nil || s.aborted != "" || s.inPick {
		return
	}
	t.yielded = true
	s.park(t, label, nil)
}

// Block parks the calling thread until cond holds (evaluated by the scheduler, never
// concurrently with a running thread). Returns false if the caller is not controlled, in
// which case the caller must fall back to real blocking.
func Block(label string, cond func() bool) bool {
	s := active.Load()
	if s == nil {
		return false
	}
	t := Current()
	if t == nil {
		return false
	}
	if s.aborted != "" {
		return true
	}
	t.cond = cond
	s.park(t, label, nil)
	t.cond = nil
	return true
}

// Controlled reports whether the calling goroutine is a controlled thread of a live execution.
func Controlled() bool {
	s := active.Load()
	return s != nil && s.aborted == "" && !s.inPick && Current() != nil
}

// AddAccess accumulates a plain access of the statement the thread is about to execute;
// observe (optional) renders the value read and is evaluated after the park, i.e. at the
// moment the statement really executes.
func AddAccess(a Access, observe func() string) {
	if t := Current(); t != nil {
		t.acc = append(t.acc, a)
		if observe != nil {
			t.accObs = append(t.accObs, observe)
		}
	}
}

// FlushAccesses parks the thread with the accumulated accesses as its pending operation.
func FlushAccesses(label string) (parked bool) {
	s := active.Load()
	if s == nil {
		return false
	}
	t := Current()
	if t == nil {
		return false
	}
	acc, obs := t.acc, t.accObs
	t.acc, t.accObs = nil, nil
	if len(acc) == 0 {
		return false
	}
	s.park(t, label, acc)
	for _, f := range obs {
		Observe(f())
	}
	return true
}

// Observe folds v into the calling thread's observation hash (state-key pruning).
func Observe(v string) {
	if t := Current(); t != nil {
		h := t.obs
		if h == 0 {
			h = 14695981039346656037
		}
		for i := 0; i < len(v); i++ {
			h ^= uint64(v[i])
			h *= 1099511628211
		}
		h ^= 0xff
		h *= 1099511628211
		t.obs = h
	}
}

// Threads returns the registered threads.
func (s *Sched) Threads() []*Thread { return s.threads }

// DescribeOrder renders an order log compactly.
func DescribeOrder(o []int) string {
	var b []byte
	for _, x := range o {
		b = strconv.AppendInt(b, int64(x), 10)
	}
	return string(b)
}

// SortedRaceKeys returns the distinct race keys of an outcome.
func (o *Outcome) SortedRaceKeys() []string {
	m := map[string]bool{}
	for _, r := range o.Races {
		m[r.Key()] = true
	}
	var ks []string
	for k := range m {
		ks = append(ks, k)
	}
	sort.Strings(ks)
	return ks
}
