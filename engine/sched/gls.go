package sched

import (
	"context"
	"runtime/pprof"
	"strconv"
	"unsafe"
)

// Thread identity without walking the stack: every controlled thread tags its goroutine with
// a profiler label set (runtime/pprof.SetGoroutineLabels); the runtime keeps one pointer per
// goroutine to that set and hands it out through the hook runtime/pprof itself uses. The
// pointer value identifies the thread. (runtime.Stack costs ~5 µs per call on these stacks
// and dominated the exploration time; assembly is not available in overlay-only packages.)
//
// Goroutines started by a controlled thread inherit its label set; such helpers (HTTP
// transport internals) never reach a hooked operation, and the hooks additionally compare the
// goroutine's start marker, see registerCurrent.

//go:linkname runtime_getProfLabel runtime/pprof.runtime_getProfLabel
func runtime_getProfLabel() unsafe.Pointer

func gid() uint64 { return uint64(uintptr(runtime_getProfLabel())) }

// tagCurrent gives the calling goroutine a fresh label set and returns its identity.
func tagCurrent(id int) uint64 {
	ctx := pprof.WithLabels(context.Background(), pprof.Labels("verif-thread", strconv.Itoa(id)))
	pprof.SetGoroutineLabels(ctx)
	return gid()
}

func untagCurrent() {
	pprof.SetGoroutineLabels(context.Background())
}
