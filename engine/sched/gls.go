package sched

import (
	"bytes"
	"context"
	"runtime"
	"runtime/pprof"
	"strconv"
	"unsafe"
)

// Thread identity without walking the stack: every controlled thread tags its goroutine with
// a profiler label set (runtime/pprof.SetGoroutineLabels); the runtime keeps one pointer per
// goroutine to that set and hands it out through the hook runtime/pprof itself uses. The
// pointer value identifies the thread. (runtime.Stack costs ~5 µs per call on these stacks
// and dominated the exploration time; assembly is not available in overlay-only packages.)
//
// Goroutines started by a controlled thread inherit its label set; such helpers (HTTP
// transport internals) never reach a hooked operation, and the hooks additionally compare the
// goroutine's start marker, see registerCurrent.

//go:linkname runtime_getProfLabel runtime/pprof.runtime_getProfLabel
func runtime_getProfLabel() unsafe.Pointer

func gid() uint64 { return uint64(uintptr(runtime_getProfLabel())) }

// tagCurrent gives the calling goroutine a fresh label set and returns its identity.
func tagCurrent(id int) uint64 {
	ctx := pprof.WithLabels(context.Background(), pprof.Labels("verif-thread", strconv.Itoa(id)))
	pprof.SetGoroutineLabels(ctx)
	return gid()
}

func untagCurrent() {
	pprof.SetGoroutineLabels(context.Background())
}

// realGID parses the goroutine id from the stack header (about 5 µs; used only once per
// thread and by the strict check of rare, heavy hooks).
func realGID() uint64 {
	var buf [64]byte
	n := runtime.Stack(buf[:], false)
	b := buf[:n]
	b = b[len("goroutine "):]
	i := bytes.IndexByte(b, ' ')
	id, _ := strconv.ParseUint(string(b[:i]), 10, 64)
	return id
}

// Strict reports whether the calling goroutine is a controlled thread's OWN goroutine, not a
// helper goroutine the thread started (helpers inherit the label set). The store and
// identity-provider hooks of the world use it: client libraries may issue requests from
// helper goroutines (go-oidc fetches keys that way), and those must pass through unscheduled.
func Strict() bool {
	t := Current()
	return t != nil && t.realGID == realGID()
}
