// Package vtime is a drop-in replacement for package time in the repository packages that
// are put on the virtual clock (pkg/encryption, pkg/middleware). Everything not defined
// here is re-exported from the real package by a generated alias file.
package vtime

import (
	real "time"

	"github.com/oauth2-proxy/oauth2-proxy/v7/verifx/sched"
	"github.com/oauth2-proxy/oauth2-proxy/v7/verifx/vclock"
)

// Now returns the virtual time when a virtual clock is active.
func Now() real.Time { return vclock.Now() }

// Since is Now().Sub(t).
func Since(t real.Time) real.Duration { return Now().Sub(t) }

// Until is t.Sub(Now()).
func Until(t real.Time) real.Duration { return t.Sub(Now()) }

// Sleep makes waiting visible: under the scheduler it is a yield, and with a virtual clock
// it advances virtual time instead of blocking the process.
// RealSleep makes Sleep always block for real (set by the free-running race-detector pass, in
// which several goroutines run at once and nobody may move the shared virtual clock).
var RealSleep bool

func Sleep(d real.Duration) {
	if RealSleep {
		real.Sleep(d)
		return
	}
	if sched.Controlled() {
		// Under the scheduler a sleep in a retry loop is a pure yield: virtual time does not
		// move, so that states do not differ merely by how often a waiter has polled (the
		// explored executions are those in which the lock's TTL and the obtain timeout are not
		// reached — the property's proviso; unbounded waiting is caught as livelock).
		sched.Yield("sleep")
		return
	}
	if vclock.Active() {
		vclock.Advance(d)
		return
	}
	real.Sleep(d)
}
