// Package vtime is a drop-in replacement for package time in the repository packages that
// are put on the virtual clock (pkg/encryption, pkg/middleware). Everything not defined
// here is re-exported from the real package by a generated alias file.
package vtime

import (
	real "time"

	"github.com/oauth2-proxy/oauth2-proxy/v7/verifx/sched"
	"github.com/oauth2-proxy/oauth2-proxy/v7/verifx/vclock"
)

// Now returns the virtual time when a virtual clock is active.
func Now() real.Time { return vclock.Now() }

// Since is Now().Sub(t).
func Since(t real.Time) real.Duration { return Now().Sub(t) }

// Until is t.Sub(Now()).
func Until(t real.Time) real.Duration { return t.Sub(Now()) }

// Sleep makes waiting visible: under the scheduler it is a yield, and with a virtual clock
// it advances virtual time instead of blocking the process.
// RealSleep makes Sleep always block for real (set by the free-running race-detector pass, in
// which several goroutines run at once and nobody may move the shared virtual clock).
var RealSleep bool

func Sleep(d real.Duration) {
	if RealSleep {
		real.Sleep(d)
		return
	}
	if sched.Controlled() {
		// Under the scheduler a sleep in a retry loop is a pure yield: virtual time does not
		// move, so that states do not differ merely by how often a waiter has polled (the
		// explored executions are those in which the lock's TTL and the obtain timeout are not
		// reached — the property's proviso; unbounded waiting is caught as livelock).
		sched.Yield("sleep")
		return
	}
	if vclock.Active() {
		vclock.Advance(d)
		return
	}
	real.Sleep(d)
}

// Timer is time.Timer with a model under the scheduler: a timer that a controlled thread
// creates becomes a spawned controlled thread which fires (runs f, or delivers on C) at a
// moment the explorer chooses — any time after its creation, unless it has been stopped before.
// Durations are not compared: that two timers fire in the order of their deadlines is not
// something a Go program may rely on across goroutines, and the explored executions are a
// superset of the timely ones. Outside the scheduler it is a thin wrapper around the real timer.
type Timer struct {
	C <-chan real.Time
	r *real.Timer
	m *modelTimer
}

type modelTimer struct {
	stopped, fired bool
	f              func()
	c              chan real.Time
}

func (m *modelTimer) arm() bool {
	return sched.Spawn("timer", func() {
		if m.stopped {
			return
		}
		m.fired = true
		if m.f != nil {
			m.f()
			return
		}
		select {
		case m.c <- Now():
		default:
		}
	})
}

// AfterFunc mirrors time.AfterFunc.
func AfterFunc(d real.Duration, f func()) *Timer {
	if !RealSleep && sched.Controlled() {
		m := &modelTimer{f: f}
		if m.arm() {
			return &Timer{m: m}
		}
	}
	return &Timer{r: real.AfterFunc(d, f)}
}

// NewTimer mirrors time.NewTimer.
func NewTimer(d real.Duration) *Timer {
	if !RealSleep && sched.Controlled() {
		m := &modelTimer{c: make(chan real.Time, 1)}
		if m.arm() {
			return &Timer{C: m.c, m: m}
		}
	}
	r := real.NewTimer(d)
	return &Timer{C: r.C, r: r}
}

// After mirrors time.After.
func After(d real.Duration) <-chan real.Time { return NewTimer(d).C }

// Stop mirrors (*time.Timer).Stop.
func (t *Timer) Stop() bool {
	if t.m == nil {
		return t.r.Stop()
	}
	was := !t.m.stopped && !t.m.fired
	t.m.stopped = true
	return was
}

// Reset mirrors (*time.Timer).Reset.
func (t *Timer) Reset(d real.Duration) bool {
	if t.m == nil {
		return t.r.Reset(d)
	}
	was := !t.m.stopped && !t.m.fired
	t.m.stopped = true
	n := &modelTimer{f: t.m.f, c: t.m.c}
	t.m = n
	if !n.arm() {
		// no longer under the scheduler (execution aborted): nothing will fire
		n.stopped = true
	}
	return was
}
