// Package vtime is a drop-in replacement for package time in the repository packages that
// are put on the virtual clock (pkg/encryption, pkg/middleware). Everything not defined
// here is re-exported from the real package by a generated alias file.
package vtime

import (
	real "time"

	"github.com/oauth2-proxy/oauth2-proxy/v7/verifx/sched"
	"github.com/oauth2-proxy/oauth2-proxy/v7/verifx/vclock"
)

// Now returns the virtual time when a virtual clock is active.
func Now() real.Time { return vclock.Now() }

// Since is Now().Sub(t).
func Since(t real.Time) real.Duration { return Now().Sub(t) }

// Until is t.Sub(Now()).
func Until(t real.Time) real.Duration { return t.Sub(Now()) }

// Sleep makes waiting visible: under the scheduler it is a yield, and with a virtual clock
// it advances virtual time instead of blocking the process.
func Sleep(d real.Duration) {
	if vclock.Active() {
		vclock.Advance(d)
		sched.Yield("sleep")
		return
	}
	real.Sleep(d)
}
