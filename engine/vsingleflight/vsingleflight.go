// Package vsingleflight stands in for golang.org/x/sync/singleflight in the packages whose imports
// the build substitutes: same API and semantics, but a caller that joins a call in flight waits in
// the scheduler (sched.Block), not in the runtime, so a scheduled thread never blocks on a parked
// one. Without a scheduler it delegates to the real package.
package vsingleflight

import (
	real "golang.org/x/sync/singleflight"

	"github.com/oauth2-proxy/oauth2-proxy/v7/verifx/sched"
)

// Result mirrors singleflight.Result.
type Result = real.Result

type call struct {
	done   bool
	val    any
	err    error
	shared bool
}

// Group mirrors singleflight.Group.
type Group struct {
	r real.Group
	m map[string]*call
}

// Do mirrors singleflight.Group.Do.
func (g *Group) Do(key string, fn func() (any, error)) (v any, err error, shared bool) {
	if !sched.Controlled() {
		return g.r.Do(key, fn)
	}
	sched.Point("singleflight.Do")
	if g.m == nil {
		g.m = map[string]*call{}
	}
	if c, ok := g.m[key]; ok {
		c.shared = true
		sched.Block("singleflight.wait", func() bool { return c.done })
		return c.val, c.err, true
	}
	c := &call{}
	g.m[key] = c
	func() {
		defer func() {
			c.done = true
			delete(g.m, key)
		}()
		c.val, c.err = fn()
		// the result exists but has not been handed out yet: the window in which callers still join this
		// call although what it fetched may be out of date already (a reply in flight)
		sched.Point("singleflight.result-in-flight")
	}()
	return c.val, c.err, c.shared
}

// DoChan mirrors singleflight.Group.DoChan (the call runs in the calling thread).
func (g *Group) DoChan(key string, fn func() (any, error)) <-chan Result {
	ch := make(chan Result, 1)
	v, err, shared := g.Do(key, fn)
	ch <- Result{Val: v, Err: err, Shared: shared}
	return ch
}

// Forget mirrors singleflight.Group.Forget.
func (g *Group) Forget(key string) {
	if !sched.Controlled() {
		g.r.Forget(key)
		return
	}
	delete(g.m, key)
}
