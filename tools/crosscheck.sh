#!/bin/bash
# tools/crosscheck.sh <seed-dir-name> <Cxx> [tier] — run another property's check against a recorded
# seeded change (scratch worktree under /tmp, removed afterwards); appends to its verification.txt
set -u
seed=$1; id=$2; tier=${3:-quick}
dst=/verif/seeded/$seed
export GOFLAGS=-mod=mod GOPROXY=off
wt=/tmp/sx-$seed-$id
git -C /repo worktree remove --force $wt 2>/dev/null
git -C /repo worktree add -q $wt HEAD || exit 2
git -C $wt apply $dst/patch.diff || { echo "PATCH DOES NOT APPLY"; git -C /repo worktree remove --force $wt; exit 2; }
cd /verif
r=$(VERIF_REPO=$wt VERIF_TIMEOUT=${VERIF_TIMEOUT:-1500} ./check.sh $id $tier 2>&1 | grep -v '^  key' | tail -4 | cut -c1-300)
echo "cross-check $id $tier against the patched tree:" >> $dst/verification.txt
echo "$r" >> $dst/verification.txt
echo "$r"
git -C /repo worktree remove --force $wt
