#!/usr/bin/env python3
"""Builds the table of seeded changes (seeded/<id>-<n>/) and what caught them; writes seeded/README.md
and replaces the block between the SEEDED-TABLE markers in DESIGN.md."""
import json, os, re, glob
V = os.path.abspath(os.path.join(os.path.dirname(__file__), '..'))
rows = []
for d in sorted(glob.glob(os.path.join(V, 'seeded', 'C*-*'))):
    name = os.path.basename(d)
    meta = {}
    try:
        meta = json.load(open(os.path.join(d, 'meta.json')))
    except Exception:
        pass
    ver = open(os.path.join(d, 'verification.txt')).read() if os.path.exists(os.path.join(d, 'verification.txt')) else ''
    demo_with = re.search(r'demo WITH patch: (.*)', ver)
    demo_without = re.search(r'demo WITHOUT patch: (\S+)', ver)
    checks = re.findall(r'check (C\d\d) tier=(\w+) exit=(\d)', ver)
    extra = re.findall(r'^check (C\d\d) quick against the patched tree \((.*?)\): (caught|missed)', ver, re.M)
    caught = []
    for cid, tier, code in checks:
        caught.append(f"{cid} {tier}: {'caught (exit 1)' if code == '1' else 'MISSED (exit 0)' if code == '0' else 'exit ' + code}")
    for cid, why, res in extra:
        caught.append(f"{cid} quick: {res} ({why})")
    summary = (meta.get('summary') or meta.get('what_it_breaks') or '').replace('\n', ' ').replace('|', '/')
    needs = (meta.get('needs_to_manifest') or '').replace('\n', ' ').replace('|', '/')
    files = ', '.join(meta.get('files_changed', []) if isinstance(meta.get('files_changed'), list) else [str(meta.get('files_changed', ''))])
    rows.append((name, files, summary[:260], needs[:220],
                 f"fails with / passes without" if demo_with and 'FAIL' in demo_with.group(1) and demo_without and demo_without.group(1) == 'ok' else 'see verification.txt',
                 '; '.join(caught) or 'not run yet'))
md = ["| seeded change | files | what it does | needs to manifest | demonstration | checks |", "|---|---|---|---|---|---|"]
for r in rows:
    md.append("| " + " | ".join(r) + " |")
table = "\n".join(md)
open(os.path.join(V, 'seeded', 'README.md'), 'w').write(
    "# Seeded changes\n\nEach directory holds an independently written property-breaking change (patch.diff), its demonstration "
    "(demo_test.go), the author's description (meta.json) and what was run against it (verification.txt: the demonstration with and "
    "without the patch, the repository's own suite with the patch, and the property's check run with VERIF_REPO pointing at a scratch "
    "worktree carrying the patch). None of these is ever applied to /repo.\n\n" + table + "\n")
p = os.path.join(V, 'DESIGN.md')
s = open(p).read()
a, b = '<!-- SEEDED-TABLE-BEGIN -->', '<!-- SEEDED-TABLE-END -->'
if a in s and b in s:
    s = s[:s.index(a) + len(a)] + "\n" + table + "\n" + s[s.index(b):]
    open(p, 'w').write(s)
print(len(rows), 'rows')
