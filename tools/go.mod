module verif/tools

go 1.23
