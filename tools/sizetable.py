#!/usr/bin/env python3
"""Per-check measured coverage table from evidence/*.json -> DESIGN.md (between SIZE-TABLE markers)."""
import json, glob, os
V = os.path.abspath(os.path.join(os.path.dirname(__file__), '..'))
rows = ["| id | level | tier | wall s | evaluations | distinct non-trivial | states | transitions | executions on the implementation | exhaustive |",
        "|---|---|---|---|---|---|---|---|---|---|"]
for f in sorted(glob.glob(os.path.join(V, 'evidence', 'C*.json'))):
    e = json.load(open(f)); c = e['coverage']
    g = lambda k: f"{c[k]:,}" if isinstance(c.get(k), int) else ""
    rows.append(f"| {e['property_id']} | {e['level']} | {e['tier']} | {e['wall_s']:.0f} | {g('evaluations')} | {g('distinct_nontrivial')} | {g('states')} | {g('transitions')} | {g('traces_validated_against_impl')} | {c.get('exhaustive')} |")
t = "\n".join(rows)
p = os.path.join(V, 'DESIGN.md'); s = open(p).read()
a, b = '<!-- SIZE-TABLE-BEGIN -->', '<!-- SIZE-TABLE-END -->'
if a in s:
    s = s[:s.index(a) + len(a)] + "\n" + t + "\n" + s[s.index(b):]
    open(p, 'w').write(s)
print(t)
