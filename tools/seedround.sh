#!/bin/bash
# tools/seedround.sh <Cxx> [round-tag=r5-] [src=/tmp/seed-out5]: verify both seeds of one property, logs to build/seedround-*.log
id=$1; tag=${2:-r5-}; src=${3:-/tmp/seed-out5}
cd /verif; mkdir -p build
for n in 1 2 3; do
  [ -f $src/$id/patch$n.diff ] || continue
  SEED_SRC=$src SEED_TAG=$tag tools/seedcheck.sh $id $n > build/seedround-$id-$tag$n.log 2>&1
done
