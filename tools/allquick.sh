#!/bin/bash
# tools/allquick.sh [ids...] : run the quick tier of the given (default: all) checks in /verif against /repo, one line each
cd /verif
ids=${@:-C01 C02 C03 C04 C05 C06 C07 C08 C09 C10 C11 C12 C13 C14 C15 C16 C17 C18 C19 C20}
for id in $ids; do
  out=$(VERIF_TIMEOUT=1500 ./check.sh $id quick 2>&1 | grep -v condarc)
  echo "$id: $(echo "$out" | grep -c '^VIOLATION') violations; $(echo "$out" | tail -1 | cut -c1-120)"
  echo "$out" | grep '^VIOLATION\|HARNESS\|KNOWN-FINDING\|^note' | cut -c1-300
done
