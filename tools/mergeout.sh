#!/bin/bash
# tools/mergeout.sh <outdir> <base-commit>: 3-way merge of files a builder delivered (copied from /verif at <base-commit>) into /verif
out=$1; base=$2
cd /verif
(cd $out && find . -type f ! -name NOTES.md ! -path './mutants/*' ! -path './build/*' ! -path './bin/*' ! -path './evidence/*' ! -path './replays/*' | sed 's|^\./||') | while read f; do
  if [ ! -f /verif/$f ]; then mkdir -p $(dirname /verif/$f); cp $out/$f /verif/$f; echo "NEW   $f"; continue; fi
  if cmp -s $out/$f /verif/$f; then continue; fi
  if git show $base:$f > /tmp/.mergebase 2>/dev/null; then
    if cmp -s /tmp/.mergebase $out/$f; then echo "SAME-AS-BASE $f (skipped)"; continue; fi
    if git merge-file -p /verif/$f /tmp/.mergebase $out/$f > /tmp/.merged 2>/dev/null; then cp /tmp/.merged /verif/$f; echo "MERGED $f"; else echo "CONFLICT $f (left untouched; theirs at $out/$f)"; fi
  else
    echo "NO-BASE $f (exists here, not at base): left untouched"
  fi
done
