#!/usr/bin/env python3
import json, sys, glob, jsonschema
m = json.load(open('/verif/MANIFEST.json'))
jsonschema.validate(m, json.load(open('/root/.vp/MANIFEST.schema.json')))
es = json.load(open('/root/.vp/EVIDENCE.schema.json'))
for c in m['checks']:
    f = c['evidence_file']
    try:
        e = json.load(open(f))
        jsonschema.validate(e, es)
        assert e['level'] == c['level_claimed']['category'], (f, e['level'])
        print('ok', f, e['tier'], 'violations', e.get('violations'), 'exh', e['coverage'].get('exhaustive'))
    except FileNotFoundError:
        print('MISSING', f)
print('manifest valid')
