#!/usr/bin/env python3
"""Generates /verif/MANIFEST.json from the table below (kept in one place so that the
manifest stays valid and in step with the checks that exist)."""
import json, os, sys
HERE = os.path.dirname(os.path.abspath(__file__))
VERIF = os.path.abspath(os.path.join(HERE, "..", ".."))
props = [json.loads(l) for l in open(os.path.join(VERIF, "properties.jsonl"))]
ids = [p["id"] for p in props]

# id -> (category, technique, level text, level note)
CHECKS = json.load(open(os.path.join(HERE, "checks.json")))

checks, na = [], []
for i in ids:
    c = CHECKS.get(i)
    if not c or not c.get("claimed"):
        na.append({"property_id": i, "reason": (c or {}).get("reason", "check not built yet in this session; design in DESIGN.md §4")})
        continue
    checks.append({
        "property_id": i,
        "quick_cmd": f"./check.sh {i} quick",
        "thorough_cmd": f"./check.sh {i} thorough",
        "evidence_file": f"/verif/evidence/{i}.json",
        "replay_cmd_template": f"./check.sh {i} --replay {{path}}",
        "engine": c.get("engine", "explore"),
        "level_claimed": {"category": c["category"], "text": c["text"], "design_ref": f"DESIGN.md §4 {i}"},
        "level_note": c["note"],
        "technique": c["technique"],
    })
m = {
    "version": 1,
    "setup_cmd": "./setup.sh",
    "hooks": {
        "guard": "verif",
        "enable": "no hook commits in /repo: check.sh generates a go build -overlay from the current tree (tools/overlaygen) that swaps sync, sync/atomic, time, context and fsnotify imports of a few packages for shims under the virtual package <module>/verifx/..., rewrites `go` statements into vrt.Go (the goroutine becomes a scheduler thread) and puts vrt.Sel before blocking selects/receives, instruments plain field/map accesses of pkg/authentication/basic, validator.go, pkg/header and pkg/middleware/headers.go (narrow build) or of every package of the repository incl. package-level and closure-captured variables and statement-level scheduling points (wide build, used for C01-C10, C16, C18, falling back to the narrow build and then to import swaps only if the instrumented tree does not compile), generates accessors for the few unexported members the harness needs from the current source, and injects harness/*_test.go (build tag verif) into package main; built with `go test -c -tags verif -overlay`",
        "baseline_off_cmd": "cd /repo && GOFLAGS=-mod=mod GOPROXY=off go test -vet=off -count=1 ./...",
        "source_commits": [],
        "add_only": True,
    },
    "engines": [
        {"name": "explore", "path": "engine/explore", "serves_properties": [c["property_id"] for c in checks], "kind_free_text": "stateless explorer over choice sequences in order of deviation cost (ENV faults, scheduler decisions), work-list per cost level, subtree sharding, budget-aware visited-state pruning"},
        {"name": "sched", "path": "engine/sched", "serves_properties": ["C12", "C20"], "kind_free_text": "cooperative scheduler over real goroutines; hooks: vsync/vatomic shims, instrumented plain accesses, store/lock/IdP calls; race = co-enabled conflicting accesses"},
        {"name": "world", "path": "engine/world", "serves_properties": [c["property_id"] for c in checks], "kind_free_text": "closed world: virtual clock, deterministic crypto/rand, RFC 6265 jar, in-memory OIDC provider, recording upstreams, miniredis behind a hookable client"},
    ],
    "checks": checks,
    "not_applicable": na,
    "notes": "All checks run the real implementation (no separate model). Known and fixed defects: known_findings.json. See DESIGN.md.",
}
json.dump(m, open(os.path.join(VERIF, "MANIFEST.json"), "w"), indent=1)
print(f"claimed {len(checks)}, not_applicable {len(na)}")
