#!/bin/bash
# tools/seedcheck.sh <Cxx> <n> [tier]  — verify seeded change /tmp/seed-out/Cxx/patch<n>.diff:
#   demo fails with it and passes without it, then run the property's check against it.
# Results are appended to /verif/seeded/Cxx-<n>/verification.txt
set -u
id=$1; n=$2; tier=${3:-quick}
src=${SEED_SRC:-/tmp/seed-out}/$id
dst=/verif/seeded/$id-${SEED_TAG:-}$n
mkdir -p $dst
[ -f $src/patch$n.diff ] && cp $src/patch$n.diff $dst/patch.diff
[ -f $src/demo${n}_test.go ] && cp $src/demo${n}_test.go $dst/demo_test.go
[ -f $src/meta$n.json ] && cp $src/meta$n.json $dst/meta.json
export GOFLAGS=-mod=mod GOPROXY=off
wt=/tmp/sv-$id-${SEED_TAG:-}$n
git -C /repo worktree remove --force $wt 2>/dev/null
git -C /repo worktree add -q $wt HEAD || exit 2
out=$dst/verification.txt
: > $out
echo "repo HEAD $(git -C /repo log --format=%h -1), $(date -u +%FT%TZ)" >> $out
# where does the demo go?
dir=$(head -3 $dst/demo_test.go | grep -o 'pkg/[A-Za-z0-9_/]*\|providers\|repo root\|repository root\|package main' | head -1)
case "$dir" in pkg/*|providers) d=$dir;; *) d=.;; esac
pk=$(grep -m1 '^package ' $dst/demo_test.go | awk '{print $2}')
if [ "$pk" = "main" ]; then d=.; fi
if [ "$d" = "." ] && [ "$pk" != "main" ]; then d=$(grep -rl "^package $pk\$" $wt --include=*.go | head -1 | xargs dirname | sed "s|$wt/||"); fi
echo "demo dir: $d (package $pk)" >> $out
cp $dst/demo_test.go $wt/$d/zz_seed_demo_test.go
runre=$(grep -o '^func Test[A-Za-z0-9_]*' $dst/demo_test.go | sed 's/func //' | paste -sd'|')
[ -z "$runre" ] && runre=.
echo "demo tests: $runre" >> $out
(cd $wt && go test -vet=off -count=1 -run "^($runre)\$" ./$d/ 2>&1 | tail -3) > $dst/.clean.txt
echo "demo WITHOUT patch: $(tail -1 $dst/.clean.txt)" >> $out
if ! git -C $wt apply $dst/patch.diff 2>>$out; then echo "PATCH DOES NOT APPLY" >> $out; fi
(cd $wt && go build ./... 2>&1 | tail -3) >> $out
(cd $wt && go test -vet=off -count=1 -run "^($runre)\$" ./$d/ 2>&1 | tail -3) > $dst/.patched.txt
echo "demo WITH patch: $(tail -1 $dst/.patched.txt)" >> $out
rm -f $wt/$d/zz_seed_demo_test.go
(cd $wt && go test -vet=off -count=1 ./... 2>&1 | grep -v '^ok\|no test files' | head -5) > $dst/.suite.txt
echo "existing suite with patch (non-ok lines): $(cat $dst/.suite.txt | tr '\n' ' ')" >> $out
cd /verif
r=$(VERIF_REPO=$wt VERIF_TIMEOUT=1500 ./check.sh $id $tier 2>&1 | grep -v '^  key' | tail -4 | cut -c1-300)
echo "check $id $tier against the patched tree:" >> $out
echo "$r" >> $out
rm -f $dst/.clean.txt $dst/.patched.txt $dst/.suite.txt
git -C /repo worktree remove --force $wt
cat $out | cut -c1-300
