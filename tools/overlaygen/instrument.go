package main

import (
	"fmt"
	"go/ast"
	"go/parser"
	"go/token"
	"path/filepath"
	"strconv"
	"strings"
)

const vrtPath = shimRoot + "vrt"

// packageFieldNames collects the names of all fields of struct types declared in the
// package directory (non-test files). Only selectors with one of these names are
// instrumented, so fields of foreign types are never touched.
func packageFieldNames(dir string) map[string]bool {
	names := map[string]bool{}
	files, _ := filepath.Glob(filepath.Join(dir, "*.go"))
	for _, fn := range files {
		if strings.HasSuffix(fn, "_test.go") {
			continue
		}
		fset := token.NewFileSet()
		f, err := parser.ParseFile(fset, fn, nil, 0)
		if err != nil {
			continue
		}
		ast.Inspect(f, func(n ast.Node) bool {
			st, ok := n.(*ast.StructType)
			if !ok || st.Fields == nil {
				return true
			}
			for _, fl := range st.Fields.List {
				for _, n := range fl.Names {
					names[n.Name] = true
				}
			}
			return true
		})
	}
	return names
}

// packageVarNames collects the names of the package-level variables declared in the package
// directory (non-test files).
func packageVarNames(dir string) map[string]bool {
	names := map[string]bool{}
	files, _ := filepath.Glob(filepath.Join(dir, "*.go"))
	for _, fn := range files {
		if strings.HasSuffix(fn, "_test.go") {
			continue
		}
		fset := token.NewFileSet()
		f, err := parser.ParseFile(fset, fn, nil, 0)
		if err != nil {
			continue
		}
		for _, d := range f.Decls {
			gd, ok := d.(*ast.GenDecl)
			if !ok || gd.Tok != token.VAR {
				continue
			}
			for _, sp := range gd.Specs {
				if vs, ok := sp.(*ast.ValueSpec); ok {
					for _, n := range vs.Names {
						if n.Name != "_" {
							names[n.Name] = true
						}
					}
				}
			}
		}
	}
	return names
}

// instrumentAccesses inserts, before every statement, one vrt.F / vrt.M call per plain
// field access / map access the statement itself performs (not its nested blocks, which
// are handled on their own). The hooks decide at run time (by reflection) whether the
// operand really is a pointer-to-struct field or a map; anything else is ignored, so the
// pass can only under-approximate.
//
// With pkgVars != nil, plain uses of package-level variables and of local variables captured by
// a function literal are recorded too (vrt.V): the scratch buffer hoisted out of a function, the
// value cached in a closure.
func instrumentAccesses(fset *token.FileSet, f *ast.File, fields map[string]bool, pkgVars map[string]bool, everyStmt string) bool {
	pkgNames := map[string]bool{}
	for _, imp := range f.Imports {
		p, _ := strconv.Unquote(imp.Path.Value)
		name := p[strings.LastIndex(p, "/")+1:]
		if imp.Name != nil {
			name = imp.Name.Name
		}
		pkgNames[name] = true
	}
	in := &instr{fset: fset, fields: fields, pkgNames: pkgNames, pkgVars: pkgVars, everyStmt: everyStmt}
	if pkgVars != nil {
		ast.Inspect(f, func(n ast.Node) bool {
			switch n := n.(type) {
			case *ast.FuncLit:
				in.funcLits = append(in.funcLits, [2]token.Pos{n.Pos(), n.End()})
			case *ast.FuncDecl:
				in.funcDecls = append(in.funcDecls, [2]token.Pos{n.Pos(), n.End()})
			}
			return true
		})
	}
	ast.Inspect(f, func(n ast.Node) bool {
		switch n := n.(type) {
		case *ast.BlockStmt:
			n.List = in.list(n.List)
		case *ast.CaseClause:
			n.Body = in.list(n.Body)
		case *ast.CommClause:
			n.Body = in.list(n.Body)
		}
		return true
	})
	if !in.used {
		return false
	}
	addVrtImport(f)
	return true
}

// addVrtImport adds the import of the hook package under the name vrt.
func addVrtImport(f *ast.File) {
	for _, imp := range f.Imports {
		if imp.Name != nil && imp.Name.Name == "vrt" {
			return
		}
	}
	spec := &ast.ImportSpec{Name: ast.NewIdent("vrt"), Path: &ast.BasicLit{Kind: token.STRING, Value: strconv.Quote(vrtPath)}}
	f.Imports = append(f.Imports, spec)
	for _, d := range f.Decls {
		if gd, ok := d.(*ast.GenDecl); ok && gd.Tok == token.IMPORT {
			gd.Specs = append(gd.Specs, spec)
			if !gd.Lparen.IsValid() {
				gd.Lparen = gd.Pos()
				gd.Rparen = gd.End()
			}
			return
		}
	}
	f.Decls = append([]ast.Decl{&ast.GenDecl{Tok: token.IMPORT, Specs: []ast.Spec{spec}}}, f.Decls...)
}

// directiveComments keeps only compiler directives (see rewriteFile).
func directiveComments(f *ast.File) []*ast.CommentGroup {
	var keep []*ast.CommentGroup
	for _, g := range f.Comments {
		for _, c := range g.List {
			if strings.HasPrefix(c.Text, "//go:") || strings.HasPrefix(c.Text, "// +build") || strings.HasPrefix(c.Text, "//line ") {
				keep = append(keep, g)
				break
			}
		}
	}
	return keep
}

type instr struct {
	fset     *token.FileSet
	fields   map[string]bool
	pkgNames map[string]bool
	used     bool
	// variable instrumentation (nil pkgVars = off)
	pkgVars   map[string]bool
	everyStmt string // wide mode: package directory tag for vrt.Q ("" = off)
	funcLits  [][2]token.Pos
	funcDecls [][2]token.Pos
}

// sharedVar reports whether id is a plain use of a package-level variable or of a variable
// captured by the function literal the use stands in.
func (in *instr) sharedVar(id *ast.Ident) bool {
	if in.pkgVars == nil || id.Name == "_" {
		return false
	}
	if id.Obj == nil {
		return in.pkgVars[id.Name] // declared in another file of the package
	}
	if id.Obj.Kind != ast.Var {
		return false
	}
	d := id.Obj.Pos()
	if d == id.Pos() {
		return false // the declaration itself
	}
	inside := func(r [2]token.Pos, p token.Pos) bool { return r[0] <= p && p < r[1] }
	local := false
	for _, r := range in.funcDecls {
		if inside(r, d) {
			local = true
		}
	}
	if !local {
		for _, r := range in.funcLits {
			if inside(r, d) {
				local = true
			}
		}
	}
	if !local {
		return true // package level, this file
	}
	for _, r := range in.funcLits {
		if inside(r, id.Pos()) && !inside(r, d) {
			return true // captured
		}
	}
	return false
}

func (in *instr) list(stmts []ast.Stmt) []ast.Stmt {
	var out []ast.Stmt
	for _, s := range stmts {
		hooks := in.collect(s)
		out = append(out, hooks...)
		if len(hooks) == 0 && in.everyStmt != "" {
			// wide mode: a statement without recorded accesses is still a potential scheduling point
			// (vrt.Q parks only when the harness has switched the package on)
			_, isLabel := s.(*ast.LabeledStmt)
			_, isCase := s.(*ast.CaseClause)
			_, isComm := s.(*ast.CommClause)
			if !isLabel && !isCase && !isComm {
				p := in.fset.Position(s.Pos())
				in.used = true
				out = append(out, &ast.ExprStmt{X: &ast.CallExpr{
					Fun: &ast.SelectorExpr{X: ast.NewIdent("vrt"), Sel: ast.NewIdent("Q")},
					Args: []ast.Expr{&ast.BasicLit{Kind: token.STRING, Value: strconv.Quote(in.everyStmt)},
						&ast.BasicLit{Kind: token.STRING, Value: strconv.Quote(fmt.Sprintf("%s:%d", filepath.Base(p.Filename), p.Line))}},
				}})
			}
		}
		if len(hooks) > 0 {
			p := in.fset.Position(s.Pos())
			posLit := &ast.BasicLit{Kind: token.STRING, Value: strconv.Quote(fmt.Sprintf("%s:%d", filepath.Base(p.Filename), p.Line))}
			if in.everyStmt != "" {
				out = append(out, &ast.ExprStmt{X: &ast.CallExpr{
					Fun:  &ast.SelectorExpr{X: ast.NewIdent("vrt"), Sel: ast.NewIdent("PQ")},
					Args: []ast.Expr{&ast.BasicLit{Kind: token.STRING, Value: strconv.Quote(in.everyStmt)}, posLit},
				}})
			} else {
				out = append(out, &ast.ExprStmt{X: &ast.CallExpr{
					Fun:  &ast.SelectorExpr{X: ast.NewIdent("vrt"), Sel: ast.NewIdent("P")},
					Args: []ast.Expr{posLit},
				}})
			}
		}
		out = append(out, s)
	}
	return out
}

func pure(e ast.Expr) bool {
	switch e := e.(type) {
	case *ast.Ident:
		return e.Name != "_"
	case *ast.SelectorExpr:
		return pure(e.X)
	case *ast.ParenExpr:
		return pure(e.X)
	case *ast.StarExpr:
		return pure(e.X)
	}
	return false
}

func (in *instr) collect(s ast.Stmt) []ast.Stmt {
	var hooks []ast.Stmt
	writes := map[ast.Expr]bool{}
	skip := map[ast.Expr]bool{}
	skipIdent := map[*ast.Ident]bool{}
	seenVar := map[string]bool{}
	markLHS := func(e ast.Expr) {
		for {
			if p, ok := e.(*ast.ParenExpr); ok {
				e = p.X
				continue
			}
			break
		}
		writes[e] = true
	}
	pos := func(n ast.Node) ast.Expr {
		p := in.fset.Position(n.Pos())
		return &ast.BasicLit{Kind: token.STRING, Value: strconv.Quote(fmt.Sprintf("%s:%d", filepath.Base(p.Filename), p.Line))}
	}
	boolLit := func(b bool) ast.Expr {
		if b {
			return ast.NewIdent("true")
		}
		return ast.NewIdent("false")
	}
	emit := func(fn string, args ...ast.Expr) {
		in.used = true
		hooks = append(hooks, &ast.ExprStmt{X: &ast.CallExpr{
			Fun:  &ast.SelectorExpr{X: ast.NewIdent("vrt"), Sel: ast.NewIdent(fn)},
			Args: args,
		}})
	}
	var visit func(n ast.Node) bool
	visit = func(n ast.Node) bool {
		switch n := n.(type) {
		case nil:
			return false
		case *ast.BlockStmt, *ast.FuncLit, *ast.CaseClause, *ast.CommClause:
			return false // handled on their own
		case *ast.AssignStmt:
			if n.Tok != token.DEFINE {
				for _, l := range n.Lhs {
					markLHS(l)
				}
			}
			// *p overwritten or copied as a whole (only directly on either side of an assignment,
			// where a StarExpr cannot be a type): an access to every field of the struct
			for i, side := range [][]ast.Expr{n.Lhs, n.Rhs} {
				for _, e := range side {
					for {
						if p, ok := e.(*ast.ParenExpr); ok {
							e = p.X
							continue
						}
						break
					}
					if st, ok := e.(*ast.StarExpr); ok && pure(st.X) {
						emit("S", st.X, boolLit(i == 0 && n.Tok != token.DEFINE), pos(st))
					}
				}
			}
		case *ast.IncDecStmt:
			markLHS(n.X)
		case *ast.RangeStmt:
			if n.Tok == token.ASSIGN {
				if n.Key != nil {
					markLHS(n.Key)
				}
				if n.Value != nil {
					markLHS(n.Value)
				}
			}
			if pure(n.X) {
				emit("M", n.X, boolLit(false), pos(n.X))
			}
		case *ast.UnaryExpr:
			if n.Op == token.AND {
				x := n.X
				for {
					if p, ok := x.(*ast.ParenExpr); ok {
						x = p.X
						continue
					}
					break
				}
				if _, ok := x.(*ast.SelectorExpr); ok {
					skip[x] = true // address taken: synchronisation is recorded by the atomic shim
				}
			}
		case *ast.CallExpr:
			if id, ok := n.Fun.(*ast.Ident); ok && id.Name == "delete" && len(n.Args) == 2 && pure(n.Args[0]) {
				emit("M", n.Args[0], boolLit(true), pos(n))
			}
			if sel, ok := n.Fun.(*ast.SelectorExpr); ok {
				skip[sel] = true // method value / package function, not a field read
			}
		case *ast.Ident:
			if !skipIdent[n] && in.sharedVar(n) {
				w := writes[n]
				key := fmt.Sprint(n.Name, w)
				if !seenVar[key] {
					seenVar[key] = true
					emit("V", &ast.UnaryExpr{Op: token.AND, X: ast.NewIdent(n.Name)}, boolLit(w), pos(n))
				}
			}
		case *ast.SelectorExpr:
			skipIdent[n.Sel] = true
			if !skip[n] && in.fields[n.Sel.Name] && pure(n.X) {
				if id, ok := n.X.(*ast.Ident); !ok || !in.pkgNames[id.Name] {
					emit("F", n.X, &ast.BasicLit{Kind: token.STRING, Value: strconv.Quote(n.Sel.Name)}, boolLit(writes[n]), pos(n))
				}
			}
		case *ast.IndexExpr:
			if pure(n.X) {
				emit("M", n.X, boolLit(writes[n]), pos(n))
			}

		case *ast.KeyValueExpr:
			// composite literal keys are not selectors; values are walked normally
			if id, ok := n.Key.(*ast.Ident); ok {
				skipIdent[id] = true
			}
		}
		return true
	}
	// own expressions of compound statements
	switch st := s.(type) {
	case *ast.IfStmt:
		for cur := st; cur != nil; {
			if cur.Init != nil {
				ast.Inspect(cur.Init, visit)
			}
			ast.Inspect(cur.Cond, visit)
			next, _ := cur.Else.(*ast.IfStmt)
			cur = next
		}
	case *ast.ForStmt:
		if st.Init != nil {
			ast.Inspect(st.Init, visit)
		}
		if st.Cond != nil {
			ast.Inspect(st.Cond, visit)
		}
	case *ast.SwitchStmt:
		if st.Init != nil {
			ast.Inspect(st.Init, visit)
		}
		if st.Tag != nil {
			ast.Inspect(st.Tag, visit)
		}
	case *ast.TypeSwitchStmt:
		if st.Init != nil {
			ast.Inspect(st.Init, visit)
		}
		ast.Inspect(st.Assign, visit)
	case *ast.RangeStmt:
		visit(st)
		ast.Inspect(st.X, visit)
	case *ast.SelectStmt, *ast.BlockStmt:
		// nothing of their own
	case *ast.LabeledStmt:
		return in.collect(st.Stmt)
	case *ast.DeclStmt:
		ast.Inspect(st, visit)
	default:
		ast.Inspect(s, visit)
	}
	return hooks
}
