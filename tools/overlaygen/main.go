// overlaygen builds the go build -overlay file that turns /repo's current
// working tree into the instrumented verification binary, without touching /repo.
//
//	overlaygen -repo /repo -verif /verif -out /verif/build/run-123
//
// It writes <out>/overlay.json (+ generated files under <out>/gen) and prints the
// overlay path. See DESIGN.md §3.1.
package main

import (
	"bytes"
	"encoding/json"
	"flag"
	"fmt"
	"go/ast"
	"go/build"
	"go/format"
	"go/parser"
	"go/token"
	"os"
	"path/filepath"
	"sort"
	"strconv"
	"strings"
)

const modulePath = "github.com/oauth2-proxy/oauth2-proxy/v7"
const shimRoot = modulePath + "/verifx/"

// import swaps: package directory (relative to repo root) -> import path -> shim package
var swaps = map[string]map[string]string{
	"pkg/authentication/basic": {"sync": "vsync", "sync/atomic": "vatomic"},
	".":                        {"sync": "vsync", "sync/atomic": "vatomic"},
	"pkg/encryption":           {"time": "vtime", "sync": "vsync", "sync/atomic": "vatomic"},
	// session encoding / stores: nothing there uses sync today; the swap only takes effect for a
	// file that starts to (a cache, a pool), and then its operations become scheduling points
	"pkg/apis/sessions":        {"sync": "vsync", "sync/atomic": "vatomic"},
	"pkg/sessions/cookie":      {"sync": "vsync", "sync/atomic": "vatomic"},
	"pkg/sessions/persistence": {"sync": "vsync", "sync/atomic": "vatomic"},
	"pkg/cookies":              {"sync": "vsync", "sync/atomic": "vatomic"},
	"pkg/middleware":           {"time": "vtime", "context": "vcontext"},
	"pkg/header":               {"sync": "vsync", "sync/atomic": "vatomic"},
	"pkg/watcher":              {"github.com/fsnotify/fsnotify": "vfsnotify", "time": "vtime"},
}

// files of package main that must never be rewritten for sync/atomic (they do not
// share state with the reload logic and rewriting them would only widen the diff)
var mainOnly = map[string]bool{"validator.go": true}

// packages whose plain field/map accesses are instrumented for the race check (C20)
var instrumented = map[string]bool{"pkg/authentication/basic": true, ".": true, "pkg/header": true, "pkg/middleware": true}

// packages in which uses of package-level and closure-captured variables are recorded as well
var instrumentVars = map[string]bool{"pkg/header": true, "pkg/middleware": true}

// packages of which only some files are instrumented (C07's concurrent part needs scheduling
// points inside the header injection code, not in the whole middleware package)
var instrumentedFiles = map[string]map[string]bool{"pkg/middleware": {"headers.go": true}}

// shim packages with generated complete re-exports: shim dir -> real import path
var shims = map[string]string{
	"vsync":    "sync",
	"vatomic":  "sync/atomic",
	"vtime":    "time",
	"vcontext": "context",
}

type overlay struct {
	Replace map[string]string
}

func main() {
	repo := flag.String("repo", "/repo", "repository root")
	verif := flag.String("verif", "/verif", "verif root")
	out := flag.String("out", "", "output directory")
	goroot := flag.String("goroot", "", "GOROOT of the toolchain that will build (for shim generation)")
	plain := flag.Bool("plain", false, "import swaps only, no access instrumentation at all (last resort when the instrumented tree does not compile)")
	wide := flag.Bool("wide", false, "instrument every package of the repository (statement-level scheduling points everywhere; C01's concurrent part)")
	flag.Parse()
	if *out == "" {
		fatal("missing -out")
	}
	gen := filepath.Join(*out, "gen")
	must(os.MkdirAll(gen, 0o755))
	ov := overlay{Replace: map[string]string{}}

	// 1. engine -> virtual packages <module>/verifx/...
	engineRoot := filepath.Join(*verif, "engine")
	must(filepath.Walk(engineRoot, func(p string, info os.FileInfo, err error) error {
		if err != nil {
			return err
		}
		if info.IsDir() || !(strings.HasSuffix(p, ".go") || strings.HasSuffix(p, ".s")) {
			return nil
		}
		rel, _ := filepath.Rel(engineRoot, p)
		ov.Replace[filepath.Join(*repo, "verifx", rel)] = p
		return nil
	}))

	// 2. generated complete re-exports for the shims
	for shim, real := range shims {
		src := genShimAliases(*goroot, filepath.Join(engineRoot, shim), shim, real)
		dst := filepath.Join(gen, "shim_"+shim+"_aliases.go")
		must(os.WriteFile(dst, src, 0o644))
		ov.Replace[filepath.Join(*repo, "verifx", shim, "zz_aliases_gen.go")] = dst
	}

	// 3. harness files -> package main test files
	hfiles, _ := filepath.Glob(filepath.Join(*verif, "harness", "*.go"))
	for _, h := range hfiles {
		base := strings.TrimSuffix(filepath.Base(h), ".go")
		base = strings.TrimSuffix(base, "_test")
		ov.Replace[filepath.Join(*repo, "zz_verif_"+base+"_test.go")] = h
	}
	// export helpers into other packages: harness/export/<pkg path with __>/*.go
	efiles, _ := filepath.Glob(filepath.Join(*verif, "harness", "export", "*", "*.go"))
	for _, e := range efiles {
		pkgdir := strings.ReplaceAll(filepath.Base(filepath.Dir(e)), "__", "/")
		ov.Replace[filepath.Join(*repo, pkgdir, "zz_verif_"+filepath.Base(e))] = e
	}

	// 4. the repository's own tests of package main are stubbed out
	stub := filepath.Join(gen, "stub_test.go")
	must(os.WriteFile(stub, []byte("package main\n"), 0o644))
	rootTests, _ := filepath.Glob(filepath.Join(*repo, "*_test.go"))
	for _, t := range rootTests {
		ov.Replace[t] = stub
	}

	// 5. import swaps (+ access instrumentation) per package directory
	if *wide {
		// every package directory of the repository: sync and sync/atomic are swapped (a thread
		// parked inside a critical section must block its peers in the scheduler, not in the
		// runtime) and all accesses to own struct fields, maps, package-level and captured
		// variables are recorded. The logger is left alone (no shared decision state, very many
		// statements per request).
		must(filepath.Walk(*repo, func(p string, info os.FileInfo, err error) error {
			if err != nil {
				return err
			}
			if !info.IsDir() {
				return nil
			}
			rel, _ := filepath.Rel(*repo, p)
			base := filepath.Base(p)
			if rel != "." && (strings.HasPrefix(base, ".") || base == "testdata" || base == "verifx" || base == "docs" || base == "contrib" || base == "node_modules") {
				return filepath.SkipDir
			}
			if rel == "tools" || strings.HasPrefix(rel, "tools/") {
				return nil
			}
			if rel == "pkg/logger" {
				// not instrumented, but its mutex must be the scheduler's: it formats its arguments
				// (String methods of instrumented types) while holding it
				swaps[rel] = map[string]string{"sync": "vsync", "sync/atomic": "vatomic"}
				return nil
			}
			if g, _ := filepath.Glob(filepath.Join(p, "*.go")); len(g) == 0 {
				return nil
			}
			m := map[string]string{"sync": "vsync", "sync/atomic": "vatomic"}
			for k, v := range swaps[rel] {
				m[k] = v
			}
			swaps[rel] = m
			instrumented[rel] = true
			instrumentVars[rel] = true
			delete(instrumentedFiles, rel)
			return nil
		}))
	}
	dirs := make([]string, 0, len(swaps))
	for d := range swaps {
		dirs = append(dirs, d)
	}
	sort.Strings(dirs)
	for _, d := range dirs {
		abs := filepath.Join(*repo, d)
		files, _ := filepath.Glob(filepath.Join(abs, "*.go"))
		for _, f := range files {
			if strings.HasSuffix(f, "_test.go") {
				continue
			}
			var fields, pkgVars map[string]bool
			if !*plain && instrumented[d] && (instrumentedFiles[d] == nil || instrumentedFiles[d][filepath.Base(f)]) {
				fields = packageFieldNames(abs)
				if instrumentVars[d] {
					pkgVars = packageVarNames(abs)
				}
			}
			if d == "." && !mainOnly[filepath.Base(f)] && !*wide {
				// package main: besides validator.go only files that themselves use sync or
				// sync/atomic are swapped and instrumented (a refactoring may move the shared
				// structure into a new file); the request-handling files are left alone
				if !importsAny(f, "sync", "sync/atomic") {
					continue
				}
			}
			src, changed := rewriteFile(f, swaps[d], fields, pkgVars)
			if !changed {
				continue
			}
			name := strings.ReplaceAll(strings.Trim(d, "./"), "/", "_")
			if name == "" {
				name = "main"
			}
			dst := filepath.Join(gen, "rw_"+name+"_"+filepath.Base(f))
			must(os.WriteFile(dst, src, 0o644))
			ov.Replace[f] = dst
		}
	}

	data, err := json.MarshalIndent(ov, "", " ")
	must(err)
	ovPath := filepath.Join(*out, "overlay.json")
	must(os.WriteFile(ovPath, data, 0o644))
	fmt.Println(ovPath)
}

// importsAny reports whether the Go file imports one of the given paths.
func importsAny(path string, paths ...string) bool {
	fset := token.NewFileSet()
	f, err := parser.ParseFile(fset, path, nil, parser.ImportsOnly)
	if err != nil {
		return false
	}
	for _, imp := range f.Imports {
		p, _ := strconv.Unquote(imp.Path.Value)
		for _, q := range paths {
			if p == q {
				return true
			}
		}
	}
	return false
}

func fatal(format string, a ...any) {
	fmt.Fprintf(os.Stderr, "overlaygen: "+format+"\n", a...)
	os.Exit(2)
}

func must(err error) {
	if err != nil {
		fatal("%v", err)
	}
}

// rewriteFile swaps imports and (optionally) instruments plain accesses.
func rewriteFile(path string, swap map[string]string, fields, pkgVars map[string]bool) ([]byte, bool) {
	fset := token.NewFileSet()
	f, err := parser.ParseFile(fset, path, nil, parser.ParseComments)
	must(err)
	changed := false
	for _, imp := range f.Imports {
		p, _ := strconv.Unquote(imp.Path.Value)
		shim, ok := swap[p]
		if !ok {
			continue
		}
		if imp.Name == nil {
			// keep the local name the file already uses
			base := p[strings.LastIndex(p, "/")+1:]
			imp.Name = ast.NewIdent(base)
		}
		imp.Path.Value = strconv.Quote(shimRoot + shim)
		imp.EndPos = 0
		changed = true
	}
	if fields != nil {
		if instrumentAccesses(fset, f, fields, pkgVars) {
			changed = true
		}
	}
	if !changed {
		return nil, false
	}
	var buf bytes.Buffer
	// line directives keep panics and race reports pointing at the real file
	fmt.Fprintf(&buf, "//line %s:1\n", path)
	must(format.Node(&buf, fset, f))
	return buf.Bytes(), true
}

// genShimAliases emits `type X = real.X`, `const`, `var F = real.F` for every exported
// top-level object of the real package that the hand-written shim does not define.
func genShimAliases(goroot, shimDir, shim, real string) []byte {
	if goroot == "" {
		goroot = build.Default.GOROOT
	}
	ctx := build.Default
	ctx.GOROOT = goroot
	ctx.CgoEnabled = true
	realDir := filepath.Join(goroot, "src", filepath.FromSlash(real))
	bp, err := ctx.ImportDir(realDir, 0)
	must(err)

	// names the hand-written shim defines itself
	own := map[string]bool{}
	hand, _ := filepath.Glob(filepath.Join(shimDir, "*.go"))
	for _, h := range hand {
		fset := token.NewFileSet()
		f, err := parser.ParseFile(fset, h, nil, 0)
		must(err)
		for _, d := range f.Decls {
			switch d := d.(type) {
			case *ast.FuncDecl:
				if d.Recv == nil {
					own[d.Name.Name] = true
				}
			case *ast.GenDecl:
				for _, s := range d.Specs {
					switch s := s.(type) {
					case *ast.TypeSpec:
						own[s.Name.Name] = true
					case *ast.ValueSpec:
						for _, n := range s.Names {
							own[n.Name] = true
						}
					}
				}
			}
		}
	}

	var types, consts, vars, funcs []string
	seen := map[string]bool{}
	add := func(list *[]string, name string) {
		if !ast.IsExported(name) || own[name] || seen[name] {
			return
		}
		seen[name] = true
		*list = append(*list, name)
	}
	var skipped []string
	for _, gf := range bp.GoFiles {
		fset := token.NewFileSet()
		f, err := parser.ParseFile(fset, filepath.Join(realDir, gf), nil, 0)
		must(err)
		for _, d := range f.Decls {
			switch d := d.(type) {
			case *ast.FuncDecl:
				if d.Recv != nil {
					continue
				}
				if d.Type.TypeParams != nil {
					if ast.IsExported(d.Name.Name) && !own[d.Name.Name] {
						skipped = append(skipped, d.Name.Name)
					}
					continue
				}
				add(&funcs, d.Name.Name)
			case *ast.GenDecl:
				for _, s := range d.Specs {
					switch s := s.(type) {
					case *ast.TypeSpec:
						if s.TypeParams != nil {
							if ast.IsExported(s.Name.Name) && !own[s.Name.Name] {
								skipped = append(skipped, s.Name.Name)
							}
							continue
						}
						add(&types, s.Name.Name)
					case *ast.ValueSpec:
						for _, n := range s.Names {
							if d.Tok == token.CONST {
								add(&consts, n.Name)
							} else {
								add(&vars, n.Name)
							}
						}
					}
				}
			}
		}
	}
	var b bytes.Buffer
	fmt.Fprintf(&b, "// Code generated by overlaygen; DO NOT EDIT.\n\npackage %s\n\nimport real %q\n\n", shim, real)
	if len(skipped) > 0 {
		sort.Strings(skipped)
		fmt.Fprintf(&b, "// generic objects not re-exported (no generic aliases in this Go version): %s\n\n", strings.Join(skipped, ", "))
	}
	for _, n := range types {
		fmt.Fprintf(&b, "type %s = real.%s\n", n, n)
	}
	for _, n := range consts {
		fmt.Fprintf(&b, "const %s = real.%s\n", n, n)
	}
	for _, n := range vars {
		fmt.Fprintf(&b, "var %s = real.%s\n", n, n)
	}
	for _, n := range funcs {
		fmt.Fprintf(&b, "var %s = real.%s\n", n, n)
	}
	if len(types)+len(consts)+len(vars)+len(funcs) == 0 {
		fmt.Fprintf(&b, "var _ = real.%s\n", firstExported(bp, realDir))
	}
	src, err := format.Source(b.Bytes())
	must(err)
	return src
}

func firstExported(bp *build.Package, dir string) string {
	for _, gf := range bp.GoFiles {
		fset := token.NewFileSet()
		f, err := parser.ParseFile(fset, filepath.Join(dir, gf), nil, 0)
		if err != nil {
			continue
		}
		for _, d := range f.Decls {
			if fd, ok := d.(*ast.FuncDecl); ok && fd.Recv == nil && ast.IsExported(fd.Name.Name) && fd.Type.TypeParams == nil {
				return fd.Name.Name
			}
		}
	}
	return "x"
}
