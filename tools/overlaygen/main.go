// overlaygen builds the go build -overlay file that turns /repo's current
// working tree into the instrumented verification binary, without touching /repo.
//
//	overlaygen -repo /repo -verif /verif -out /verif/build/run-123
//
// It writes <out>/overlay.json (+ generated files under <out>/gen) and prints the
// overlay path. See DESIGN.md §3.1.
package main

import (
	"bytes"
	"encoding/json"
	"flag"
	"fmt"
	"go/ast"
	"go/build"
	"go/format"
	"go/parser"
	"go/printer"
	"go/token"
	"os"
	"path/filepath"
	"sort"
	"strconv"
	"strings"
)

const modulePath = "github.com/oauth2-proxy/oauth2-proxy/v7"
const shimRoot = modulePath + "/verifx/"

// import swaps: package directory (relative to repo root) -> import path -> shim package
var swaps = map[string]map[string]string{
	"pkg/authentication/basic": {"sync": "vsync", "sync/atomic": "vatomic", "time": "vtime"},
	".":                        {"sync": "vsync", "sync/atomic": "vatomic", "time": "vtime"},
	"pkg/encryption":           {"time": "vtime", "sync": "vsync", "sync/atomic": "vatomic"},
	// session encoding / stores: nothing there uses sync today; the swap only takes effect for a
	// file that starts to (a cache, a pool), and then its operations become scheduling points
	"pkg/apis/sessions":        {"sync": "vsync", "sync/atomic": "vatomic"},
	"pkg/sessions/cookie":      {"sync": "vsync", "sync/atomic": "vatomic"},
	"pkg/sessions/persistence": {"sync": "vsync", "sync/atomic": "vatomic"},
	"pkg/cookies":              {"sync": "vsync", "sync/atomic": "vatomic"},
	"pkg/middleware":           {"time": "vtime", "context": "vcontext"},
	"pkg/header":               {"sync": "vsync", "sync/atomic": "vatomic"},
	"pkg/sessions/redis":       {"sync": "vsync", "sync/atomic": "vatomic"},
	"pkg/watcher":              {"github.com/fsnotify/fsnotify": "vfsnotify", "time": "vtime"},
}

// files of package main that must never be rewritten for sync/atomic (they do not
// share state with the reload logic and rewriting them would only widen the diff)
var mainOnly = map[string]bool{"validator.go": true}

// packages whose plain field/map accesses are instrumented for the race check (C20)
var instrumented = map[string]bool{"pkg/authentication/basic": true, ".": true, "pkg/header": true, "pkg/middleware": true}

// packages in which uses of package-level and closure-captured variables are recorded as well
var instrumentVars = map[string]bool{"pkg/header": true, "pkg/middleware": true}

// packages of which only some files are instrumented (C07's concurrent part needs scheduling
// points inside the header injection code, not in the whole middleware package)
var instrumentedFiles = map[string]map[string]bool{"pkg/middleware": {"headers.go": true}}

// shim packages with generated complete re-exports: shim dir -> real import path
var shims = map[string]string{
	"vsync":    "sync",
	"vatomic":  "sync/atomic",
	"vtime":    "time",
	"vcontext": "context",
}

type overlay struct {
	Replace map[string]string
}

func main() {
	repo := flag.String("repo", "/repo", "repository root")
	verif := flag.String("verif", "/verif", "verif root")
	out := flag.String("out", "", "output directory")
	goroot := flag.String("goroot", "", "GOROOT of the toolchain that will build (for shim generation)")
	plain := flag.Bool("plain", false, "import swaps only, no access instrumentation at all (last resort when the instrumented tree does not compile)")
	wide := flag.Bool("wide", false, "instrument every package of the repository (statement-level scheduling points everywhere; C01's concurrent part)")
	flag.Parse()
	if *out == "" {
		fatal("missing -out")
	}
	gen := filepath.Join(*out, "gen")
	must(os.MkdirAll(gen, 0o755))
	ov := overlay{Replace: map[string]string{}}

	// 1. engine -> virtual packages <module>/verifx/...
	engineRoot := filepath.Join(*verif, "engine")
	must(filepath.Walk(engineRoot, func(p string, info os.FileInfo, err error) error {
		if err != nil {
			return err
		}
		if info.IsDir() || !(strings.HasSuffix(p, ".go") || strings.HasSuffix(p, ".s")) {
			return nil
		}
		rel, _ := filepath.Rel(engineRoot, p)
		ov.Replace[filepath.Join(*repo, "verifx", rel)] = p
		return nil
	}))

	// 2. generated complete re-exports for the shims
	for shim, real := range shims {
		src := genShimAliases(*goroot, filepath.Join(engineRoot, shim), shim, real)
		dst := filepath.Join(gen, "shim_"+shim+"_aliases.go")
		must(os.WriteFile(dst, src, 0o644))
		ov.Replace[filepath.Join(*repo, "verifx", shim, "zz_aliases_gen.go")] = dst
	}

	// 3. harness files -> package main test files
	hfiles, _ := filepath.Glob(filepath.Join(*verif, "harness", "*.go"))
	for _, h := range hfiles {
		base := strings.TrimSuffix(filepath.Base(h), ".go")
		base = strings.TrimSuffix(base, "_test")
		ov.Replace[filepath.Join(*repo, "zz_verif_"+base+"_test.go")] = h
	}
	// generated accessor: the htpasswd validator's reload method, looked up in the current source
	{
		dst := filepath.Join(gen, "basic_reload_gen.go")
		must(os.WriteFile(dst, genReloadAccessor(filepath.Join(*repo, "pkg/authentication/basic")), 0o644))
		ov.Replace[filepath.Join(*repo, "pkg/authentication/basic", "zz_verif_reload_gen.go")] = dst
	}
	// generated accessors into package main (unexported members of OAuthProxy the harness needs)
	{
		dst := filepath.Join(gen, "main_access_gen_test.go")
		must(os.WriteFile(dst, genMainAccessors(*repo), 0o644))
		ov.Replace[filepath.Join(*repo, "zz_verif_access_gen_test.go")] = dst
	}
	// export helpers into other packages: harness/export/<pkg path with __>/*.go
	efiles, _ := filepath.Glob(filepath.Join(*verif, "harness", "export", "*", "*.go"))
	for _, e := range efiles {
		pkgdir := strings.ReplaceAll(filepath.Base(filepath.Dir(e)), "__", "/")
		ov.Replace[filepath.Join(*repo, pkgdir, "zz_verif_"+filepath.Base(e))] = e
	}

	// 4. the repository's own tests of package main are stubbed out
	stub := filepath.Join(gen, "stub_test.go")
	must(os.WriteFile(stub, []byte("package main\n"), 0o644))
	rootTests, _ := filepath.Glob(filepath.Join(*repo, "*_test.go"))
	for _, t := range rootTests {
		ov.Replace[t] = stub
	}

	// 5. import swaps (+ access instrumentation) per package directory
	if *wide {
		// every package directory of the repository: sync and sync/atomic are swapped (a thread
		// parked inside a critical section must block its peers in the scheduler, not in the
		// runtime) and all accesses to own struct fields, maps, package-level and captured
		// variables are recorded. The logger is left alone (no shared decision state, very many
		// statements per request).
		must(filepath.Walk(*repo, func(p string, info os.FileInfo, err error) error {
			if err != nil {
				return err
			}
			if !info.IsDir() {
				return nil
			}
			rel, _ := filepath.Rel(*repo, p)
			base := filepath.Base(p)
			if rel != "." && (strings.HasPrefix(base, ".") || base == "testdata" || base == "verifx" || base == "docs" || base == "contrib" || base == "node_modules") {
				return filepath.SkipDir
			}
			if rel == "tools" || strings.HasPrefix(rel, "tools/") {
				return nil
			}
			if rel == "pkg/logger" {
				// not instrumented, but its mutex must be the scheduler's: it formats its arguments
				// (String methods of instrumented types) while holding it
				swaps[rel] = map[string]string{"sync": "vsync", "sync/atomic": "vatomic"}
				return nil
			}
			if g, _ := filepath.Glob(filepath.Join(p, "*.go")); len(g) == 0 {
				return nil
			}
			m := map[string]string{"sync": "vsync", "sync/atomic": "vatomic"}
			for k, v := range swaps[rel] {
				m[k] = v
			}
			swaps[rel] = m
			instrumented[rel] = true
			instrumentVars[rel] = true
			delete(instrumentedFiles, rel)
			return nil
		}))
	}
	// x/sync/singleflight blocks joiners on a real WaitGroup: substituted wherever imports are substituted
	for d := range swaps {
		if _, has := swaps[d]["sync"]; has {
			swaps[d]["golang.org/x/sync/singleflight"] = "vsingleflight"
		}
	}
	dirs := make([]string, 0, len(swaps))
	for d := range swaps {
		dirs = append(dirs, d)
	}
	sort.Strings(dirs)
	for _, d := range dirs {
		abs := filepath.Join(*repo, d)
		files, _ := filepath.Glob(filepath.Join(abs, "*.go"))
		for _, f := range files {
			if strings.HasSuffix(f, "_test.go") {
				continue
			}
			var fields, pkgVars map[string]bool
			if !*plain && instrumented[d] && (instrumentedFiles[d] == nil || instrumentedFiles[d][filepath.Base(f)]) {
				fields = packageFieldNames(abs)
				if instrumentVars[d] {
					pkgVars = packageVarNames(abs)
				}
			}
			if d == "." && !mainOnly[filepath.Base(f)] && !*wide {
				// package main: besides validator.go only files that themselves use sync or
				// sync/atomic are swapped and instrumented (a refactoring may move the shared
				// structure into a new file); the request-handling files are left alone
				if !importsAny(f, "sync", "sync/atomic") {
					continue
				}
			}
			every := ""
			if *wide && fields != nil {
				every = d
			}
			sw := swaps[d]
			if d == "." && !mainOnly[filepath.Base(f)] {
				// the virtual clock (and the timer model) only for the files of package main that hold
				// the reload logic; request handling keeps the clock it has
				sw = map[string]string{}
				for k, v := range swaps[d] {
					if k != "time" {
						sw[k] = v
					}
				}
			}
			src, changed := rewriteFile(f, sw, fields, pkgVars, every, !*plain)
			if !changed {
				continue
			}
			name := strings.ReplaceAll(strings.Trim(d, "./"), "/", "_")
			if name == "" {
				name = "main"
			}
			dst := filepath.Join(gen, "rw_"+name+"_"+filepath.Base(f))
			must(os.WriteFile(dst, src, 0o644))
			ov.Replace[f] = dst
		}
	}

	data, err := json.MarshalIndent(ov, "", " ")
	must(err)
	ovPath := filepath.Join(*out, "overlay.json")
	must(os.WriteFile(ovPath, data, 0o644))
	fmt.Println(ovPath)
}

// genReloadAccessor writes VerifReload for package basic: it looks for a method with one string
// parameter and one error result on a type that also has Validate(string, string) bool (the
// validator); among several, one whose name contains "load" wins. Without a candidate the accessor
// reports an error at run time (C20 then says so) instead of breaking the build of every check.
func genReloadAccessor(dir string) []byte {
	type meth struct {
		recv, name string
		ptr        bool
	}
	var cands []meth
	validators := map[string]bool{}
	files, _ := filepath.Glob(filepath.Join(dir, "*.go"))
	for _, fn := range files {
		if strings.HasSuffix(fn, "_test.go") {
			continue
		}
		fset := token.NewFileSet()
		f, err := parser.ParseFile(fset, fn, nil, 0)
		if err != nil {
			continue
		}
		for _, d := range f.Decls {
			fd, ok := d.(*ast.FuncDecl)
			if !ok || fd.Recv == nil || len(fd.Recv.List) != 1 {
				continue
			}
			rt := fd.Recv.List[0].Type
			ptr := false
			if st, ok := rt.(*ast.StarExpr); ok {
				rt, ptr = st.X, true
			}
			id, ok := rt.(*ast.Ident)
			if !ok {
				continue
			}
			isStr := func(e ast.Expr) bool { i, ok := e.(*ast.Ident); return ok && i.Name == "string" }
			np, nr := 0, 0
			var ptypes, rtypes []ast.Expr
			if fd.Type.Params != nil {
				for _, p := range fd.Type.Params.List {
					k := len(p.Names)
					if k == 0 {
						k = 1
					}
					for j := 0; j < k; j++ {
						ptypes = append(ptypes, p.Type)
					}
				}
			}
			if fd.Type.Results != nil {
				for _, p := range fd.Type.Results.List {
					k := len(p.Names)
					if k == 0 {
						k = 1
					}
					for j := 0; j < k; j++ {
						rtypes = append(rtypes, p.Type)
					}
				}
			}
			np, nr = len(ptypes), len(rtypes)
			if fd.Name.Name == "Validate" && np == 2 && nr == 1 && isStr(ptypes[0]) && isStr(ptypes[1]) {
				validators[id.Name] = true
			}
			if np == 1 && nr == 1 && isStr(ptypes[0]) {
				if ri, ok := rtypes[0].(*ast.Ident); ok && ri.Name == "error" {
					cands = append(cands, meth{recv: id.Name, name: fd.Name.Name, ptr: ptr})
				}
			}
		}
	}
	var best *meth
	for i := range cands {
		c := &cands[i]
		if !validators[c.recv] {
			continue
		}
		if best == nil || (strings.Contains(strings.ToLower(c.name), "load") && !strings.Contains(strings.ToLower(best.name), "load")) {
			best = c
		}
	}
	var b bytes.Buffer
	b.WriteString("//go:build verif\n\npackage basic\n\n")
	if best == nil {
		b.WriteString("import \"errors\"\n\n// VerifReload: no reload method was found in the package's source.\nfunc VerifReload(v Validator, path string) error {\n\treturn errors.New(\"verif: no method (string) error on the validator type found in pkg/authentication/basic\")\n}\n")
		return b.Bytes()
	}
	star := ""
	if best.ptr {
		star = "*"
	}
	fmt.Fprintf(&b, "import \"fmt\"\n\n// VerifReload calls the validator's own reload (generated: type %s, method %s).\nfunc VerifReload(v Validator, path string) error {\n\tx, ok := v.(%s%s)\n\tif !ok {\n\t\treturn fmt.Errorf(\"verif: validator is %%T, not %s%s\", v)\n\t}\n\treturn x.%s(path)\n}\n", best.recv, best.name, star, best.recv, star, best.recv, best.name)
	return b.Bytes()
}

// genMainAccessors writes the accessors the harness uses instead of naming unexported members of
// package main, after looking them up in the current source: a rename then changes the generated
// code, a removal turns the accessor into one that reports "not available" (the checks that need it
// say so) — never into a build failure of every check.
func genMainAccessors(repo string) []byte {
	trusted := "" // method (*OAuthProxy) X(*http.Request) bool, name contains "trusted"
	haveChainFn, haveChainField, haveMux := false, false, false
	files, _ := filepath.Glob(filepath.Join(repo, "*.go"))
	for _, fn := range files {
		if strings.HasSuffix(fn, "_test.go") {
			continue
		}
		fset := token.NewFileSet()
		f, err := parser.ParseFile(fset, fn, nil, 0)
		if err != nil {
			continue
		}
		for _, d := range f.Decls {
			switch d := d.(type) {
			case *ast.FuncDecl:
				if d.Recv == nil {
					if d.Name.Name == "buildPreAuthChain" && d.Type.Params != nil && d.Type.Params.NumFields() == 2 && d.Type.Results != nil && d.Type.Results.NumFields() == 2 {
						haveChainFn = true
					}
					continue
				}
				if len(d.Recv.List) != 1 {
					continue
				}
				st, ok := d.Recv.List[0].Type.(*ast.StarExpr)
				if !ok {
					continue
				}
				if id, ok := st.X.(*ast.Ident); !ok || id.Name != "OAuthProxy" {
					continue
				}
				np, nr := 0, 0
				if d.Type.Params != nil {
					np = d.Type.Params.NumFields()
				}
				if d.Type.Results != nil {
					nr = d.Type.Results.NumFields()
				}
				if np == 1 && nr == 1 && strings.Contains(strings.ToLower(d.Name.Name), "trusted") {
					pt, _ := d.Type.Params.List[0].Type.(*ast.StarExpr)
					rt, _ := d.Type.Results.List[0].Type.(*ast.Ident)
					if pt != nil && rt != nil && rt.Name == "bool" {
						if se, ok := pt.X.(*ast.SelectorExpr); ok && se.Sel.Name == "Request" {
							trusted = d.Name.Name
						}
					}
				}
				if d.Name.Name == "buildServeMux" && np == 1 && nr == 0 {
					haveMux = true
				}
			case *ast.GenDecl:
				for _, sp := range d.Specs {
					ts, ok := sp.(*ast.TypeSpec)
					if !ok || ts.Name.Name != "OAuthProxy" {
						continue
					}
					if stt, ok := ts.Type.(*ast.StructType); ok {
						for _, fl := range stt.Fields.List {
							for _, n := range fl.Names {
								if n.Name == "preAuthChain" {
									haveChainField = true
								}
							}
						}
					}
				}
			}
		}
	}
	var b bytes.Buffer
	b.WriteString("//go:build verif\n\npackage main\n\nimport (\n\t\"context\"\n\t\"errors\"\n\t\"net/http\"\n\t\"net/http/httptest\"\n\n\t\"github.com/oauth2-proxy/oauth2-proxy/v7/pkg/apis/options\"\n)\n\nvar _ = errors.New\nvar _ *options.Options\nvar _ = context.Background\nvar _ = httptest.NewRecorder\n\n")
	if trusted != "" {
		fmt.Fprintf(&b, "// verifIsTrustedIP: generated from method %s.\nfunc verifIsTrustedIP(p *OAuthProxy, r *http.Request) bool { return p.%s(r) }\n\nconst verifHasIsTrustedIP = true\n\n", trusted, trusted)
	} else {
		b.WriteString("// verifIsTrustedIP: no method (*OAuthProxy) <..trusted..>(*http.Request) bool in the source: the\n// decision is read off the handler (an unauthenticated request for an upstream path is served iff exempt).\nfunc verifIsTrustedIP(p *OAuthProxy, r *http.Request) bool {\n\trec := httptest.NewRecorder()\n\tp.ServeHTTP(rec, r.Clone(context.Background()))\n\treturn rec.Code != http.StatusUnauthorized && rec.Code != http.StatusForbidden && rec.Code != http.StatusFound\n}\n\nconst verifHasIsTrustedIP = false\n\n")
	}
	if haveChainFn && haveChainField && haveMux {
		b.WriteString("// verifRebuildPreAuthChain rebuilds the pre-auth chain and the router from modified options.\nfunc verifRebuildPreAuthChain(p *OAuthProxy, o *options.Options) error {\n\tchain, err := buildPreAuthChain(o, verifSessionStore(p))\n\tif err != nil {\n\t\treturn err\n\t}\n\tp.preAuthChain = chain\n\tp.buildServeMux(o.ProxyPrefix)\n\treturn nil\n}\n")
	} else {
		b.WriteString("// verifRebuildPreAuthChain: buildPreAuthChain / preAuthChain / buildServeMux not found in the source.\nfunc verifRebuildPreAuthChain(p *OAuthProxy, o *options.Options) error {\n\treturn errors.New(\"verif: the pre-auth chain cannot be rebuilt on this tree (members renamed)\")\n}\n")
	}
	return b.Bytes()
}

// importsAny reports whether the Go file imports one of the given paths.
func importsAny(path string, paths ...string) bool {
	fset := token.NewFileSet()
	f, err := parser.ParseFile(fset, path, nil, parser.ImportsOnly)
	if err != nil {
		return false
	}
	for _, imp := range f.Imports {
		p, _ := strconv.Unquote(imp.Path.Value)
		for _, q := range paths {
			if p == q {
				return true
			}
		}
	}
	return false
}

func fatal(format string, a ...any) {
	fmt.Fprintf(os.Stderr, "overlaygen: "+format+"\n", a...)
	os.Exit(2)
}

func must(err error) {
	if err != nil {
		fatal("%v", err)
	}
}

// rewriteFile swaps imports and (optionally) instruments plain accesses.
func rewriteFile(path string, swap map[string]string, fields, pkgVars map[string]bool, everyStmt string, spawns bool) ([]byte, bool) {
	fset := token.NewFileSet()
	f, err := parser.ParseFile(fset, path, nil, parser.ParseComments)
	must(err)
	changed := false
	for _, imp := range f.Imports {
		p, _ := strconv.Unquote(imp.Path.Value)
		shim, ok := swap[p]
		if !ok {
			continue
		}
		if imp.Name == nil {
			// keep the local name the file already uses
			base := p[strings.LastIndex(p, "/")+1:]
			imp.Name = ast.NewIdent(base)
		}
		imp.Path.Value = strconv.Quote(shimRoot + shim)
		imp.EndPos = 0
		changed = true
	}
	spawned := spawns && rewriteSpawns(fset, f)
	if spawned {
		changed = true
	}
	instrumentedNow := false
	if fields != nil {
		if instrumentAccesses(fset, f, fields, pkgVars, everyStmt) {
			instrumentedNow = true
			changed = true
			// comments inside function bodies are printed at unpredictable places once statements
			// without positions are inserted next to them (a `/* #nosec */` ended up inside a
			// generated call): only directives (//go:..., build constraints) are kept
			var keep []*ast.CommentGroup
			for _, g := range f.Comments {
				dir := false
				for _, c := range g.List {
					if strings.HasPrefix(c.Text, "//go:") || strings.HasPrefix(c.Text, "// +build") || strings.HasPrefix(c.Text, "//line ") {
						dir = true
					}
				}
				if dir {
					keep = append(keep, g)
				}
			}
			f.Comments = keep
		}
	}
	if spawned && !instrumentedNow {
		addVrtImport(f)
		f.Comments = directiveComments(f)
	}
	if !changed {
		return nil, false
	}
	var buf bytes.Buffer
	// line directives keep panics and race reports pointing at the real file
	fmt.Fprintf(&buf, "//line %s:1\n", path)
	if err := format.Node(&buf, fset, f); err != nil {
		var raw bytes.Buffer
		_ = printer.Fprint(&raw, fset, f)
		_ = os.WriteFile("/dev/shm/overlaygen-failed.go", raw.Bytes(), 0o644)
		fatal("%s: %v", path, err)
	}
	return buf.Bytes(), true
}

// genShimAliases emits `type X = real.X`, `const`, `var F = real.F` for every exported
// top-level object of the real package that the hand-written shim does not define.
func genShimAliases(goroot, shimDir, shim, real string) []byte {
	if goroot == "" {
		goroot = build.Default.GOROOT
	}
	ctx := build.Default
	ctx.GOROOT = goroot
	ctx.CgoEnabled = true
	realDir := filepath.Join(goroot, "src", filepath.FromSlash(real))
	bp, err := ctx.ImportDir(realDir, 0)
	must(err)

	// names the hand-written shim defines itself
	own := map[string]bool{}
	hand, _ := filepath.Glob(filepath.Join(shimDir, "*.go"))
	for _, h := range hand {
		fset := token.NewFileSet()
		f, err := parser.ParseFile(fset, h, nil, 0)
		must(err)
		for _, d := range f.Decls {
			switch d := d.(type) {
			case *ast.FuncDecl:
				if d.Recv == nil {
					own[d.Name.Name] = true
				}
			case *ast.GenDecl:
				for _, s := range d.Specs {
					switch s := s.(type) {
					case *ast.TypeSpec:
						own[s.Name.Name] = true
					case *ast.ValueSpec:
						for _, n := range s.Names {
							own[n.Name] = true
						}
					}
				}
			}
		}
	}

	var types, consts, vars, funcs []string
	seen := map[string]bool{}
	add := func(list *[]string, name string) {
		if !ast.IsExported(name) || own[name] || seen[name] {
			return
		}
		seen[name] = true
		*list = append(*list, name)
	}
	var skipped []string
	for _, gf := range bp.GoFiles {
		fset := token.NewFileSet()
		f, err := parser.ParseFile(fset, filepath.Join(realDir, gf), nil, 0)
		must(err)
		for _, d := range f.Decls {
			switch d := d.(type) {
			case *ast.FuncDecl:
				if d.Recv != nil {
					continue
				}
				if d.Type.TypeParams != nil {
					if ast.IsExported(d.Name.Name) && !own[d.Name.Name] {
						skipped = append(skipped, d.Name.Name)
					}
					continue
				}
				add(&funcs, d.Name.Name)
			case *ast.GenDecl:
				for _, s := range d.Specs {
					switch s := s.(type) {
					case *ast.TypeSpec:
						if s.TypeParams != nil {
							if ast.IsExported(s.Name.Name) && !own[s.Name.Name] {
								skipped = append(skipped, s.Name.Name)
							}
							continue
						}
						add(&types, s.Name.Name)
					case *ast.ValueSpec:
						for _, n := range s.Names {
							if d.Tok == token.CONST {
								add(&consts, n.Name)
							} else {
								add(&vars, n.Name)
							}
						}
					}
				}
			}
		}
	}
	var b bytes.Buffer
	fmt.Fprintf(&b, "// Code generated by overlaygen; DO NOT EDIT.\n\npackage %s\n\nimport real %q\n\n", shim, real)
	if len(skipped) > 0 {
		sort.Strings(skipped)
		fmt.Fprintf(&b, "// generic objects not re-exported (no generic aliases in this Go version): %s\n\n", strings.Join(skipped, ", "))
	}
	for _, n := range types {
		fmt.Fprintf(&b, "type %s = real.%s\n", n, n)
	}
	for _, n := range consts {
		fmt.Fprintf(&b, "const %s = real.%s\n", n, n)
	}
	for _, n := range vars {
		fmt.Fprintf(&b, "var %s = real.%s\n", n, n)
	}
	for _, n := range funcs {
		fmt.Fprintf(&b, "var %s = real.%s\n", n, n)
	}
	if len(types)+len(consts)+len(vars)+len(funcs) == 0 {
		fmt.Fprintf(&b, "var _ = real.%s\n", firstExported(bp, realDir))
	}
	src, err := format.Source(b.Bytes())
	must(err)
	return src
}

func firstExported(bp *build.Package, dir string) string {
	for _, gf := range bp.GoFiles {
		fset := token.NewFileSet()
		f, err := parser.ParseFile(fset, filepath.Join(dir, gf), nil, 0)
		if err != nil {
			continue
		}
		for _, d := range f.Decls {
			if fd, ok := d.(*ast.FuncDecl); ok && fd.Recv == nil && ast.IsExported(fd.Name.Name) && fd.Type.TypeParams == nil {
				return fd.Name.Name
			}
		}
	}
	return "x"
}
