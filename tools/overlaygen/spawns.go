package main

import (
	"fmt"
	"go/ast"
	"go/token"
	"path/filepath"
	"strconv"
)

// rewriteSpawns makes goroutines and channel waits of the code under test visible to the
// scheduler (engine/vrt: Go, Sel):
//
//	go func() { ... }()         ->  vrt.Go("file:line", func() { ... })
//	go f(a, b)                  ->  { vf := f; v0 := a; v1 := b; vrt.Go("file:line", func() { vf(v0, v1) }) }
//	select { case <-a: ... }    ->  vrt.Sel("file:line", a, ...); select { ... }      (no default, receives only, simple channel expressions)
//	x := <-ch / <-ch            ->  vrt.Sel("file:line", ch); x := <-ch
//
// Function value and arguments of a go statement are evaluated by the spawning goroutine, as the
// language prescribes; literals and the predeclared nil/true/false/iota stay where they are (an
// untyped constant must keep its context). Anything the pass does not recognise is left alone.
func rewriteSpawns(fset *token.FileSet, f *ast.File) bool {
	used := false
	pos := func(p token.Pos) ast.Expr {
		pp := fset.Position(p)
		return &ast.BasicLit{Kind: token.STRING, Value: strconv.Quote(fmt.Sprintf("%s:%d", filepath.Base(pp.Filename), pp.Line))}
	}
	call := func(name string, args ...ast.Expr) *ast.CallExpr {
		return &ast.CallExpr{Fun: &ast.SelectorExpr{X: ast.NewIdent("vrt"), Sel: ast.NewIdent(name)}, Args: args}
	}
	n := 0
	goStmt := func(g *ast.GoStmt) ast.Stmt {
		c := g.Call
		if fl, ok := c.Fun.(*ast.FuncLit); ok && len(c.Args) == 0 {
			used = true
			return &ast.ExprStmt{X: call("Go", pos(g.Pos()), fl)}
		}
		if _, ok := c.Fun.(*ast.FuncLit); ok {
			return g // literal with arguments: parameter types are needed to hoist safely; rare, left alone
		}
		var pre []ast.Stmt
		hoist := func(e ast.Expr) ast.Expr {
			switch x := e.(type) {
			case *ast.BasicLit:
				return e
			case *ast.Ident:
				if x.Name == "nil" || x.Name == "true" || x.Name == "false" || x.Name == "iota" {
					return e
				}
			}
			n++
			id := ast.NewIdent("verifGo" + strconv.Itoa(n))
			pre = append(pre, &ast.AssignStmt{Lhs: []ast.Expr{id}, Tok: token.DEFINE, Rhs: []ast.Expr{e}})
			return ast.NewIdent(id.Name)
		}
		fn := hoist(c.Fun)
		var args []ast.Expr
		for _, a := range c.Args {
			args = append(args, hoist(a))
		}
		inner := &ast.CallExpr{Fun: fn, Args: args, Ellipsis: c.Ellipsis}
		if c.Ellipsis != token.NoPos {
			inner.Ellipsis = 1
		}
		lit := &ast.FuncLit{Type: &ast.FuncType{Params: &ast.FieldList{}}, Body: &ast.BlockStmt{List: []ast.Stmt{&ast.ExprStmt{X: inner}}}}
		used = true
		return &ast.BlockStmt{List: append(pre, &ast.ExprStmt{X: call("Go", pos(g.Pos()), lit)})}
	}
	recvChan := func(e ast.Expr) ast.Expr {
		if u, ok := e.(*ast.UnaryExpr); ok && u.Op == token.ARROW && pure(u.X) {
			return u.X
		}
		return nil
	}
	// the channel a statement waits on, if it is a plain receive
	stmtRecv := func(s ast.Stmt) ast.Expr {
		switch x := s.(type) {
		case *ast.ExprStmt:
			return recvChan(x.X)
		case *ast.AssignStmt:
			if len(x.Rhs) == 1 {
				return recvChan(x.Rhs[0])
			}
		}
		return nil
	}
	selHook := func(s *ast.SelectStmt) ast.Stmt {
		var chans []ast.Expr
		for _, cl := range s.Body.List {
			cc := cl.(*ast.CommClause)
			if cc.Comm == nil {
				return nil // default clause: never blocks
			}
			ch := stmtRecv(cc.Comm)
			if ch == nil {
				return nil // a send, or a channel expression with side effects
			}
			chans = append(chans, ch)
		}
		if len(chans) == 0 {
			return nil
		}
		used = true
		return &ast.ExprStmt{X: call("Sel", append([]ast.Expr{pos(s.Pos())}, chans...)...)}
	}
	var list func(stmts []ast.Stmt) []ast.Stmt
	list = func(stmts []ast.Stmt) []ast.Stmt {
		var out []ast.Stmt
		for _, s := range stmts {
			switch x := s.(type) {
			case *ast.GoStmt:
				out = append(out, goStmt(x))
				continue
			case *ast.SelectStmt:
				if h := selHook(x); h != nil {
					out = append(out, h)
				}
			case *ast.ExprStmt, *ast.AssignStmt:
				if ch := stmtRecv(s); ch != nil {
					used = true
					out = append(out, &ast.ExprStmt{X: call("Sel", pos(s.Pos()), ch)})
				}
			}
			out = append(out, s)
		}
		return out
	}
	ast.Inspect(f, func(nd ast.Node) bool {
		switch x := nd.(type) {
		case *ast.BlockStmt:
			x.List = list(x.List)
		case *ast.CaseClause:
			x.Body = list(x.Body)
		case *ast.CommClause:
			x.Body = list(x.Body)
		}
		return true
	})
	return used
}
