#!/bin/bash
# tools/allcheck.sh <patch.diff> <label> [ids...] — run every quick check (or the listed ones) against a
# scratch worktree of /repo carrying the patch; prints one line per check. Used for the false-alarm
# trials with behaviour-preserving changes and for catch matrices.
set -u
patch=$1; label=$2; shift 2
ids=${*:-C01 C02 C03 C04 C05 C06 C07 C08 C09 C10 C11 C12 C13 C14 C15 C16 C17 C18 C19 C20}
export GOFLAGS=-mod=mod GOPROXY=off
wt=/tmp/ac-$label
git -C /repo worktree remove --force $wt 2>/dev/null
git -C /repo worktree add -q $wt HEAD || exit 2
if ! git -C $wt apply "$patch"; then echo "$label: PATCH DOES NOT APPLY"; git -C /repo worktree remove --force $wt; exit 2; fi
# the checks run from a snapshot of the committed /verif, so that work in progress in /verif does not leak in
snap=/tmp/verif-snap-$label
git -C /verif worktree remove --force $snap 2>/dev/null
git -C /verif worktree add -q --detach $snap HEAD || exit 2
mkdir -p $snap/bin && cp /verif/bin/overlaygen $snap/bin/ 2>/dev/null
cd $snap
for id in $ids; do
  out=$(VERIF_REPO=$wt VERIF_OUT_DIR=/verif/build/allcheck-out VERIF_TIMEOUT=1500 ./check.sh $id quick 2>&1)
  rc=$?
  line=$(echo "$out" | grep "^check " | cut -c1-60)
  viol=$(echo "$out" | grep -c "^VIOLATION")
  herr=$(echo "$out" | grep -m1 "HARNESS-ERROR\|note: wide" | cut -c1-200)
  echo "$label $id rc=$rc violations=$viol $line $herr"
  if [ $viol -gt 0 ]; then
    for f in $(echo "$out" | grep "^VIOLATION" | sed 's/.*replay=//' | head -2); do jq -r '"   " + .key + ": " + (.msg|.[0:300])' $f 2>/dev/null; done
  fi
done
git -C /repo worktree remove --force $wt
git -C /verif worktree remove --force $snap
