#!/bin/bash
# MANIFEST.setup_cmd: builds the tools and warms the build cache (offline).
set -e
VERIF=$(cd "$(dirname "$0")" && pwd)
REPO=${VERIF_REPO:-/repo}
export GOFLAGS=-mod=mod GOPROXY=off
unset GOTOOLCHAIN GOSUMDB
mkdir -p "$VERIF/bin" "$VERIF/build" "$VERIF/evidence" "$VERIF/replays"
(cd "$VERIF/tools" && GOTOOLCHAIN=local go build -o "$VERIF/bin/overlaygen" ./overlaygen)
run=$VERIF/build/setup-$$
mkdir -p "$run"
trap 'rm -rf "$run"' EXIT
goroot=$(cd "$REPO" && go env GOROOT)
ov=$("$VERIF/bin/overlaygen" -repo "$REPO" -verif "$VERIF" -out "$run" -goroot "$goroot")
(cd "$REPO" && go test -c -vet=off -tags verif -overlay "$ov" -o "$run/verif.test" .)
# the wide instrumentation (concurrent parts of C01, C03, C06, C07, C08, C10) compiles every package of the
# repository a second time: warm that too (a failure here is not fatal, check.sh falls back)
mkdir -p "$run/w"
if ovw=$("$VERIF/bin/overlaygen" -wide -repo "$REPO" -verif "$VERIF" -out "$run/w" -goroot "$goroot"); then
  (cd "$REPO" && go test -c -vet=off -tags verif -overlay "$ovw" -o "$run/verif.wide.test" .) || echo "note: wide instrumentation does not build"
fi
echo "setup ok"
